"""Monitor-only stage (no model): provider methods that fail OUTSIDE the modelled environment.

The model's environment lets change_track/translate_uri fail; here backend.playback.play() raises
TypeError (the legacy-signature path _change handles), prepare_change() raises (its future is never
read), pause()/resume()/stop()/seek() answer False (the provider refuses) and - as a recorded
finding - play() raises something else.  Checked on the real Core:
every client call and notification handler returns (watchdog), nothing but a documented
validation error escapes (play() raising anything but TypeError does escape: recorded finding)."""

from __future__ import annotations

import itertools

import core_env
import core_run

D = [["deliver"]] * 4

SCRIPTS = [
    [["play", None]] + D + [["next"]] + D + [["next"]] + D,
    [["play", 2]] + D + [["previous"]] + D + [["atf"]] + D,
    [["play", 1]] + D + [["pause"], ["deliver"], ["deliver"], ["next"]] + D + [["resume"]] + D,
    [["play", 3]] + D + [["seek", 6000]] + D + [["atf"]] + D + [["eos"]] + D,
    [["play", None]] + D + [["stop"], ["deliver"], ["deliver"], ["play", 2]] + D + [["atf"]] + D,
    [["play", 2]] + D + [["pause"], ["deliver"], ["deliver"], ["resume"]] + D + [["play", None]] + D + [["seek", 500]] + D
    + [["stop"], ["deliver"], ["deliver"], ["play", None]] + D,
]


def run_stage(chk, prop, contained=True, runtime_faults=True):
    ntr = 4
    n = 0
    for fault_name, fault in (
        ("play-TypeError", {"play": (TypeError, {1, 2})}),
        ("play-TypeError", {"play": (TypeError, {0, 1, 2, 3})}),
        ("prepare_change-RuntimeError", {"prepare_change": RuntimeError}),
        ("play-RuntimeError", {"play": (RuntimeError, {1, 2})}),
        ("play-RuntimeError", {"play": (RuntimeError, {0, 1, 2, 3})}),
        ("resume-refused", {"refuse": {"resume"}}),
        ("pause-resume-stop-seek-refused", {"refuse": {"pause", "resume", "stop", "seek"}}),
        ("stop-seek-refused", {"refuse": {"stop", "seek"}}),
    ):
        if not runtime_faults and "RuntimeError" in fault_name and "prepare" not in fault_name:
            continue
        for mask, script in itertools.product((0, 1, 4, 5, 6, 12), SCRIPTS):
            case = {"kinds": ["playable"] * ntr, "lens": [1000] * ntr, "script": [], "max_len": 50,
                    "volume": None, "mute": None, "profile": "faulty-provider",
                    "ops": [["add", [0, 1, 2, 3], None]] + [["setmode", w, True] for w in range(4) if mask >> w & 1] + script}
            r = core_run.Runner(case)
            r.env.fault = {}
            try:
                for i, op in enumerate(case["ops"]):
                    if op[0] == "play" or i > len(case["ops"]) - len(script):
                        r.env.fault = fault
                    _, div = r.step(op)
                    t = r.trace[-1]
                    key = {"fault": fault_name, "call": op[0]}
                    where = {"case": dict(case, ops=case["ops"][: i + 1], fault=fault_name), "step": i}
                    if div:
                        chk.monitor_failure("request_terminates", key,
                                            f"{op[0]} exceeded the watchdog budget with {fault_name} [request_terminates]", where)
                        break
                    n_tl = len(r.trace[-2]["tl"]) if len(r.trace) > 1 else 0
                    if t["backend_calls"] > 10 * n_tl + 40:
                        chk.monitor_failure("request_bounded", key,
                                            f"{op[0]} made {t['backend_calls']} backend interactions for a tracklist of "
                                            f"{n_tl} with {fault_name} [request_bounded]", where)
                        break
                    if t["exc"] and not contained:
                        break     # the call ended (with an error): termination is all this caller asks
                    if t["exc"] and not (t["exc"] == "ValidationError" and op[0] in ("play", "add")):
                        chk.monitor_failure("failure_contained", {**key, "exc": t["exc"]},
                                            f"{op[0]} raised {t['exc']} with {fault_name} [failure_contained]", where)
                        break
                n += 1
                chk.count(1, nontrivial_key=f"{fault_name}/{sorted(fault.get('play', (0, ()))[1])}/{mask}/{SCRIPTS.index(script)}")
                chk.dist(f"faulty-provider:{fault_name}")
            finally:
                r.close()
    chk.notes.append(f"faulty-provider stage (monitor-only, real Core): {n} scripted runs")
    return n
