"""C09: correspondence of coq/Routing/Validation.v with mopidy/internal/validation.py on
generated well- and ill-typed arguments."""

from __future__ import annotations

import c09_impl as I
from c09_emit import CLS
from common import vlib
from common.vlib import g_bool, g_list, g_opt, g_str, g_z

AREA = "Routing"
STRINGS = ["", " ", "\t \n", "x", " x ", "a:1", "A:b", "b:", "noscheme", "any", "artist", "album", "uri", "track_no",
           "bogus", "a:1 ", "\ta:1", "1a:x", "a+b.c-d:x", "é:1", ":x"]
MODEL_CLASSES = ["track", "image", "ref", "search", "playlist"]


class It:
    """Spec of an iterator (rendered freshly for every call: iter(list))."""

    def __init__(self, items):
        self.items = items


def gen_scalar(rng):
    k = rng.weighted([("none", 1), ("bool", 2), ("int", 3), ("float", 1), ("str", 6), ("bytes", 1), ("obj", 2), ("junk", 1)])
    if k == "none":
        return None
    if k == "bool":
        return rng.random() < 0.5
    if k == "int":
        return rng.choice([-1, 0, 1, 5, 50, 100, 101, 1000])
    if k == "float":
        return 1.5
    if k == "str":
        return rng.choice(STRINGS)
    if k == "bytes":
        return rng.choice([b"", b"ab", b"a:1"])
    if k == "obj":
        return I.render_obj(rng.choice(MODEL_CLASSES), rng.randint(1, 9), True)
    return I.Junk()


def gen_value(rng, depth=2):
    if depth == 0 or rng.random() < 0.35:
        return gen_scalar(rng)
    k = rng.weighted([("list", 5), ("tuple", 3), ("set", 2), ("dict", 4), ("iter", 1.5)])
    n = rng.weighted([(0, 2), (1, 4), (2, 3), (3, 1)])
    if k in ("list", "tuple", "iter"):
        items = [gen_value(rng, depth - 1) for _ in range(n)]
        if rng.random() < 0.5:  # homogeneous: the interesting (accepting) case
            proto = gen_scalar(rng)
            items = [proto if rng.random() < 0.8 else gen_scalar(rng) for _ in range(n)]
        return items if k == "list" else tuple(items) if k == "tuple" else It(items)
    if k == "set":
        return {s for s in (gen_scalar(rng) for _ in range(n)) if not isinstance(s, I.Junk) or True}
    keys = [rng.choice(STRINGS[8:15] + [5, ("t",), None]) for _ in range(n)]
    return {key: gen_value(rng, depth - 1) if rng.random() < 0.4 else
            [rng.choice(STRINGS) for _ in range(rng.randint(0, 2))] for key in keys}


def spec_of(x):
    """JSON-able description of a generated value."""
    if x is None:
        return ["none"]
    if isinstance(x, bool):
        return ["bool", x]
    if isinstance(x, int):
        return ["int", x]
    if isinstance(x, float):
        return ["float"]
    if isinstance(x, str):
        return ["str", x]
    if isinstance(x, bytes):
        return ["bytes", list(x)]
    if isinstance(x, It):
        return ["iter", [spec_of(i) for i in x.items]]
    if isinstance(x, list):
        return ["list", [spec_of(i) for i in x]]
    if isinstance(x, tuple):
        return ["tuple", [spec_of(i) for i in x]]
    if isinstance(x, (set, frozenset)):
        return ["set", [spec_of(i) for i in x]]
    if isinstance(x, dict):
        return ["dict", [[spec_of(k), spec_of(v)] for k, v in x.items()]]
    if isinstance(x, I.Junk):
        return ["junk"]
    c = I.canon_obj(x)
    if c != "junk" and c[0] in MODEL_CLASSES:
        return ["obj", c[0], c[1]]
    raise ValueError(repr(x))


def obj_of(spec):
    """Fresh Python value for a spec (iterators are created anew)."""
    t = spec[0]
    if t == "none":
        return None
    if t in ("bool", "int", "str"):
        return spec[1]
    if t == "float":
        return 1.5
    if t == "bytes":
        return bytes(spec[1])
    if t == "iter":
        return iter([obj_of(i) for i in spec[1]])
    if t == "list":
        return [obj_of(i) for i in spec[1]]
    if t == "tuple":
        return tuple(obj_of(i) for i in spec[1])
    if t == "set":
        return {obj_of(i) for i in spec[1]}
    if t == "dict":
        return {obj_of(k): obj_of(v) for k, v in spec[1]}
    if t == "junk":
        return I.Junk()
    if t == "obj":
        return I.render_obj(spec[1], spec[2], True)
    raise ValueError(spec)


def spec_term(spec):
    t = spec[0]
    if t == "none":
        return "PNone"
    if t == "bool":
        return f"(PBool {g_bool(spec[1])})"
    if t == "int":
        return f"(PInt {g_z(spec[1])})"
    if t == "float":
        return "(PFloat 0)"
    if t == "str":
        return f"(PStr {g_str(spec[1])})"
    if t == "bytes":
        return f"(PBytes {g_list([g_z(b) for b in spec[1]])})"
    if t in ("iter", "list", "tuple", "set"):
        ctor = {"iter": "PIter", "list": "PList", "tuple": "PTuple", "set": "PSet"}[t]
        return f"({ctor} {g_list([spec_term(i) for i in spec[1]])})"
    if t == "dict":
        return "(PDict " + g_list([f"({spec_term(k)}, {spec_term(v)})" for k, v in spec[1]]) + ")"
    if t == "junk":
        return "PJunk"
    if t == "obj":
        return f"(PObj {CLS[spec[1]]} {g_z(spec[2])})"
    raise ValueError(spec)


def spec_strings(spec, out):
    """Every str occurring in a spec (candidates for URI texts)."""
    if spec[0] == "str":
        out.append(spec[1])
    elif spec[0] in ("iter", "list", "tuple", "set"):
        for i in spec[1]:
            spec_strings(i, out)
    elif spec[0] == "dict":
        for k, v in spec[1]:
            spec_strings(k, out)
            spec_strings(v, out)
    return out


def materialize(x):
    if isinstance(x, It):
        return iter([materialize(i) for i in x.items])
    if isinstance(x, list):
        return [materialize(i) for i in x]
    if isinstance(x, tuple):
        return tuple(materialize(i) for i in x)
    if isinstance(x, dict):
        return {k: materialize(v) for k, v in x.items()}
    return x  # scalars, sets of scalars, model objects


def term(x):
    if x is None:
        return "PNone"
    if isinstance(x, bool):
        return f"(PBool {g_bool(x)})"
    if isinstance(x, int):
        return f"(PInt {g_z(x)})"
    if isinstance(x, float):
        return "(PFloat 0)"
    if isinstance(x, str):
        return f"(PStr {g_str(x)})"
    if isinstance(x, bytes):
        return f"(PBytes {g_list([g_z(b) for b in x])})"
    if isinstance(x, It):
        return f"(PIter {g_list([term(i) for i in x.items])})"
    if isinstance(x, list):
        return f"(PList {g_list([term(i) for i in x])})"
    if isinstance(x, tuple):
        return f"(PTuple {g_list([term(i) for i in x])})"
    if isinstance(x, (set, frozenset)):
        return f"(PSet {g_list([term(i) for i in x])})"
    if isinstance(x, dict):
        return "(PDict " + g_list([f"({term(k)}, {term(v)})" for k, v in x.items()]) + ")"
    if isinstance(x, I.Junk):
        return "PJunk"
    c = I.canon_obj(x)
    if c != "junk" and c[0] in MODEL_CLASSES:
        return f"(PObj {CLS[c[0]]} {g_z(c[1])})"
    raise ValueError(repr(x))


PYCLS = ["bool", "int", "str", "mapping"] + MODEL_CLASSES


def pycls_term(name):
    return {"bool": "TBool", "int": "TInt", "str": "TStr", "mapping": "TMapping"}.get(name) or f"(TModel {CLS[name]})"


def pycls_obj(name):
    from collections.abc import Mapping

    mo = I.mods()["models"]
    return {"bool": bool, "int": int, "str": str, "mapping": Mapping, "track": mo.Track, "image": mo.Image,
            "ref": mo.Ref, "search": mo.SearchResult, "playlist": mo.Playlist}[name]


def gen_call(rng, validation):
    fn = rng.weighted([("instance", 2), ("instances", 4), ("boolean", 1), ("integer", 2), ("choice", 2), ("query", 4),
                       ("uri", 2), ("uris", 4), ("iterable", 1)])
    v = gen_value(rng)
    if fn == "uris" and rng.random() < 0.5:
        v = rng.choice([list, tuple])(rng.choice(STRINGS) for _ in range(rng.randint(0, 3)))
    if fn == "query" and rng.random() < 0.6:
        v = {rng.choice(["any", "artist", "album", "uri", "bogus"]):
             rng.choice([[rng.choice(STRINGS) for _ in range(rng.randint(0, 2))], rng.choice(STRINGS), ("x", "y"), {"x": 1}])
             for _ in range(rng.randint(0, 2))}
    if fn == "integer" and rng.random() < 0.6:
        v = rng.choice([-1, 0, 1, 50, 100, 101, True, False])
    if fn == "boolean" and rng.random() < 0.45:
        v = rng.random() < 0.5
    if fn == "uri" and rng.random() < 0.5:
        v = rng.choice(["a:1", "A:b", "b:", "file:///x", "a+b.c-d:x", " a:1", "x", "", "1a:x"])
    if fn in ("instance", "instances"):
        c = rng.choice(PYCLS)
        if fn == "instance" and rng.random() < 0.45:
            v = {"bool": True, "int": 7, "str": "s", "mapping": {"k": 1}}.get(c)
            if v is None:
                v = I.render_obj(c, 2, True)
        if fn == "instances" and rng.random() < 0.5:
            n = rng.randint(0, 3)
            proto = {"bool": True, "int": 3, "str": "s", "mapping": {}}.get(c)
            v = [proto if proto is not None else I.render_obj(c, i + 1, True) for i in range(n)]
        call = (lambda o: validation.check_instance(o, pycls_obj(c))) if fn == "instance" else \
            (lambda o: validation.check_instances(o, pycls_obj(c)))
        t = f"(V{'Instance' if fn == 'instance' else 'Instances'} {term(v)} {pycls_term(c)})"
    elif fn == "boolean":
        call, t = validation.check_boolean, f"(VBoolean {term(v)})"
    elif fn == "integer":
        lo, hi = rng.choice([(0, 100), (None, None), (0, None), (None, 100), (1, 1)])
        call = lambda o: validation.check_integer(o, min=lo, max=hi)  # noqa: E731
        t = f"(VInteger {term(v)} {g_opt(lo, g_z)} {g_opt(hi, g_z)})"
    elif fn == "choice":
        choices = rng.sample(STRINGS, 4)
        if rng.random() < 0.4:
            v = rng.choice(choices)
        call = lambda o: validation.check_choice(o, dict.fromkeys(choices).keys())  # noqa: E731
        t = f"(VChoice {term(v)} {g_list([g_str(c) for c in choices])})"
    elif fn == "query":
        call = validation.check_query
        t = f"(VQuery {term(v)} {g_list([g_str(c) for c in validation.SEARCH_FIELDS.keys()])})"
    elif fn == "uri":
        call, t = validation.check_uri, f"(VUri {term(v)})"
    elif fn == "uris":
        call, t = validation.check_uris, f"(VUris {term(v)})"
    else:
        call = lambda o: validation._check_iterable(o, "{arg!r}")  # noqa: E731
        t = f"(VIterable {term(v)})"
    return fn, v, call, t


def stage(chk):
    from mopidy import exceptions
    from mopidy.internal import validation

    n = 2500 if chk.tier == "quick" else 15000
    rng = vlib.Rng(chk.seed, "C09-validation")
    rows = []
    for _ in range(n):
        fn, v, call, t = gen_call(rng, validation)
        try:
            call(materialize(v))
            code = 0
        except exceptions.ValidationError:
            code = 1
        except TypeError:
            code = 2
        except Exception as e:  # noqa: BLE001
            code = 3
            chk.notes.append(f"validation.{fn} raised {type(e).__name__} on {v!r}"[:200])
        rows.append((fn, v, t, code))
        chk.dist(f"validation:{fn}:{['ok', 'ValidationError', 'TypeError', 'other'][code]}")
    chk.count(len(rows))
    shards = [rows[i : i + 500] for i in range(0, len(rows), 500)]
    texts = [vlib.COQ_HEADER + "From Common Require Import Res Str Cases.\nFrom Routing Require Import Model Validation.\n"
             + "Definition cases : list (vcall * Z) :=\n " + g_list([f"({t}, {code})" for _, _, t, code in shard]) + ".\n"
             + "Eval vm_compute in mismatches vcase_ok cases.\n" for shard in shards]
    ok = True
    for shard, (rc, out) in zip(shards, vlib.coq_eval_many(AREA, texts, jobs=12)):
        bad = vlib.parse_nat_list(out)
        if rc != 0 or bad is None:
            ok = False
            chk.corr_failure("validation", {"shard": "coq evaluation failed"}, out[-1500:])
            continue
        for i in bad:
            ok = False
            fn, v, _, code = shard[i]
            chk.corr_failure("validation", {"function": fn, "argument": repr(v)[:300], "impl_code": code})
    chk.obligation("corr:validation", "correspondence", ok)


def answers_stage(chk):
    """Front.resp_val (scripted answers as Python values, used by the C09_*_answers_are_* theorems)
    against the harness's real rendering: real validation on the rendered object = model on resp_val."""
    from collections.abc import Mapping

    import c09_emit as E
    import c09_gen as G
    from mopidy import exceptions
    from mopidy.internal import validation

    n = 1500 if chk.tier == "quick" else 8000
    rng = vlib.Rng(chk.seed, "C09-answers")
    rows = []
    methods = ["lookup_many", "get_images", "search", "browse", "root_directory", "get_distinct", "as_list",
               "get_items", "pl_lookup", "create", "save"]
    while len(rows) < n:
        m = rng.choice(methods)
        resp = G.gen_resp(rng, m, rng.randint(0, 3), ["a:1", "a:2"], ["a:1", "a:2", "b:1"])
        if resp[0] in ("raise", "echo"):
            continue
        mode = rng.weighted([(0, 5), (1, 3), (2, 2)])
        # check_instance(x, cls) is only ever applied with a model class (C09_object_answers_are_check_instance)
        cls = rng.choice(MODEL_CLASSES + (["str", "int"] if mode == 0 else []))
        if rng.random() < 0.6 and G.EXPECTED_CLS.get(m) in MODEL_CLASSES:
            cls = G.EXPECTED_CLS[m]
        obj = I.render_resp(resp, rng.randint(0, 50))
        try:
            if mode == 0:
                validation.check_instances(obj, pycls_obj(cls))
            elif mode == 1:
                validation.check_instance(obj, pycls_obj(cls))
            else:
                validation.check_instance(obj, Mapping)
            code = 0
        except exceptions.ValidationError:
            code = 1
        except TypeError:
            code = 2
        it = E.Interner()
        term_r = E.resp(resp, it)
        table = g_list([f"({it.uri(u)}, {g_str(u)})" for u in it.uris])
        rows.append((resp, cls, mode, f"({term_r}, {E.CLS[cls]}, {mode}, {table}, {code})", code))
        chk.dist(f"answers:mode{mode}:{['ok', 'ValidationError', 'TypeError'][code]}")
    chk.count(len(rows))
    shards = [rows[i : i + 500] for i in range(0, len(rows), 500)]
    texts = [vlib.COQ_HEADER + "From Common Require Import Res Str Cases.\n"
             "From Routing Require Import Model Validation Front ObsFront.\n"
             "Definition cases : list (resp * cls * Z * list (uri * str) * Z) :=\n "
             + g_list([r[3] for r in shard]) + ".\nEval vm_compute in mismatches acase_ok cases.\n" for shard in shards]
    ok = True
    for shard, (rc, out) in zip(shards, vlib.coq_eval_many(AREA, texts, jobs=12)):
        bad = vlib.parse_nat_list(out)
        if rc != 0 or bad is None:
            ok = False
            chk.corr_failure("answer_rendering", {"shard": "coq evaluation failed"}, out[-1500:])
            continue
        for i in bad:
            ok = False
            chk.corr_failure("answer_rendering", {"resp": shard[i][0], "cls": shard[i][1], "mode": shard[i][2],
                                                  "impl_code": shard[i][4]})
    chk.obligation("corr:answer_rendering", "correspondence", ok)
