"""C06 implementation driver: the real (unstarted) mopidy.audio.actor.Audio object, its real
_Handler, the real SoftwareMixerAdapter and the real SoftwareMixer, wired to scripted fake
GStreamer elements.

Nothing of GStreamer is emulated: the fakes only *record* what the audio layer asks of the
pipeline (set_state / set_property / seek_simple) and *deliver* whatever bus message or pad
event the test input says.  Which message sequences a real pipeline can produce is not
modelled (the theorems hold for all sequences).

Inputs are plain tuples (JSON-friendly lists), see ``apply``:

  ("sc", from_playbin, old, new, pending)   STATE_CHANGED bus message (state names)
  ("buf", percent, mode|None)               BUFFERING (mode: STREAM/DOWNLOAD/TIMESHIFT/LIVE)
  ("tag", [[key, [raw, ...]], ...])         TAG; raw = ["k", id, kind] kept value | ["d", kind] dropped
  ("ss",) ("eos",) ("err",) ("other", kind) STREAM_START / EOS / ERROR / ignored message types
  ("seg", position_ns)                      SEGMENT pad event
  ("prep", ok) ("start", ok) ("pause", ok) ("stop", ok)    control calls; ok = playbin accepted
  ("uri", id, download, live)               set_uri
  ("seek", ms, ok)                          set_position
  ("tags?",)                                get_current_tags
  ("warn",) ("async",) ("elem", missing)    WARNING / ASYNC_DONE / ELEMENT (missing-plugin or not)
  ("pos?", ok, position_ns)                 get_position; the pipeline answers (ok, position)
  ("atfcb", present) ("srccb", present)     set_about_to_finish_callback / set_source_setup_callback
  ("atf", in_actor_thread, next|None)       playbin "about-to-finish"; next = [id, download, live] is
                                            the set_uri the registered callback performs
  ("src", has_factory, has_is_live, has_proxy_prop, proxy_host)   playbin "source-setup"
"""

from __future__ import annotations

import copy

STATES = ["VOID_PENDING", "NULL", "READY", "PAUSED", "PLAYING"]
MODES = ["STREAM", "DOWNLOAD", "TIMESHIFT", "LIVE"]
TAG_NAMES = ["title", "artist", "album", "bitrate", "organization", "genre", "datetime", "image"]
OTHER_KINDS = ["INFO", "UNKNOWN"]


def uri_of(i):
    return f"verif:track:{i}"


class FakeBus:
    def __init__(self):
        self.handlers = []
        self.watch = 0

    def add_signal_watch(self):
        self.watch += 1

    def remove_signal_watch(self):
        self.watch -= 1

    def connect(self, signal, func, *args):
        assert signal == "message"
        self.handlers.append(func)
        return len(self.handlers)

    def disconnect(self, _hid):
        pass

    def deliver(self, msg):
        for h in list(self.handlers):
            h(self, msg)


class FakePad:
    def __init__(self):
        self.probes = []

    def add_probe(self, _mask, func, *args):
        self.probes.append(func)
        return len(self.probes)

    def remove_probe(self, _pid):
        pass

    def deliver(self, event):
        info = _ProbeInfo(event)
        for p in list(self.probes):
            p(self, info)


class _ProbeInfo:
    def __init__(self, event):
        self._event = event

    def get_event(self):
        return self._event


class FakeElement:
    """Records every command; answers set_state/seek_simple from a script."""

    def __init__(self, kind, name, rig):
        self.kind = kind
        self.name = name
        self.rig = rig
        self.props = {}
        if kind == "volume":
            self.props = {"volume": 1.0, "mute": False}
        self.bus = FakeBus()
        self.pad = FakePad()
        self.signals = {}

    # --- what the audio layer may ask of an element
    def set_property(self, name, value):
        self.props[name] = value
        self.rig.cmd(self.kind, "prop", name, value)

    def get_property(self, name):
        return self.props[name]

    def set_state(self, state):
        self.rig.cmd(self.kind, "state", state.name, None)
        return self.rig.next_state_result()

    def get_state(self, timeout=None):
        return None

    def seek_simple(self, fmt, flags, position):
        self.rig.cmd(self.kind, "seek", int(position), None)
        return self.rig.next_seek_result()

    def send_event(self, event):
        self.rig.cmd(self.kind, "event", None, None)
        return True

    def query_position(self, _fmt):
        return self.rig.next_position_result()

    def get_bus(self):
        return self.bus

    def get_static_pad(self, _name):
        return self.pad

    def connect(self, signal, func, *args):
        self.signals[signal] = func
        return len(self.signals)

    def disconnect(self, _sid):
        pass

    def add(self, *_a):
        return True

    def add_pad(self, *_a):
        return True

    def link(self, *_a):
        return True


class _Props:
    pass


class FakeSource:
    """The element handed to source-setup: optional factory, optional is_live / proxy props."""

    def __init__(self, rig, has_factory, has_is_live, has_proxy):
        self.rig = rig
        self._factory = object() if has_factory else None
        self.props = _Props()
        if has_is_live:
            self.props.is_live = False
        if has_proxy:
            self.props.proxy = None

    def get_factory(self):
        return self._factory

    def set_live(self, value):
        self.rig.cmd("source", "live", bool(value), None)

    def set_property(self, name, value):
        self.rig.cmd("source", "prop", name, value)


class FakeTagList:
    """A Gst.TagList as seen through n_tags/nth_tag_name/get_tag_size/get_value_index."""

    def __init__(self, pairs):
        self.names = [k for k, _ in pairs]
        self.values = {k: list(v) for k, v in pairs}

    def n_tags(self):
        return len(self.names)

    def nth_tag_name(self, n):
        return self.names[n]

    def get_tag_size(self, tag):
        return len(self.values[tag])

    def get_value_index(self, tag, i):
        return self.values[tag][i]


class FakeStructure:
    def __init__(self, mode):
        self.mode = mode

    def has_field(self, name):
        return name == "buffering-mode" and self.mode is not None

    def get_enum(self, name, _enum_type):
        assert name == "buffering-mode"
        return self.mode


class FakeMessage:
    def __init__(self, mtype, src, **payload):
        self.type = mtype
        self.src = src
        self.payload = payload

    def parse_state_changed(self):
        return self.payload["states"]

    def parse_buffering(self):
        return self.payload["percent"]

    def get_structure(self):
        return self.payload.get("structure")

    def parse_error(self):
        return self.payload["error"], "debug text"

    def parse_warning(self):
        return self.payload["error"], "debug text"

    def parse_tag(self):
        return self.payload["taglist"]


class FakeSegment:
    def __init__(self, position):
        self.rate = 1.0
        self.format = 3
        self.start = 0
        self.stop = -1
        self.position = position


class FakeEvent:
    def __init__(self, etype, segment=None):
        self.type = etype
        self._segment = segment

    def parse_segment(self):
        return self._segment


class SyncFuture:
    def __init__(self, value):
        self._value = value

    def get(self, timeout=None):
        return self._value


class SyncProxy:
    """Stands in for a pykka proxy: calls the target synchronously, returns a future."""

    def __init__(self, target):
        self._target = target

    def __getattr__(self, name):
        attr = getattr(self._target, name)
        if callable(attr):
            return lambda *a, **kw: SyncFuture(attr(*a, **kw))
        return attr


class _FakeActorRef:
    def __init__(self, audio):
        self._audio = audio

    def proxy(self):
        return self

    @property
    def mixer(self):
        return SyncProxy(self._audio.mixer)


class Rig:
    """One Audio object with fakes; ``apply(inp)`` performs one input and returns the
    observation of that step."""

    def __init__(self, rng=None, with_mixer=True, attach_mixer=True, real_listener=False):
        from mopidy import listener as listener_mod
        from mopidy.audio import actor as actor_mod
        from mopidy.internal.gi import GLib, Gst

        self.Gst, self.GLib, self.actor_mod = Gst, GLib, actor_mod
        self.rng = rng
        self._cmds = []
        self._events = []  # (name, kwargs as sent, send-time snapshot)
        self._state_results = []
        self._seek_results = []
        self._pos_results = []
        self._atf_next = None
        self.elements = {}

        def capture(cls, event, **kwargs):
            self._events.append((cls.__name__, event, kwargs, snapshot_payload(event, kwargs)))

        self._orig_send = listener_mod.send
        self._listener_mod = listener_mod
        self._recorder = None
        if real_listener:
            # Observe the events where a listener actor RECEIVES them: a started pykka actor
            # that mixes in AudioListener/MixerListener, found by mopidy.listener.send through
            # the pykka registry; its mailbox is drained after every step.  The shared
            # dispatch helper mopidy.listener.send is then part of what is checked.
            self._recorder = start_recorder()
        else:
            listener_mod.send = capture

        rig = self

        class Factory:
            @staticmethod
            def make(kind, name=None):
                el = FakeElement(kind, name, rig)
                rig.elements.setdefault(kind, el)
                return el

        self._orig_factory = Gst.__dict__.get("ElementFactory")
        Gst.ElementFactory = Factory
        # whether an ELEMENT message is a missing-plugin message is GstPbutils' answer (input)
        self._pbutils = actor_mod.GstPbutils
        self._orig_missing = self._pbutils.__dict__.get("is_missing_plugin_message")
        self._pbutils.is_missing_plugin_message = lambda msg: bool(msg.payload.get("missing", True))

        self.config = config = {"audio": {"mixer": "software", "output": "testoutput", "buffer_time": None,
                            "mixer_volume": None},
                  "proxy": {}}
        self.sw_mixer = None
        if with_mixer:
            from mopidy.softwaremixer.mixer import SoftwareMixer

            self.sw_mixer = SoftwareMixer(config)
        self.audio = actor_mod.Audio(config, self.sw_mixer)
        # the real start-up path, minus the actor thread
        self.audio._setup_playbin()
        self.audio._setup_outputs()
        if attach_mixer:
            self.attach_mixer()
        self.playbin = self.audio._playbin
        self._cmds.clear()

    def attach_mixer(self):
        # Audio._setup_audio_sink hands `self.actor_ref.proxy().mixer` to the mixer; without an
        # actor thread a pykka proxy would never answer, so a synchronous stand-in is used.
        real_ref = self.audio._actor_ref
        self.audio._actor_ref = _FakeActorRef(self.audio)
        try:
            self.audio._setup_audio_sink()
        finally:
            self.audio._actor_ref = real_ref
        self.volume_element = self.elements["volume"]

    def mixer_apply(self, op):
        """One software-mixer operation (see coq/Audio/Mixer.v `mop`); returns its observation."""
        import math

        self._events.clear()
        ret = ("none",)
        k = op[0]
        try:
            if k == "setup":
                if not hasattr(self, "volume_element"):
                    self.attach_mixer()      # the real Audio._setup_audio_sink path
                else:                        # re-attach after a teardown: adapter.setup again
                    self.audio.mixer.setup(self.volume_element, SyncProxy(self.audio.mixer))
            elif k == "teardown":
                self.audio.mixer.teardown()
            elif k == "setvol":
                ret = ("bool", self.sw_mixer.set_volume(op[1]))
            elif k == "getvol":
                ret = ("vol", self.sw_mixer.get_volume())
            elif k == "setmute":
                ret = ("bool", self.sw_mixer.set_mute(op[1]))
            elif k == "getmute":
                ret = ("mute", self.sw_mixer.get_mute())
            elif k == "track":
                self.audio.set_uri(uri_of(0))
            else:
                raise ValueError(op)
        except AssertionError:
            ret = ("assert",)
        evs = [(name, dict(kwargs)) for cls, name, kwargs, _ in self._events if cls == "MixerListener"]
        el = getattr(self, "volume_element", None)
        x = el.props["volume"] if el is not None else 1.0
        mute = el.props["mute"] if el is not None else False
        if x == 0:
            dec = (0, -2154)
        else:
            fm, fe = math.frexp(x)
            dec = (int(fm * 2 ** 53), fe - 53)
        return {"ret": ret, "events": evs, "vol": dec, "vol_float": x, "mute": mute}

    def close(self):
        self._listener_mod.send = self._orig_send
        if self._recorder is not None:
            self._recorder.stop(block=True, timeout=10)
            self._recorder = None
        if self._orig_missing is None:
            try:
                del self._pbutils.is_missing_plugin_message
            except AttributeError:
                pass
        else:
            self._pbutils.is_missing_plugin_message = self._orig_missing
        if self._orig_factory is None:
            try:
                del self.Gst.ElementFactory
            except AttributeError:
                pass
        else:
            self.Gst.ElementFactory = self._orig_factory

    # --- scripted answers
    def cmd(self, kind, what, a, b):
        self._cmds.append((kind, what, a, b))

    def next_state_result(self):
        R = self.Gst.StateChangeReturn
        if self._state_results:
            return R.SUCCESS if self._state_results.pop(0) else R.FAILURE
        if self.rng is not None:  # message-driven set_state: the answer is ignored by the code
            return self.rng.choice([R.SUCCESS, R.ASYNC, R.FAILURE, R.NO_PREROLL])
        return R.SUCCESS

    def next_position_result(self):
        return self._pos_results.pop(0) if self._pos_results else (False, 0)

    def next_seek_result(self):
        return self._seek_results.pop(0) if self._seek_results else True

    # --- callbacks registered on Audio
    def _atf_callback(self):
        self.cmd("cb", "atf", None, None)
        nxt, self._atf_next = self._atf_next, None
        if nxt is not None:
            self.audio.set_uri(uri_of(nxt[0]), live_stream=bool(nxt[2]), download=bool(nxt[1]))

    def _source_callback(self, source):
        self.cmd("cb", "source", None, None)

    # --- raw values for tag lists
    def raw_value(self, raw):
        Gst, GLib = self.Gst, self.GLib
        if raw[0] == "k":
            _, i, kind = raw
            if kind == "str":
                return f"s{i}"
            if kind == "int":
                return 1000 + i
            if kind == "bytes":
                return f"b{i}".encode()
            if kind == "date":
                return GLib.Date.new_dmy(1 + i % 28, 1 + (i // 28) % 12, 1900 + i // 336)
            if kind == "datetime":
                return Gst.DateTime(1000 + i)
            if kind == "sample":
                return _sample(Gst, f"img{i}".encode())
            raise ValueError(kind)
        kind = raw[1]
        if kind == "object":
            return object()
        if kind == "baddate":
            return GLib.Date.new_dmy(31, 2, 2001)
        if kind == "emptysample":
            return _sample(Gst, None)
        raise ValueError(kind)

    # --- one input
    def apply(self, inp):
        Gst = self.Gst
        MT = Gst.MessageType
        a = self.audio
        self._cmds.clear()
        self._events.clear()
        ret = ("none",)
        try:
            k = inp[0]
            if k == "sc":
                src = self.playbin if inp[1] else self.elements.get("fakesink")
                states = tuple(Gst.State[s] for s in inp[2:5])
                self.playbin.bus.deliver(FakeMessage(MT.STATE_CHANGED, src, states=states))
            elif k == "buf":
                mode = None if inp[2] is None else Gst.BufferingMode[inp[2]]
                structure = FakeStructure(mode) if (mode is not None or inp[1] % 2 == 0) else None
                self.playbin.bus.deliver(FakeMessage(MT.BUFFERING, self.playbin, percent=inp[1], structure=structure))
            elif k == "tag":
                tl = FakeTagList([(TAG_NAMES[key], [self.raw_value(r) for r in raws]) for key, raws in inp[1]])
                self.playbin.bus.deliver(FakeMessage(MT.TAG, self.playbin, taglist=tl))
            elif k == "ss":
                self.playbin.bus.deliver(FakeMessage(MT.STREAM_START, self.playbin))
            elif k == "eos":
                self.playbin.bus.deliver(FakeMessage(MT.EOS, self.playbin))
            elif k == "err":
                self.playbin.bus.deliver(FakeMessage(MT.ERROR, self.playbin, error=self.GLib.Error("boom")))
            elif k == "warn":
                self.playbin.bus.deliver(FakeMessage(MT.WARNING, self.playbin, error=self.GLib.Error("warn")))
            elif k == "async":
                self.playbin.bus.deliver(FakeMessage(MT.ASYNC_DONE, self.playbin))
            elif k == "elem":
                self.playbin.bus.deliver(FakeMessage(MT.ELEMENT, self.playbin, missing=bool(inp[1])))
            elif k == "pos?":
                self._pos_results.append((bool(inp[1]), inp[2]))
                ret = ("pos", int(a.get_position()))
            elif k == "atfcb":
                a.set_about_to_finish_callback(self._atf_callback if inp[1] else None)
            elif k == "srccb":
                a.set_source_setup_callback(self._source_callback if inp[1] else None)
            elif k == "atf":
                import threading

                # Audio.on_start records the actor thread; the signal arrives either in it or in
                # a GStreamer streaming thread
                a._thread = threading.current_thread() if inp[1] else threading.Thread(target=lambda: None)
                self._atf_next = inp[2]
                self.playbin.signals["about-to-finish"](self.playbin)
            elif k == "src":
                self.config["proxy"] = ({"hostname": "proxy.example", "scheme": "https", "port": 8080,
                                         "username": "u", "password": "p"} if inp[4] else {"hostname": ""})
                self.playbin.signals["source-setup"](self.playbin, FakeSource(self, inp[1], inp[2], inp[3]))
            elif k == "other":
                mt = getattr(MT, inp[1])
                self.playbin.bus.deliver(FakeMessage(mt, self.playbin, error=self.GLib.Error("warn")))
            elif k == "seg":
                self.elements["fakesink"].pad.deliver(FakeEvent(Gst.EventType.SEGMENT, FakeSegment(inp[1])))
            elif k in ("prep", "start", "pause", "stop"):
                self._state_results.append(bool(inp[1]))
                f = {"prep": a.prepare_change, "start": a.start_playback, "pause": a.pause_playback,
                     "stop": a.stop_playback}[k]
                ret = ("bool", bool(f()))
            elif k == "uri":
                a.set_uri(uri_of(inp[1]), live_stream=bool(inp[3]), download=bool(inp[2]))
            elif k == "seek":
                self._seek_results.append(bool(inp[2]))
                ret = ("bool", bool(a.set_position(inp[1])))
            elif k == "tags?":
                ret = ("tags", canon_tags(a.get_current_tags()))
            else:
                raise ValueError(f"unknown input {inp!r}")
        except KeyError:
            ret = ("raise", "KeyError")
        except self.actor_mod.exceptions.AudioException:
            ret = ("raise", "AudioException")
        except Exception as e:  # noqa: BLE001
            ret = ("raise", type(e).__name__)
        self._state_results.clear()
        self._seek_results.clear()
        if self._recorder is not None:
            # FIFO mailbox: this call returns after every event told before it was handled
            self._events.extend(self._recorder.proxy().take().get(timeout=10))
        events = []
        for cls, name, kwargs, snap in self._events:
            events.append({"cls": cls, "name": name, "sent": snap, "live": kwargs})
        cmds = [c for c in self._cmds if not (c[0] == "volume")]
        vol_cmds = [c for c in self._cmds if c[0] == "volume"]
        return {
            "ret": ret,
            "events": events,
            "cmds": cmds,
            "vol_cmds": vol_cmds,
            "state": str(getattr(a.state, "value", a.state)),
            "target": a._target_state.name,
            "buffering": bool(a._buffering),
            "tags": canon_tags(a.get_current_tags()),
        }


MIXER_EVENTS = {"volume_changed", "mute_changed"}


def start_recorder():
    import pykka
    from mopidy.audio.listener import AudioListener
    from mopidy.mixer import MixerListener

    class Recorder(pykka.ThreadingActor, AudioListener, MixerListener):
        def __init__(self):
            super().__init__()
            self.received = []

        def on_event(self, event, **kwargs):
            cls = "MixerListener" if event in MIXER_EVENTS else "AudioListener"
            self.received.append((cls, event, kwargs, snapshot_payload(event, kwargs)))

        def take(self):
            out, self.received = self.received, []
            return out

    return Recorder.start()


def _sample(Gst, data):
    class _Info:
        def __init__(self, d):
            self.data = d

    class _Mem:
        def map(self, _flags):
            return True, _Info(data)

        def unmap(self, _info):
            return None

    class _Buf:
        def get_all_memory(self):
            return _Mem()

    class S(Gst.Sample):
        def __init__(self):  # noqa: D107
            pass

        def get_buffer(self):
            return _Buf() if data is not None else None

    return S()


def canon_value(v):
    """Tag value -> JSON-friendly canonical form (type-tagged so that 1, True, '1' differ)."""
    if isinstance(v, bytes):
        return ["bytes", v.decode("latin-1")]
    if isinstance(v, bool):
        return ["bool", v]
    if isinstance(v, int):
        return ["int", v]
    if isinstance(v, str):
        return ["str", v]
    return ["other", repr(type(v))]


def canon_tags(d):
    return sorted([k, [canon_value(x) for x in vs]] for k, vs in dict(d).items())


def snapshot_payload(event, kwargs):
    """Deep, canonical copy of an event payload taken at send time."""
    out = {}
    for k, v in kwargs.items():
        if event == "tags_changed" and k == "tags":
            out[k] = sorted(v)
        elif hasattr(v, "value") and not isinstance(v, (int, float)):
            out[k] = str(v.value)
        else:
            out[k] = copy.deepcopy(v) if not isinstance(v, (str, int, float, bool, type(None))) else v
            if hasattr(out[k], "value"):
                out[k] = str(out[k].value)
    return out


def late_payload(event, kwargs):
    """The same canonicalisation applied to the payload object as a consumer reading it
    later (after further messages) would see it."""
    return snapshot_payload(event, kwargs)
