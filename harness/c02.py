"""C02 - playback state and event stream stay coherent under every event schedule."""
import core_check

AREA = "Core"


def run(chk):
    chk.rule = ("schedules = op sequences in which Deliver ops hand the oldest pending audio "
                "notification to the core (about half the client calls are issued with notifications "
                "pending) plus a settled stream (drain after every call) for the agreement clause; "
                "non-trivial = at least one track_playback_started and at least one client call issued "
                "with notifications pending (or a settled run); distinct by op sequence")
    core_check.run_core(chk, "C02", [("schedule", 5), ("settled", 3), ("faults", 2)], ["Property_C02.v"])
