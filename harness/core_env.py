"""Thread-free execution environment for the real mopidy Core (C01-C05, C10).

* ``AudioEnv``  - the environment specification of DESIGN.md section 3 (same rules as
  coq/Core/Model.v), exposing the Audio proxy API the core/backends use; every method
  returns an already-completed future.
* ``ScriptedBackend`` - a backend proxy whose playback provider is the REAL
  ``mopidy.backend.PlaybackProvider`` (change_track/translate_uri logic included) with a
  scripted ``translate_uri``/``change_track`` for failures.
* ``make_core`` - builds a real ``Core`` without starting an actor thread and captures
  every CoreListener event.
"""

from __future__ import annotations

STOPPED, PLAYING, PAUSED = "stopped", "playing", "paused"
PS_CODE = {STOPPED: 0, PLAYING: 1, PAUSED: 2}


class BudgetExceeded(BaseException):
    """Raised by the scripted backend when one core call exceeds its interaction budget."""


class Fut:
    def __init__(self, value=None, exc=None):
        self._v, self._e = value, exc

    def get(self, timeout=None):
        if self._e is not None:
            raise self._e
        return self._v


class AudioEnv:
    def __init__(self, env):
        self.env = env
        self.uri = None
        self.state = STOPPED
        self.fresh = False
        self.pos = 0
        self.atf_done = False
        self.queue = []
        self.calls = []  # state-changing calls, in order
        self.protocol_violations = 0
        self._about_to_finish_callback = None

    # -- Audio proxy API ----------------------------------------------------
    def set_about_to_finish_callback(self, cb):
        self._about_to_finish_callback = cb
        return Fut(None)

    def set_source_setup_callback(self, cb):
        return Fut(None)

    def prepare_change(self):
        self.env.tick_backend()
        self.calls.append(("prepare_change",))
        self.uri = None
        return Fut(True)

    def set_uri(self, uri, live_stream=False, download=False):
        self.calls.append(("set_uri", uri))
        if self.uri is not None:
            self.protocol_violations += 1
        self.uri = uri
        self.pos = 0
        self.fresh = True
        self.atf_done = False
        return Fut(None)

    def _set_state(self, new):
        self.env.tick_backend()
        self.calls.append(("set_state", new))
        if self.uri is None:
            if new == STOPPED:
                if self.state != STOPPED:
                    self.queue.append(("state_changed", self.state, STOPPED))
                    self.state = STOPPED
                return Fut(True)
            return Fut(False)
        if new == STOPPED:
            self.uri = None
            self.fresh = True
        if self.fresh:
            self.fresh = False
            self.queue.append(("stream_changed", self.uri))
        if self.uri is not None:
            self.queue.append(("position_changed", 0))
        self.queue.append(("state_changed", self.state, new))
        self.state = new
        if new == PLAYING:
            self.queue.append(("tags_changed",))
        return Fut(True)

    def start_playback(self):
        return self._set_state(PLAYING)

    def pause_playback(self):
        return self._set_state(PAUSED)

    def stop_playback(self):
        return self._set_state(STOPPED)

    def set_position(self, position):
        self.env.tick_backend()
        self.calls.append(("set_position", position))
        self.pos = position
        self.queue.append(("position_changed", position))
        return Fut(True)

    def get_position(self):
        self.env.tick_backend()
        return Fut(self.pos)

    def get_current_tags(self):
        return Fut({"audio-codec": ["fake"]})

    def producing_sound(self):
        return self.uri is not None and self.state == PLAYING


class Env:
    """Everything around the core for one run."""

    def __init__(self, kinds, lengths, script, max_len=10000, volume=None, mute=None, styles=()):
        self.styles = list(styles)
        self.kinds = kinds  # per track index: playable/refuse/nouri/raises/nobackend
        self.lengths = lengths
        self.script = list(script)
        self.max_len = max_len
        self.audio = AudioEnv(self)
        self.attempts = []
        self.backend_calls = 0
        self.budget = None
        self.events = []
        self.shuffle_seed = 0
        self.mixer_volume = volume
        self.mixer_mute = mute

    def tick_backend(self):
        self.backend_calls += 1
        if self.budget is not None and self.backend_calls > self.budget:
            raise BudgetExceeded

    def uri_of(self, k):
        # URI spelling per track: schemes are case-insensitive (a mixed-case scheme still belongs
        # to the dummy backend); a URI without any scheme has no backend
        style = self.styles[k] if k < len(self.styles) else 0
        if self.kinds[k] == "nobackend":
            return f"plain-t{k}" if style else f"nobackend:t{k}"
        return f"{('dummy', 'Dummy', 'DUMMY')[style % 3]}:t{k}"

    def index_of_uri(self, uri):
        return int(uri.rsplit("t", 1)[1])

    def track(self, k):
        from mopidy.models import Track

        return Track(uri=self.uri_of(k), name=f"n{k}", length=self.lengths[k], genre=f"g{k}", comment=f"c{k}")


def shuffle_perm(seed, items):
    """The executable shuffle oracle shared with Coq (Model.v: shuf_concrete):
    rotate left by seed mod len, then reverse when seed is odd."""
    n = len(items)
    if n == 0:
        return list(items)
    r = seed % n
    out = list(items[r:]) + list(items[:r])
    if seed % 2 == 1:
        out.reverse()
    return out


def make_core(env):
    """Build a real Core over ``env``; returns (core, restore_fn)."""
    import mopidy.core.tracklist as tracklist_mod
    from mopidy import backend as backend_mod
    from mopidy import listener as listener_mod
    from mopidy.core import Core

    class ScriptedPlayback(backend_mod.PlaybackProvider):
        def translate_uri(self, uri):
            k = env.index_of_uri(uri)
            kind = env.kinds[k]
            if kind == "nouri" or getattr(env, "flaky_now", False):
                # a flaky refusal takes the real PlaybackProvider.change_track path: the URI
                # cannot be translated this time
                return None
            if kind == "raises":
                msg = "scripted backend failure"
                raise RuntimeError(msg)
            return uri

        def change_track(self, track):
            env.tick_backend()
            k = env.index_of_uri(track.uri)
            flaky = env.script.pop(0) if env.script else False
            ok = env.kinds[k] == "playable" and not flaky
            env.attempts.append((k, ok))
            if env.kinds[k] == "refuse" or (flaky and env.kinds[k] == "raises"):
                return False
            env.flaky_now = flaky
            try:
                return super().change_track(track)
            finally:
                env.flaky_now = False

        # faults outside the modelled environment (monitor-only stage core_faulty.py):
        # env.fault = {"play": (exception class, set of track indices), "prepare_change": class}
        def play(self):
            f = getattr(env, "fault", {}).get("play")
            if f and env.audio.uri is not None and env.index_of_uri(env.audio.uri) in f[1]:
                env.tick_backend()
                raise f[0]("scripted play() failure")
            return super().play()

        def _refused(self, name):
            # env.fault = {"refuse": {"resume", "pause", "stop", "seek"}}: the provider answers False
            if name in getattr(env, "fault", {}).get("refuse", ()):
                env.tick_backend()
                return True
            return False

        def resume(self):
            return False if self._refused("resume") else super().resume()

        def pause(self):
            return False if self._refused("pause") else super().pause()

        def stop(self):
            return False if self._refused("stop") else super().stop()

        def seek(self, time_position):
            return False if self._refused("seek") else super().seek(time_position)

        def prepare_change(self):
            f = getattr(env, "fault", {}).get("prepare_change")
            if f:
                env.tick_backend()
                raise f("scripted prepare_change() failure")
            return super().prepare_change()

    class ScriptedLibrary:
        """tracklist.add(uris=...) goes through core.library.lookup."""

        def lookup_many(self, uris):
            # "dummy:album:1-4-4" is a URI the library resolves to several tracks (or to none:
            # "dummy:album:"); every other URI is one track
            out = {}
            for u in uris:
                if u.startswith("dummy:album:"):
                    body = u[len("dummy:album:"):]
                    out[u] = [env.track(int(x)) for x in body.split("-") if x]
                else:
                    out[u] = [env.track(env.index_of_uri(u))]
            return out

    class ProviderProxy:
        """Calls the provider synchronously and wraps results/exceptions in futures."""

        def __init__(self, provider):
            self._p = provider

        def __getattr__(self, name):
            attr = getattr(self._p, name)

            def call(*a, **kw):
                try:
                    return Fut(attr(*a, **kw))
                except BudgetExceeded:
                    raise
                except Exception as e:  # noqa: BLE001
                    return Fut(exc=e)

            return call

    class ActorClass:
        __name__ = "ScriptedBackend"

    class ActorRef:
        actor_class = ActorClass

    class BackendProxy:
        actor_ref = ActorRef()
        uri_schemes = Fut(["dummy"])

        def __init__(self):
            self.playback = ProviderProxy(ScriptedPlayback(audio=env.audio, backend=self))
            self.library = ProviderProxy(ScriptedLibrary())
            self.playlists = None

        def has_library(self):
            return Fut(True)

        def has_library_browse(self):
            return Fut(False)

        def has_playback(self):
            return Fut(True)

        def has_playlists(self):
            return Fut(False)

    class MixerProxy:
        actor_ref = ActorRef()

        def get_volume(self):
            return Fut(env.mixer_volume)

        def set_volume(self, v):
            env.mixer_volume = v
            return Fut(True)

        def get_mute(self):
            return Fut(env.mixer_mute)

        def set_mute(self, m):
            env.mixer_mute = m
            return Fut(True)

    import pykka

    orig_get_by_class = pykka.ActorRegistry.__dict__["get_by_class"]
    orig_shuffle = tracklist_mod.random.shuffle

    class ListenerRef:
        """Stands for one registered listener actor: the REAL mopidy.listener.send runs and
        tells it the ProxyCall(on_event, event, kwargs); recorded synchronously (no thread)."""

        def tell(self, message):
            kw = dict(message.kwargs)
            # a listener that looks at the core while it receives the event (same thread): what the
            # core reports at that moment
            live = getattr(env, "live_core", None)
            if live is not None:
                try:
                    name = message.args[0]
                    if name == "playback_state_changed":
                        kw["_seen_state"] = str(live.playback.get_state())
                    elif name == "track_playback_started":
                        kw["_seen_current"] = live.playback.get_current_tlid()
                    elif name == "tracklist_changed":
                        kw["_seen_version"] = live.tracklist.get_version()
                except Exception:  # noqa: BLE001
                    pass
            env.events.append((message.args[0], kw))

    _ref = ListenerRef()

    class _Random:
        @staticmethod
        def shuffle(lst):
            lst[:] = shuffle_perm(env.shuffle_seed, lst)
            env.shuffle_seed += 1

    pykka.ActorRegistry.get_by_class = classmethod(lambda c, actor_class: [_ref])
    tracklist_mod.random = _Random
    config = {"core": {"max_tracklist_length": env.max_len, "restore_state": True,
                       "data_dir": env.data_dir if hasattr(env, "data_dir") else "/nonexistent"},
              "audio": {"mixer_volume": getattr(env, "cfg_volume", None)}}
    env.live_core = None
    core = Core(config=config, mixer=MixerProxy(), backends=[BackendProxy()], audio=env.audio)
    env.live_core = core

    def restore():
        import random as _r

        pykka.ActorRegistry.get_by_class = orig_get_by_class
        tracklist_mod.random = _r

    return core, restore
