"""C08 - models survive every wire crossing unchanged.

Model coq/Rpc/Models.v  <->  mopidy.models (pydantic), through
 (a) serialize()/model_dump_json <-> to_json, model_validate <-> of_json (also on mutated JSON),
 (b) a real jsonrpc.Wrapper call echoing its argument (what the method receives, what comes back),
 (c) the real http.actor.on_event -> WebSocketHandler.broadcast -> _send_broadcast -> what each
     connected WebSocket client is sent,
 (d) the real storage.dump / storage.load of a state file.
Monitors: immutability, == / hash by value, constraint rejection, tag at every level on every
wire, decode(to_json m) == m, untagged objects stay plain dicts (runtime facts about pydantic
objects are exercised here only: labelled partial).
"""

import gzip
import json
from types import SimpleNamespace
import pathlib
import shutil
import tempfile
import uuid

import rpc_common as rc
from common import vlib
from common.vlib import g_list, g_opt, g_str, g_z
from rpc_common import g_json

AREA = "Rpc"
PROP_FILES = ["Property_C08.v"]

HEADER = (vlib.COQ_HEADER + "From Common Require Import Str Res Cases.\n"
          "From Rpc Require Import Json Models Events Values CorrC08.\n")

SET_KEYS = ("artists", "composers", "performers")
CLASSES = ["Ref", "Image", "Artist", "Album", "Track", "TlTrack", "Playlist", "SearchResult"]

# ----------------------------------------------------------------------------
# specs: plain dicts {"cls": name, field: value, ...}; nested specs for nested models

STRS = ["", "x", "name", "é", "\U0001F600", "a\nb", 'q"uote', "\\", "日本語", "x" * 40, "\x00", " sp ", "null", "0"]
URIS = ["dummy:a", "file:///tmp/x.mp3", "spotify:track:1", "", "local:track:%C3%A9", "m3u:é.m3u", "x" * 100]
NONNEG = [0, 1, 2, 7, 255, 2**31, 2**63, 10**20]
DIGITS = ["0", "1", "2", "9", "٢", "２", "߁", "𝟗"]


def gen_str(rng, pool=STRS):
    return rng.choice(pool)


def gen_ostr(rng, pool=STRS):
    return None if rng.random() < 0.4 else rng.choice(pool)


def gen_oint(rng, allow_neg=False):
    if rng.random() < 0.4:
        return None
    if allow_neg and rng.random() < 0.3:
        return rng.choice([-1, -5, -2**40])
    return rng.choice(NONNEG)


def gen_date(rng):
    r = rng.random()
    if r < 0.4:
        return None
    exotic = rng.random() < 0.2
    d = (lambda: rng.choice(DIGITS)) if exotic else (lambda: rng.choice("0123456789"))
    year = "".join(d() for _ in range(4))
    if rng.random() < 0.5:
        return year
    return f"{year}-{d()}{d()}-{d()}{d()}"


def gen_uuid(rng):
    if rng.random() < 0.5:
        return None
    return str(uuid.UUID(int=rng.getrandbits(128)))


def gen_artist(rng):
    return {"cls": "Artist", "uri": gen_ostr(rng, URIS), "name": gen_ostr(rng), "sortname": gen_ostr(rng),
            "musicbrainz_id": gen_uuid(rng)}


def gen_artists(rng):
    n = rng.choice([0, 0, 1, 1, 2, 3])
    out = []
    for _ in range(n):
        a = gen_artist(rng)
        if a not in out:
            out.append(a)
    return out


def gen_album(rng):
    return {"cls": "Album", "uri": gen_ostr(rng, URIS), "name": gen_ostr(rng), "artists": gen_artists(rng),
            "num_tracks": gen_oint(rng), "num_discs": gen_oint(rng), "date": gen_date(rng),
            "musicbrainz_id": gen_uuid(rng)}


def gen_track(rng):
    return {"cls": "Track", "uri": gen_ostr(rng, URIS), "name": gen_ostr(rng), "artists": gen_artists(rng),
            "album": gen_album(rng) if rng.random() < 0.5 else None, "composers": gen_artists(rng),
            "performers": gen_artists(rng), "genre": gen_ostr(rng), "track_no": gen_oint(rng),
            "disc_no": gen_oint(rng), "date": gen_date(rng), "length": gen_oint(rng, allow_neg=True),
            "bitrate": gen_oint(rng), "comment": gen_ostr(rng), "musicbrainz_id": gen_uuid(rng),
            "last_modified": gen_oint(rng)}


def gen_tltrack(rng):
    return {"cls": "TlTrack", "tlid": rng.choice([1, 2, 3, 99, 2**31, 2**63, 10**20]), "track": gen_track(rng)}


def gen_playlist(rng):
    return {"cls": "Playlist", "uri": gen_ostr(rng, URIS), "name": gen_ostr(rng),
            "tracks": [gen_track(rng) for _ in range(rng.choice([0, 0, 1, 2, 3]))], "last_modified": gen_oint(rng)}


def gen_searchresult(rng):
    return {"cls": "SearchResult", "uri": gen_ostr(rng, URIS),
            "tracks": [gen_track(rng) for _ in range(rng.choice([0, 1, 2]))],
            "artists": [gen_artist(rng) for _ in range(rng.choice([0, 1, 2]))],
            "albums": [gen_album(rng) for _ in range(rng.choice([0, 1, 2]))]}


def gen_ref(rng):
    return {"cls": "Ref", "uri": gen_str(rng, URIS), "name": gen_ostr(rng),
            "type": rng.choice(["album", "artist", "directory", "playlist", "track"])}


def gen_image(rng):
    return {"cls": "Image", "uri": gen_str(rng, URIS), "width": gen_oint(rng), "height": gen_oint(rng)}


GENS = {"Ref": gen_ref, "Image": gen_image, "Artist": gen_artist, "Album": gen_album, "Track": gen_track,
        "TlTrack": gen_tltrack, "Playlist": gen_playlist, "SearchResult": gen_searchresult}


def strip_nulls(j, drop=()):
    if isinstance(j, dict):
        return {k: strip_nulls(v, drop) for k, v in j.items() if v is not None and k not in drop}
    if isinstance(j, list):
        return [strip_nulls(x, drop) for x in j]
    return j


def sort_key(j):
    return json.dumps(strip_nulls(j, drop=("__model__",)), sort_keys=True, ensure_ascii=True, default=str)


def is_set_field(k, obj):
    """frozenset fields: Album/Track.artists, Track.composers/performers (SearchResult.artists is a tuple)."""
    return k in ("composers", "performers") or (k == "artists" and "albums" not in obj and "tracks" not in obj)


def canon(j):
    """Canonical order for the arrays that come from frozenset fields."""
    if isinstance(j, dict):
        out = {}
        for k, v in j.items():
            v = canon(v)
            if is_set_field(k, j) and isinstance(v, list):
                v = sorted(v, key=sort_key)
            out[k] = v
        return out
    if isinstance(j, list):
        return [canon(x) for x in j]
    return j


def build(M, spec):
    """spec -> model instance."""
    if spec is None:
        return None
    cls = getattr(M, spec["cls"])
    kw = {}
    for k, v in spec.items():
        if k == "cls":
            continue
        if isinstance(v, dict):
            v = build(M, v)
        elif isinstance(v, list):
            v = [build(M, x) for x in v]
        kw[k] = v
    return cls(**kw)


def spec_json(spec):
    """The serialize() form (exclude_none) straight from the spec, canonical set order."""
    out = {"__model__": spec["cls"]}
    for k, v in spec.items():
        if k == "cls" or v is None:
            continue
        if isinstance(v, dict):
            v = spec_json(v)
        elif isinstance(v, list):
            v = [spec_json(x) for x in v]
        out[k] = v
    return canon(out)


def g_ostr(v):
    return g_opt(v, g_str)


def g_oz(v):
    return g_opt(v, g_z)


REVERSE_SETS = [False]  # emit the frozenset fields in reverse canonical order (same set, other list)


def g_spec(spec):
    """spec -> Gallina record term (set fields in canonical order)."""
    c = spec["cls"]

    def arts(l):
        return g_list([g_spec(a) for a in sorted(l, key=lambda a: sort_key(spec_json(a)), reverse=REVERSE_SETS[0])])

    if c == "Artist":
        return f"(mkArtist {g_ostr(spec['uri'])} {g_ostr(spec['name'])} {g_ostr(spec['sortname'])} {g_ostr(spec['musicbrainz_id'])})"
    if c == "Album":
        return (f"(mkAlbum {g_ostr(spec['uri'])} {g_ostr(spec['name'])} {arts(spec['artists'])} {g_oz(spec['num_tracks'])} "
                f"{g_oz(spec['num_discs'])} {g_ostr(spec['date'])} {g_ostr(spec['musicbrainz_id'])})")
    if c == "Track":
        alb = "None" if spec["album"] is None else f"(Some {g_spec(spec['album'])})"
        return (f"(mkTrack {g_ostr(spec['uri'])} {g_ostr(spec['name'])} {arts(spec['artists'])} {alb} "
                f"{arts(spec['composers'])} {arts(spec['performers'])} {g_ostr(spec['genre'])} {g_oz(spec['track_no'])} "
                f"{g_oz(spec['disc_no'])} {g_ostr(spec['date'])} {g_oz(spec['length'])} {g_oz(spec['bitrate'])} "
                f"{g_ostr(spec['comment'])} {g_ostr(spec['musicbrainz_id'])} {g_oz(spec['last_modified'])})")
    if c == "TlTrack":
        return f"(mkTlTrack {g_z(spec['tlid'])} {g_spec(spec['track'])})"
    if c == "Playlist":
        return (f"(mkPlaylist {g_ostr(spec['uri'])} {g_ostr(spec['name'])} {g_list([g_spec(t) for t in spec['tracks']])} "
                f"{g_oz(spec['last_modified'])})")
    if c == "SearchResult":
        return (f"(mkSearchResult {g_ostr(spec['uri'])} {g_list([g_spec(t) for t in spec['tracks']])} "
                f"{g_list([g_spec(t) for t in spec['artists']])} {g_list([g_spec(t) for t in spec['albums']])})")
    if c == "Ref":
        ty = {"album": "RAlbum", "artist": "RArtist", "directory": "RDirectory", "playlist": "RPlaylist", "track": "RTrack"}[spec["type"]]
        return f"(mkRef {g_str(spec['uri'])} {g_ostr(spec['name'])} {ty})"
    if c == "Image":
        return f"(mkImage {g_str(spec['uri'])} {g_oz(spec['width'])} {g_oz(spec['height'])})"
    raise ValueError(c)


def g_model(spec):
    return f"(M{spec['cls']} {g_spec(spec)})"


def tags_everywhere(j, key="__model__", any_name=False):
    """Every object in j carries key with the name of a model class."""
    if isinstance(j, dict):
        tag_ok = isinstance(j.get(key), str) if any_name else j.get(key) in CLASSES
        return tag_ok and all(tags_everywhere(v, key, any_name) for v in j.values())
    if isinstance(j, list):
        return all(tags_everywhere(x, key, any_name) for x in j)
    return True


def contains_model(M, v):
    if isinstance(v, M.BaseModel):
        return True
    if isinstance(v, dict):
        return any(contains_model(M, x) for x in v.values())
    if isinstance(v, list | tuple):
        return any(contains_model(M, x) for x in v)
    return False


# ----------------------------------------------------------------------------
# mutations of a JSON form (for of_json on values that violate constraints)

BAD_VALUES = {
    "int": [-1, "12", "-3", True, False, [], {}, "x", 1.5, None, "", 10**30],
    "str": [5, True, [], {}, 1.5, None, ""],
    "date": ["2020-1-2", "20200", "2020-01", "", "2020\n", " 2020", 2020, "abcd", "2020-01-02T", "٢٠٢٠", "2020-13-99", None],
    "uuid": ["12345678-1234-5678-1234-56781234567", "ABCDEF78-1234-5678-1234-567812345678", "12345678123456781234567812345678",
             "{12345678-1234-5678-1234-567812345678}", "urn:uuid:12345678-1234-5678-1234-567812345678",
             "URN:UUID:12345678-1234-5678-1234-567812345678", "{12345678123456781234567812345678}", "g2345678-1234-5678-1234-567812345678",
             "", "x", 5, None, " 12345678-1234-5678-1234-567812345678", "12345678-1234-5678-1234-5678123456789"],
    "type": ["Track", "TRACK", "x", "", None, 5, "album", "directory"],
    "list": [None, {}, "x", 5, [5], [None], [[]], [{}], [{"__model__": "Bogus"}], [{"junk": 1}]],
    "model": [None, [], "x", 5, {}, {"__model__": "Artist"}, {"junk": 1}],
    "tag": ["Artist", "Album", "Bogus", "", None, 5, [], "artist", "Track"],
}
FIELD_KIND = {"uri": "str", "name": "str", "sortname": "str", "genre": "str", "comment": "str", "musicbrainz_id": "uuid",
              "date": "date", "num_tracks": "int", "num_discs": "int", "track_no": "int", "disc_no": "int", "length": "int",
              "bitrate": "int", "last_modified": "int", "width": "int", "height": "int", "tlid": "int", "type": "type",
              "artists": "list", "composers": "list", "performers": "list", "tracks": "list", "albums": "list",
              "album": "model", "track": "model", "__model__": "tag"}


def all_objects(j, path=()):
    if isinstance(j, dict):
        yield path, j
        for k, v in j.items():
            yield from all_objects(v, (*path, k))
    elif isinstance(j, list):
        for i, v in enumerate(j):
            yield from all_objects(v, (*path, i))


def mutate(rng, j):
    """Return (mutated deep copy, label)."""
    j = json.loads(json.dumps(j))
    objs = list(all_objects(j))
    _path, o = rng.choice(objs)
    op = rng.weighted([("bad_value", 6), ("extra_key", 2), ("drop_key", 2), ("dup_artist", 1), ("tag", 2)])
    if op == "extra_key":
        o[rng.choice(["junk", "model", "Uri", "", "id", "__model", "length ", "tlid"])] = rng.choice([1, None, "x", []])
    elif op == "drop_key" and o:
        del o[rng.choice(list(o))]
    elif op == "dup_artist":
        for k in SET_KEYS:
            if isinstance(o.get(k), list) and o[k]:
                o[k] = o[k] + [rng.choice(o[k])]
                break
        else:
            op = "tag"
    if op == "tag":
        o["__model__"] = rng.choice(BAD_VALUES["tag"])
    if op == "bad_value":
        cls = o.get("__model__")
        fields = {"Artist": ["uri", "name", "sortname", "musicbrainz_id"],
                  "Album": ["uri", "name", "artists", "num_tracks", "num_discs", "date", "musicbrainz_id"],
                  "Track": ["uri", "name", "artists", "album", "composers", "performers", "genre", "track_no", "disc_no", "date",
                            "length", "bitrate", "comment", "musicbrainz_id", "last_modified"],
                  "TlTrack": ["tlid", "track"], "Playlist": ["uri", "name", "tracks", "last_modified"],
                  "SearchResult": ["uri", "tracks", "artists", "albums"], "Ref": ["uri", "name", "type"],
                  "Image": ["uri", "width", "height"]}.get(cls, list(o) or ["uri"])
        k = rng.choice(fields)
        o[k] = rng.choice(BAD_VALUES[FIELD_KIND.get(k, "str")])
        op = f"bad_value:{FIELD_KIND.get(k, 'str')}"
    return canon(j), op


def validate_outcome(M, cls, j):
    """-> ("ok", canonical serialize() of the result) | ("invalid",) | ("typeerror",)."""
    import pydantic

    try:
        m = getattr(M, cls).model_validate(j)
    except pydantic.ValidationError:
        return ("invalid",)
    except TypeError:
        return ("typeerror",)
    return ("ok", canon(m.serialize()))


def g_outcome(out):
    if out[0] == "ok":
        return f"(Some (Some {g_json(out[1])}))"
    return "(Some None)" if out[0] == "invalid" else "None"


# ----------------------------------------------------------------------------
# stages


def eval_cases(chk, name, case_type, rows, evals, describe):
    """rows: [(case_dict, gallina_term)].  Reports corr failures; returns ok."""
    shards = [rows[i: i + 250] for i in range(0, len(rows), 250)]
    results = rc.run_shards(vlib, AREA, HEADER, case_type, [[r[1] for r in s] for s in shards], evals, jobs=12)
    ok = True
    for shard, (lists, log_text) in zip(shards, results):
        if lists is None:
            ok = False
            chk.corr_failure(name, {"shard": "coq evaluation failed"}, log_text[-2000:])
            continue
        for which, idxs in enumerate(lists):
            for i in idxs:
                ok = False
                chk.corr_failure(name, {**shard[i][0], "check": describe[which]})
    chk.obligation(f"corr:{name}", "correspondence", ok)
    return ok


def model_stage(chk, M, specs):
    """(a) to_json both flavours, of_json on own output and on mutated JSON; runtime monitors."""
    import pydantic

    rows, mut_rows = [], []
    rng = vlib.Rng(chk.seed, "C08-mutate")
    for spec in specs:
        cls = spec["cls"]
        case = {"cls": cls, "spec": spec_json(spec)}
        m = build(M, spec)
        ser = m.serialize()
        dumped = json.loads(m.model_dump_json(by_alias=True))
        chk.count(1, nontrivial_key=sort_key(case["spec"]) if len(json.dumps(case["spec"])) > 60 else None)
        chk.dist("cls:" + cls)
        # --- monitors: the property on the real objects
        for label, form, back in (("serialize", ser, lambda f, c=cls: getattr(M, c).model_validate(f)),
                                  ("dump_json", dumped, lambda f, c=cls: getattr(M, c).model_validate_json(json.dumps(f)))):
            if not tags_everywhere(form):
                chk.monitor_failure("tagged", {"wire": label, "cls": cls}, "an object without __model__ in the JSON form", case)
            try:
                m2 = back(form)
            except (pydantic.ValidationError, TypeError) as exc:
                chk.monitor_failure("roundtrip", {"wire": label, "cls": cls}, f"own JSON form rejected: {type(exc).__name__}", case)
                continue
            if m2 != m or hash(m2) != hash(m) or type(m2) is not type(m):
                chk.monitor_failure("roundtrip", {"wire": label, "cls": cls}, "decoded value differs from the original", case)
        twin = build(M, json.loads(json.dumps(spec)))
        if twin != m or hash(twin) != hash(m):
            chk.monitor_failure("value_semantics", {"cls": cls, "what": "eq_hash"}, "equal field values but == / hash differ", case)
        field = next(iter(type(m).model_fields))
        for action, label in ((lambda: setattr(m, field, None), "setattr"), (lambda: delattr(m, field), "delattr"),
                              (lambda: setattr(m, "brand_new", 1), "new_attr")):
            try:
                action()
            except (pydantic.ValidationError, TypeError, AttributeError):
                pass
            else:
                chk.monitor_failure("immutable", {"cls": cls, "what": label}, f"{label} on a model instance succeeded", case)
        rows.append((case, f"({g_model(spec)}, {g_json(canon(ser))}, {g_json(canon(dumped))})"))
        # --- mutated JSON
        for _ in range(2):
            mj, op = mutate(rng, canon(ser) if rng.random() < 0.7 else canon(dumped))
            out = validate_outcome(M, cls, mj)
            chk.dist("mutation:" + op.split(":")[0])
            chk.dist("validate:" + out[0])
            chk.count(1, nontrivial_key="mut:" + sort_key(mj))
            if out[0] == "ok":
                # validate_sound on the real code: what was accepted satisfies the constraints,
                # i.e. it re-validates and re-serialises to the same thing
                again = validate_outcome(M, cls, out[1])
                if again != out:
                    chk.monitor_failure("validate_sound", {"cls": cls}, "accepted value does not survive its own round trip",
                                        {"cls": cls, "json": mj})
            mut_rows.append(({"cls": cls, "json": mj, "mutation": op, "impl": out[0]},
                             f"({g_str(cls)}, {g_json(mj)}, {g_outcome(out)})"))
    eval_cases(chk, "to_json", "model * json * json", rows,
               ["to_json_ok true", "to_json_ok false", "roundtrip_ok true", "roundtrip_ok false", "wf_ok"],
               ["to_json true m ~ serialize()", "to_json false m ~ model_dump_json", "of_json (to_json true m) = m",
                "of_json (to_json false m) = m", "model_wf m"])
    eval_cases(chk, "of_json", "str * json * option (option json)", mut_rows, ["of_json_case_ok"],
               ["of_json_as cls j ~ model_validate(j)"])


def constraint_stage(chk, M):
    """Monitor: field values that violate a constraint are rejected by the constructors."""
    import pydantic

    bad = [
        ("Image", {"uri": "u", "width": -1}), ("Image", {"uri": "u", "height": -1}), ("Image", {}), ("Image", {"uri": None}),
        ("Album", {"num_tracks": -1}), ("Album", {"num_discs": -1}), ("Album", {"date": "2020-1-1"}), ("Album", {"date": "20201"}),
        ("Album", {"date": "2020-01-02\n"}), ("Album", {"musicbrainz_id": "nope"}), ("Album", {"artists": [5]}),
        ("Track", {"track_no": -1}), ("Track", {"disc_no": -1}), ("Track", {"bitrate": -1}), ("Track", {"last_modified": -1}),
        ("Track", {"date": "x"}), ("Track", {"musicbrainz_id": "123"}), ("Track", {"album": 5}), ("Track", {"name": 5}),
        ("Artist", {"musicbrainz_id": "zz"}), ("Artist", {"name": 5}), ("Artist", {"junk": 1}),
        ("Playlist", {"last_modified": -1}), ("Playlist", {"tracks": [5]}), ("Playlist", {"tracks": None}),
        ("Ref", {"uri": "u", "type": "nope"}), ("Ref", {"uri": "u"}), ("Ref", {"type": "track"}), ("Ref", {"uri": None, "type": "track"}),
        ("SearchResult", {"tracks": [{"junk": 1}]}), ("SearchResult", {"artists": None}),
    ]
    for cls, kw in bad:
        chk.count(1)
        try:
            getattr(M, cls)(**kw)
        except pydantic.ValidationError:
            continue
        chk.monitor_failure("constraints", {"cls": cls, "field": ",".join(kw) or "(missing)"},
                            f"{cls}({kw}) was accepted", {"cls": cls, "kwargs": kw})
    for tlid in (0, -1):
        chk.count(1)
        try:
            M.TlTrack(tlid, M.Track())
        except pydantic.ValidationError:
            continue
        chk.monitor_failure("constraints", {"cls": "TlTrack", "field": "tlid"}, f"TlTrack(tlid={tlid}) accepted", {"tlid": tlid})
    constructor_paths(chk, M)


def constructor_paths(chk, M):
    """Every public way Mopidy offers to build a model - not only the class constructor: the
    Ref.album/artist/directory/playlist/track helpers, TlTrack's positional form, model_validate,
    model_validate_json and replace().  Invalid field values must be rejected on each path (if an
    instance comes back, it violates a constraint and its own JSON form is refused by the decoder);
    valid values must give the same model as the class constructor."""
    import pydantic

    def attempt(path, cls, build_fn, valid, detail, reference=None):
        chk.count(1, nontrivial_key=f"ctor:{path}:{json.dumps(detail, sort_keys=True, default=str)}")
        chk.dist(f"constructor_path:{path}:{'valid' if valid else 'invalid'}")
        case = {"path": path, "cls": cls, "arguments": detail}
        try:
            inst = build_fn()
        except (pydantic.ValidationError, TypeError):
            if valid:
                chk.monitor_failure("constraints", {"cls": cls, "path": path, "what": "valid_value_rejected"},
                                    f"{path} rejected valid field values", case)
            return
        if valid:
            if reference is not None and not (inst == reference and hash(inst) == hash(reference) and type(inst) is type(reference)):
                chk.monitor_failure("value_semantics", {"cls": cls, "path": path, "what": "differs_from_constructor"},
                                    f"{path} built a model that differs from the class constructor's", case)
            return
        try:
            form = inst.serialize()
            decodes = type(inst).model_validate(form) == inst
        except Exception:  # noqa: BLE001
            decodes = False
        chk.monitor_failure("constraints", {"cls": cls, "path": path},
                            f"{path} accepted field values that violate the model's constraints "
                            f"(its JSON form {'decodes' if decodes else 'is refused by the decoder'})", case)

    bad_ref = [{"uri": None}, {"uri": 123}, {"uri": []}, {"uri": "u", "name": 5}, {"uri": "u", "name": []}, {"uri": {"a": 1}}, {},
               {"uri": "u", "junk": 1}]
    good_ref = [{"uri": "u"}, {"uri": "", "name": None}, {"uri": "dummy:é", "name": "n"}]
    for helper in ("album", "artist", "directory", "playlist", "track"):
        for kw in bad_ref:
            attempt(f"Ref.{helper}", "Ref", lambda kw=kw, h=helper: getattr(M.Ref, h)(**kw), False, kw)
        for kw in good_ref:
            attempt(f"Ref.{helper}", "Ref", lambda kw=kw, h=helper: getattr(M.Ref, h)(**kw), True, kw,
                    reference=M.Ref(type=helper, **kw))
    track = M.Track(name="t")
    for args in ((0, track), (-1, track), ("x", track), (1, 5), (1, None), (1, {"junk": 1}), (None, track), (1,), ()):
        attempt("TlTrack(positional)", "TlTrack", lambda a=args: M.TlTrack(*a), False, [str(a)[:40] for a in args])
    attempt("TlTrack(positional)", "TlTrack", lambda: M.TlTrack(3, track), True, [3, "Track"], reference=M.TlTrack(tlid=3, track=track))
    attempt("TlTrack(positional)", "TlTrack", lambda: M.TlTrack(3, {"name": "t"}), True, [3, {"name": "t"}],
            reference=M.TlTrack(tlid=3, track=track))
    per_class_bad = {"Ref": {"uri": 5, "type": "track"}, "Image": {"uri": "u", "width": -1}, "Artist": {"name": 5},
                     "Album": {"num_tracks": -1}, "Track": {"bitrate": -1}, "TlTrack": {"tlid": 0, "track": {}},
                     "Playlist": {"last_modified": -1}, "SearchResult": {"tracks": [5]}}
    for cls, kw in per_class_bad.items():
        c = getattr(M, cls)
        attempt(f"{cls}.model_validate", cls, lambda c=c, kw=kw: c.model_validate(kw), False, kw)
        attempt(f"{cls}.model_validate_json", cls, lambda c=c, kw=kw: c.model_validate_json(json.dumps(kw)), False, kw)
        base = build(M, FULL_SPECS[cls])
        bad_field, bad_value = {"Ref": ("uri", 5), "Image": ("width", -1), "Artist": ("name", 5), "Album": ("num_tracks", -1),
                                "Track": ("bitrate", -1), "TlTrack": ("tlid", 0), "Playlist": ("last_modified", -1),
                                "SearchResult": ("tracks", [5])}[cls]
        attempt(f"{cls}.replace", cls, lambda b=base, k=bad_field, v=bad_value: b.replace(**{k: v}), False, {bad_field: bad_value})
        attempt(f"{cls}.replace", cls, lambda b=base: b.replace(), True, {}, reference=base)


# ----------------------------------------------------------------------------
# systematic malformed tagged models: class x (missing / ill-typed / extra) per field

_U = "12345678-1234-5678-1234-567812345678"
_A = {"cls": "Artist", "uri": "a:1", "name": "A", "sortname": "a", "musicbrainz_id": _U}
_AL = {"cls": "Album", "uri": "al:1", "name": "LP", "artists": [_A], "num_tracks": 3, "num_discs": 1, "date": "2020-01-02",
       "musicbrainz_id": _U}
_T = {"cls": "Track", "uri": "t:1", "name": "T", "artists": [_A], "album": _AL, "composers": [_A], "performers": [_A], "genre": "g",
      "track_no": 1, "disc_no": 1, "date": "1999", "length": 5, "bitrate": 128, "comment": "c", "musicbrainz_id": _U,
      "last_modified": 7}
FULL_SPECS = {
    "Ref": {"cls": "Ref", "uri": "r:1", "name": "R", "type": "track"},
    "Image": {"cls": "Image", "uri": "i:1", "width": 10, "height": 20},
    "Artist": _A, "Album": _AL, "Track": _T,
    "TlTrack": {"cls": "TlTrack", "tlid": 7, "track": _T},
    "Playlist": {"cls": "Playlist", "uri": "p:1", "name": "P", "tracks": [_T], "last_modified": 9},
    "SearchResult": {"cls": "SearchResult", "uri": "s:1", "tracks": [_T], "artists": [_A], "albums": [_AL]},
}
REQUIRED = {"Ref": {"uri", "type"}, "Image": {"uri"}, "TlTrack": {"tlid", "track"}}
# values that certainly violate a field of the given kind (no lax coercion path)
ILL = {"str": [5, []], "int": ["x", [], -1], "date": ["2020-1-1", 5], "uuid": ["zz", 5], "type": ["nope", 5],
       "list": [5, None, [5]], "model": [5, []]}


def malformed_variants(cls, tier, rng):
    """-> [(json, defects)]; defects = sorted list of 'missing:<f>' (required only), 'ill:<f>', 'extra'."""
    base = spec_json(FULL_SPECS[cls])
    fields = [k for k in base if k != "__model__"]
    req = REQUIRED.get(cls, set())
    out = []

    def make(states, extra):
        j = dict(base)
        defects = []
        for f, st in states.items():
            if st == "missing":
                del j[f]
                if f in req:
                    defects.append("missing:" + f)
            elif st != "ok":
                kind = "int" if f == "length" else FIELD_KIND[f]
                vals = [v for v in ILL[kind] if not (f == "length" and v == -1)]
                j[f] = vals[st % len(vals)]
                defects.append("ill:" + f)
        if extra:
            j[extra] = 1
            defects.append("extra")
        out.append((j, sorted(defects)))

    import itertools

    n = len(fields)
    full = n <= 4 or (tier == "thorough" and n <= 7)
    if full:
        for combo in itertools.product(("ok", "missing", 0), repeat=n):
            for extra in (None, "junk"):
                make(dict(zip(fields, combo)), extra)
        for f in fields:  # the other ill-typed values, one field at a time
            for i in (1, 2):
                make({f: i}, None)
    else:
        make({}, None)
        make({}, "junk")
        for f in fields:
            for st in ("missing", 0, 1, 2):
                make({f: st}, None)
        pairs = [(a, b, sa, sb) for a, b in itertools.combinations(fields, 2) for sa in ("missing", 0) for sb in ("missing", 0)]
        if tier != "thorough":
            pairs = rng.sample(pairs, min(len(pairs), 60))
        for a, b, sa, sb in pairs:
            make({a: sa, b: sb}, None)
        for _ in range(40 if tier != "thorough" else 400):
            k = rng.randint(3, min(6, n))
            make({f: rng.choice(["missing", 0, 1]) for f in rng.sample(fields, k)}, rng.choice([None, None, "junk", "model"]))
    return out


def malformed_stage(chk, M, jsonrpc):
    """Every model class x (missing / ill-typed / extra) fields, as a tagged JSON-RPC argument in
    four positions.  Monitor: an invalid tagged model never reaches the callee - the request is
    rejected - and a valid one arrives as an instance of its class."""
    rng = vlib.Rng(chk.seed, "C08-malformed")
    received = []

    def echo(*args, **kwargs):
        received.append((args, kwargs))
        return True

    w = jsonrpc.Wrapper(objects={"echo": echo})
    good = spec_json(FULL_SPECS["Artist"])
    rows, vrows = [], []
    for cls in CLASSES:
        for j, defects in malformed_variants(cls, chk.tier, rng):
            # TlTrack's hand-written __init__ swallows unknown keys: no claim for "extra" alone there
            claim = None if (cls == "TlTrack" and defects == ["extra"]) else ("invalid" if defects else "valid")
            dkind = "+".join(sorted({d.split(":")[0] for d in defects})) or "none"
            chk.dist(f"malformed:{cls}:{dkind}")
            chk.count(1, nontrivial_key="malformed:" + cls + sort_key(j) if defects else None)
            out = validate_outcome(M, cls, j)
            vrows.append(({"cls": cls, "json": j, "mutation": "malformed:" + dkind, "impl": out[0]},
                          f"({g_str(cls)}, {g_json(j)}, {g_outcome(out)})"))
            if claim == "invalid" and out[0] == "ok":
                chk.monitor_failure("constraints", {"cls": cls, "field": ",".join(defects)},
                                    f"{cls}.model_validate accepted a value with {defects}", {"cls": cls, "json": j})
            for position, params in (("positional", [j]), ("by_name", {"value": j}), ("in_list", [[good, j]]),
                                     ("in_object", [{"a": {"b": j}, "uri": "x"}])):
                received.clear()
                case = {"cls": cls, "defects": defects, "position": position,
                        "request": {"jsonrpc": "2.0", "id": 1, "method": "echo", "params": params}}
                try:
                    resp = json.loads(w.handle_json(json.dumps(case["request"]).encode()))
                except Exception as exc:  # noqa: BLE001
                    chk.monitor_failure("rpc_no_exception", {"wrap": "malformed", "cls": cls},
                                        f"handle_json raised {type(exc).__name__}", case)
                    continue
                if claim == "invalid" and (received or "error" not in resp):
                    chk.monitor_failure("invalid_model_rejected", {"cls": cls, "defect": dkind, "position": position},
                                        f"a tagged {cls} with {defects} was not rejected: it reached the method", case)
                if claim == "valid":
                    got = None
                    if received:
                        a, k = received[0]
                        got = {"positional": lambda: a[0], "by_name": lambda: k["value"], "in_list": lambda: a[0][1],
                               "in_object": lambda: a[0]["a"]["b"]}[position]()
                    if type(got).__name__ != cls:
                        chk.monitor_failure("param_decode", {"shape": "tagged_not_model", "cls": cls},
                                            f"a valid tagged {cls} reached the method as {type(got).__name__}", case)
                if position == "positional":
                    g_got = f"(Some {g_json(shape(M, received[0][0][0]))})" if received else "None"
                    rows.append((case, f"({g_json(j)}, {g_got}, JNull)"))
    eval_cases(chk, "malformed_decode", "json * option json * json", rows, ["decode_case_ok"],
               ["decode j ~ whether / as what the method received the malformed tagged model"])
    eval_cases(chk, "malformed_of_json", "str * json * option (option json)", vrows, ["of_json_case_ok"],
               ["of_json_as cls j ~ model_validate(j)"])


def shape(M, v):
    """What a method received, as JSON: models as {"$model": serialize()}."""
    if isinstance(v, M.BaseModel):
        return {"$model": canon(v.serialize())}
    if isinstance(v, dict):
        return {"$dict": {k: shape(M, x) for k, x in v.items()}}
    if isinstance(v, list | tuple):
        return [shape(M, x) for x in v]
    return v


def gen_untagged(rng, depth=2):
    k = rng.weighted([("scalar", 3), ("list", 2 if depth else 0), ("dict", 4 if depth else 0)])
    if k == "scalar":
        return rng.choice([None, True, 0, 1, -5, 1.5, "", "x", "Artist", "é"])
    if k == "list":
        return [gen_untagged(rng, depth - 1) for _ in range(rng.randint(0, 3))]
    keys = ["uri", "name", "tlid", "track", "artists", "tracks", "type", "width", "length", "last_modified", "album",
            "musicbrainz_id", "date", "a", "", "model", "__model"]
    return {rng.choice(keys): gen_untagged(rng, depth - 1) for _ in range(rng.randint(0, 3))}


def rpc_stage(chk, M, jsonrpc, specs):
    """(b) a real Wrapper call echoing its argument."""
    rng = vlib.Rng(chk.seed, "C08-rpc")
    rows = []
    received = []

    def echo(*args, **kwargs):
        received.append((args, kwargs))
        return args[0] if args else kwargs.get("value")

    w = jsonrpc.Wrapper(objects={"echo": echo})
    for spec in specs:
        m = build(M, spec)
        ser = canon(m.serialize())
        dumped = canon(json.loads(m.model_dump_json(by_alias=True)))
        form = ser if rng.random() < 0.5 else dumped
        wrap = rng.weighted([("bare", 5), ("list", 2), ("dict", 2), ("kwarg", 1), ("untagged", 4), ("mutated", 2)])
        if wrap == "bare":
            arg = form
        elif wrap == "list":
            arg = [form, gen_untagged(rng, 1), form]
        elif wrap == "dict":
            arg = {"a": form, "b": {"c": [form]}, "uri": "x"}
        elif wrap == "kwarg":
            arg = form
        elif wrap == "untagged":
            arg = gen_untagged(rng, 3)
            if isinstance(arg, dict) and rng.random() < 0.5:
                arg = strip_nulls(spec_json(spec), drop=("__model__",))  # a model's fields, no tag at any level
        else:
            arg, _ = mutate(rng, form)
        params = {"value": arg} if wrap == "kwarg" else [arg]
        req = {"jsonrpc": "2.0", "id": 1, "method": "echo", "params": params}
        received.clear()
        case = {"cls": spec["cls"], "wrap": wrap, "request": req}
        try:
            out = w.handle_json(json.dumps(req).encode())
            resp = json.loads(out)
        except Exception as exc:  # noqa: BLE001
            chk.monitor_failure("rpc_no_exception", {"wrap": wrap}, f"handle_json raised {type(exc).__name__}", case)
            continue
        chk.count(1, nontrivial_key="rpc:" + sort_key(arg))
        chk.dist("rpc:" + wrap)
        if received:
            args, kwargs = received[0]
            got = args[0] if args else kwargs["value"]
            g_got = f"(Some {g_json(shape(M, got))})"
            g_res = g_json(canon(resp.get("result")))
            # --- monitors
            if wrap in ("bare", "kwarg") and not (type(got) is type(m) and got == m and hash(got) == hash(m)):
                chk.monitor_failure("param_decode", {"shape": "tagged_not_model", "cls": spec["cls"]},
                                    f"a tagged {spec['cls']} reached the method as {type(got).__name__}", case)
            if wrap in ("list", "dict"):
                inner = got[0] if wrap == "list" else got["a"]
                inner2 = got[2] if wrap == "list" else got["b"]["c"][0]
                if not (inner == m and inner2 == m):
                    chk.monitor_failure("param_decode", {"shape": "nested_tagged_not_model", "cls": spec["cls"]},
                                        "a tagged model nested in an array/object did not reach the method as an equal model", case)
            if wrap == "untagged" and contains_model(M, got):
                chk.monitor_failure("param_decode", {"shape": "untagged_became_model"},
                                    "an object without __model__ reached the method as a model", case)
            if wrap == "untagged" and got != arg:
                chk.monitor_failure("param_decode", {"shape": "untagged_changed"}, "untagged JSON was altered", case)
            if wrap in ("bare", "kwarg") and not (tags_everywhere(resp.get("result")) and canon(resp.get("result")) == dumped):
                chk.monitor_failure("same_form", {"wire": "rpc_result", "cls": spec["cls"]},
                                    "the model in the JSON-RPC result is not the tagged dump_json form", case)
        else:
            g_got = "None"
            g_res = "JNull"
            if wrap != "mutated":
                chk.monitor_failure("param_decode", {"shape": "request_rejected", "wrap": wrap},
                                    "a request carrying a well-formed model was not delivered", case)
        rows.append((case, f"({g_json(arg)}, {g_got}, {g_res})"))
    eval_cases(chk, "rpc_echo", "json * option json * json", rows, ["decode_case_ok", "result_case_ok"],
               ["decode j ~ what the method received", "result JSON ~ to_json false of what was decoded"])


def event_stage(chk, M, specs):
    """(c) the real http.actor.on_event with a capturing broadcast."""
    from mopidy.http import actor, handlers

    # The real broadcast path: WebSocketHandler.broadcast schedules _send_broadcast(client, msg) on
    # the io loop for every connected client, which calls client.write_message(msg).  The loop is a
    # stand-in that runs the callback at once, the two clients record what a WebSocket client would
    # be sent (text, or bytes that must be UTF-8 text).  ``captured`` = what the first client got.
    import logging

    logging.getLogger("mopidy.http.handlers").setLevel(logging.CRITICAL)

    class Loop:
        def add_callback(self, callback, *args, **kwargs):
            callback(*args, **kwargs)

    class Client:
        def __init__(self):
            self.received = []
            self.request = SimpleNamespace(remote_ip="test")

        def write_message(self, message, binary=False):
            self.received.append((message, binary))

    loop = Loop()
    clients = [Client(), Client()]
    saved_clients = set(handlers.WebSocketHandler.clients)
    handlers.WebSocketHandler.clients.clear()
    handlers.WebSocketHandler.clients.update(clients)

    class Captured(list):
        """Texts delivered to the first client since the last clear(); delivery is checked."""

        def clear(self):
            for c in clients:
                c.received.clear()
            super().clear()

        def collect(self, case):
            texts = []
            for c in clients:
                if len(c.received) != 1:
                    chk.monitor_failure("same_form", {"wire": "event", "what": "not_delivered"},
                                        f"the event reached a connected WebSocket client {len(c.received)} times instead of once", case)
                    return False
                message, binary = c.received[0]
                try:
                    texts.append(message.decode("utf-8") if isinstance(message, bytes) else message)
                except UnicodeDecodeError:
                    chk.monitor_failure("same_form", {"wire": "event", "what": "not_text"}, "event message is not UTF-8 text", case)
                    return False
                if binary or not isinstance(texts[-1], str):
                    chk.monitor_failure("same_form", {"wire": "event", "what": "not_text"}, "event sent as a binary frame", case)
                    return False
            if texts[0] != texts[1]:
                chk.monitor_failure("same_form", {"wire": "event", "what": "clients_differ"}, "clients received different messages", case)
                return False
            self[:] = [texts[0]]
            return True

    captured = Captured()
    rows = []
    try:
        for spec in specs:
            if spec["cls"] not in ("TlTrack", "Playlist"):
                continue
            m = build(M, spec)
            captured.clear()
            if spec["cls"] == "TlTrack":
                actor.on_event("track_playback_started", loop, tl_track=m)
                key = "tl_track"
            else:
                actor.on_event("playlist_changed", loop, playlist=m)
                key = "playlist"
            case = {"cls": spec["cls"], "spec": spec_json(spec)}
            chk.count(1, nontrivial_key="event:" + sort_key(case["spec"]))
            chk.dist("event:" + key)
            chk.dist("event:non_ascii" if not json.dumps(case["spec"], ensure_ascii=False).isascii() else "event:ascii")
            if not captured.collect(case):
                continue
            try:
                msg = json.loads(captured[0])
                payload = msg[key]
            except (IndexError, KeyError, ValueError, TypeError):
                chk.monitor_failure("same_form", {"wire": "event", "what": "shape"}, "event message not captured / not JSON", case)
                continue
            if not tags_everywhere(payload):
                chk.monitor_failure("same_form", {"wire": "event", "tag": "model" if tags_everywhere(payload, "model") else "missing"},
                                    "models in the WebSocket event are not tagged with __model__", case)
            else:
                try:
                    back = type(m).model_validate(payload)
                    if back != m:
                        raise ValueError("differs")
                except Exception:  # noqa: BLE001
                    chk.monitor_failure("same_form", {"wire": "event", "what": "decode"}, "event payload does not decode to the model", case)
            rows.append((case, f"({g_model(spec)}, {g_json(canon(payload))})"))
        msg_rows = all_events(chk, M, actor, captured, specs, loop)
    finally:
        handlers.WebSocketHandler.clients.clear()
        handlers.WebSocketHandler.clients.update(saved_clients)
    eval_cases(chk, "events", "model * json", rows, ["event_case_ok"], ["event_json true m ~ broadcast payload"])
    eval_cases(chk, "event_messages", "event * json", msg_rows, ["event_msg_ok", "event_decode_ok"],
               ["encode_event true ev ~ broadcast message", "decode_event (broadcast message) = ev"])


def all_events(chk, M, actor, captured, specs, loop):
    """All fourteen CoreListener events through the real on_event; -> rows (event term, message)."""
    from mopidy.types import PlaybackState

    rng = vlib.Rng(chk.seed, "C08-events")
    tls = [s for s in specs if s["cls"] == "TlTrack"]
    pls = [s for s in specs if s["cls"] == "Playlist"]
    states = {"paused": ("PsPaused", PlaybackState.PAUSED), "playing": ("PsPlaying", PlaybackState.PLAYING),
              "stopped": ("PsStopped", PlaybackState.STOPPED)}
    ints = [0, 1, 100, 59999, 2**31, 2**63, -1]
    events = []  # (name, kwargs, gallina term, expected plain members)
    for s in tls:
        pos = rng.choice(ints)
        kind = rng.choice(["paused", "resumed", "started", "ended"])
        tl = build(M, s)
        if kind == "started":
            events.append(("track_playback_started", {"tl_track": tl}, f"(EvTrackPlaybackStarted {g_spec(s)})"))
        else:
            ctor = {"paused": "EvTrackPlaybackPaused", "resumed": "EvTrackPlaybackResumed", "ended": "EvTrackPlaybackEnded"}[kind]
            events.append((f"track_playback_{kind}", {"tl_track": tl, "time_position": pos}, f"({ctor} {g_spec(s)} {g_z(pos)})"))
    for s in pls:
        events.append(("playlist_changed", {"playlist": build(M, s)}, f"(EvPlaylistChanged {g_spec(s)})"))
    for a, (ga, va) in states.items():
        for b, (gb, vb) in states.items():
            # the core sends enum members; plain strings are what a test double would send
            events.append(("playback_state_changed", {"old_state": va, "new_state": vb if a != b else b},
                           f"(EvPlaybackStateChanged {ga} {gb})"))
    for name, ctor in (("tracklist_changed", "EvTracklistChanged"), ("playlists_loaded", "EvPlaylistsLoaded"),
                       ("options_changed", "EvOptionsChanged")):
        events.append((name, {}, ctor))
    for v in ints:
        events.append(("volume_changed", {"volume": v}, f"(EvVolumeChanged {g_z(v)})"))
        events.append(("seeked", {"time_position": v}, f"(EvSeeked {g_z(v)})"))
    for b in (True, False):
        events.append(("mute_changed", {"mute": b}, f"(EvMuteChanged {vlib.g_bool(b)})"))
    for t in STRS:
        events.append(("stream_title_changed", {"title": t}, f"(EvStreamTitleChanged {g_str(t)})"))
    for u in URIS:
        events.append(("playlist_deleted", {"uri": u}, f"(EvPlaylistDeleted {g_str(u)})"))
    rows = []
    for name, kwargs, term in events:
        captured.clear()
        case = {"event": name, "kwargs": {k: (v.serialize() if hasattr(v, "serialize") else str(v)) for k, v in kwargs.items()}}
        chk.count(1, nontrivial_key="eventmsg:" + name + sort_key(case["kwargs"]))
        chk.dist("eventmsg:" + name)
        try:
            actor.on_event(name, loop, **dict(kwargs))
            if not captured.collect(case):
                continue
            msg = json.loads(captured[0])
        except Exception as exc:  # noqa: BLE001
            chk.monitor_failure("same_form", {"wire": "event", "what": "raised", "event": name},
                                f"on_event raised {type(exc).__name__}", case)
            continue
        # monitor: the message names the event and carries exactly its keyword arguments
        if msg.get("event") != name or set(msg) != set(kwargs) | {"event"}:
            chk.monitor_failure("same_form", {"wire": "event", "what": "members", "event": name},
                                "event message does not carry the event name and exactly its arguments", case)
        for k, v in kwargs.items():
            if not hasattr(v, "serialize") and msg.get(k) != (v.value if hasattr(v, "value") else v):
                chk.monitor_failure("same_form", {"wire": "event", "what": "scalar", "event": name},
                                    f"scalar argument {k} changed on the wire", case)
        rows.append((case, f"({term}, {g_json(canon(msg))})"))
    return rows


def storage_stage(chk, M, specs):
    """(d) real storage.dump / storage.load."""
    from mopidy.internal import models as IM
    from mopidy.internal import storage

    tls = [s for s in specs if s["cls"] == "TlTrack"]
    refs = [s for s in specs if s["cls"] == "Ref"]
    tmp = pathlib.Path(tempfile.mkdtemp(prefix="verif-c08-"))
    rows = []
    try:
        for i in range(0, max(len(tls), 1), 4):
            group = tls[i: i + 4]
            rgroup = refs[i: i + 4]
            state = IM.StoredState(version="x", state=IM.CoreState(
                tracklist=IM.TracklistState(tl_tracks=[build(M, s) for s in group], next_tlid=1),
                history=IM.HistoryState(history=[IM.HistoryTrack(timestamp=n, track=build(M, r)) for n, r in enumerate(rgroup)])))
            path = tmp / f"state{i}.json.gz"
            case = {"group": i, "n_tl_tracks": len(group), "n_refs": len(rgroup)}
            storage.dump(path, state)
            chk.count(1, nontrivial_key=f"storage:{i}" if group else None)
            chk.dist("storage:file")
            doc = json.loads(gzip.open(path, "rb").read())
            if not tags_everywhere(doc, any_name=True):
                chk.monitor_failure("same_form", {"wire": "state_file", "what": "tag"}, "an object without __model__ in the state file", case)
            loaded = storage.load(path)
            if loaded != state or hash(loaded) != hash(state):
                chk.monitor_failure("roundtrip", {"wire": "state_file"}, "storage.load(storage.dump(x)) != x", case)
            for s, j in zip(group, doc["state"]["tracklist"]["tl_tracks"]):
                rows.append(({**case, "spec": spec_json(s)}, f"({g_model(s)}, {g_json(canon(j))})"))
            for r, j in zip(rgroup, doc["state"]["history"]["history"]):
                rows.append(({**case, "spec": spec_json(r)}, f"({g_model(r)}, {g_json(canon(j['track']))})"))
    finally:
        shutil.rmtree(tmp, ignore_errors=True)
    eval_cases(chk, "state_file", "model * json", rows, ["state_case_ok"], ["state_file_json m ~ object in the state file"])


def storage_fault_stage(chk, M, specs):
    """The state-file wire under I/O faults: with a good state file present, storage.dump of a new
    state with an OSError injected at the gzip write, flush, fsync or rename.  dump may raise, but
    what is on disk afterwards must decode (storage.load) to a state equal to the old or the new."""
    import errno
    import gzip as gzip_mod
    import os
    from unittest import mock

    from mopidy.internal import models as IM
    from mopidy.internal import storage

    tls = [s for s in specs if s["cls"] == "TlTrack"][:6] or [FULL_SPECS["TlTrack"]]

    def state(group, version):
        return IM.StoredState(version=version, state=IM.CoreState(
            tracklist=IM.TracklistState(tl_tracks=[build(M, s) for s in group], next_tlid=1)))

    old, new = state(tls[:2], "old"), state(tls[2:] or tls[:1], "new")
    enospc = OSError(errno.ENOSPC, "No space left on device")
    real_write = gzip_mod.GzipFile.write

    def partial_write(self, data):
        real_write(self, data[: len(data) // 2])
        raise enospc

    real_named_temporary_file = tempfile.NamedTemporaryFile

    def failing_flush_tempfile(*args, **kwargs):
        tmp = real_named_temporary_file(*args, **kwargs)
        tmp.flush = mock.Mock(side_effect=enospc)
        return tmp

    faults = {
        "write": lambda: mock.patch.object(gzip_mod.GzipFile, "write", partial_write),
        "write_nothing": lambda: mock.patch.object(gzip_mod.GzipFile, "write", mock.Mock(side_effect=enospc)),
        "flush": lambda: mock.patch.object(storage.tempfile, "NamedTemporaryFile", failing_flush_tempfile),
        "fsync": lambda: mock.patch.object(os, "fsync", mock.Mock(side_effect=OSError(errno.EIO, "Input/output error"))),
        "rename": lambda: mock.patch.object(pathlib.Path, "rename", mock.Mock(side_effect=OSError(errno.EACCES, "Permission denied"))),
        "none": lambda: mock.patch.object(os, "getpid", os.getpid),
    }
    import logging

    logging.getLogger("mopidy.internal.storage").setLevel(logging.CRITICAL)
    tmpdir = pathlib.Path(tempfile.mkdtemp(prefix="verif-c08-fault-"))
    try:
        for name, patcher in faults.items():
            path = tmpdir / f"state-{name}.json.gz"
            storage.dump(path, old)
            case = {"fault": name, "old_version": "old", "new_version": "new"}
            chk.count(1, nontrivial_key="storage_fault:" + name)
            chk.dist("storage_fault:" + name)
            raised = None
            with patcher():
                try:
                    storage.dump(path, new)
                except OSError as exc:
                    raised = exc
                except Exception as exc:  # noqa: BLE001
                    chk.monitor_failure("roundtrip", {"wire": "state_file", "fault": name, "what": "exception"},
                                        f"storage.dump raised {type(exc).__name__} under an injected OSError", case)
                    continue
            try:
                loaded = storage.load(path)
            except Exception as exc:  # noqa: BLE001
                loaded = exc
            if not (loaded == old or loaded == new):
                chk.monitor_failure("roundtrip", {"wire": "state_file", "fault": name, "what": "undecodable_after_fault"},
                                    f"after an OSError at {name} in storage.dump the state file decodes to neither the old nor the "
                                    f"new state (load -> {type(loaded).__name__})", case)
            if name == "none" and (raised is not None or loaded != new):
                chk.monitor_failure("roundtrip", {"wire": "state_file", "fault": name, "what": "plain_dump"},
                                    "a dump without faults did not store the new state", case)
    finally:
        shutil.rmtree(tmpdir, ignore_errors=True)


LOCALE_CHILD = r"""
import json, pathlib, sys
from mopidy.internal import storage
out = {}
for p in sys.argv[1:]:
    st = storage.load(pathlib.Path(p))
    out[p] = None if st is None else json.loads(st.model_dump_json(by_alias=True))
import locale
print(json.dumps({"encoding": locale.getpreferredencoding(False), "states": out}))
"""


def storage_locale_stage(chk, M, specs):
    """The state-file wire must not depend on the locale of the process that reads it: state files
    with non-ASCII names written here are re-read by storage.load in a child process whose locale
    encoding is not UTF-8 (LC_ALL=C with UTF-8 mode and locale coercion off, and a Latin-1 locale
    when one is installed); what the child decodes must equal what was dumped."""
    import subprocess

    from mopidy.internal import models as IM
    from mopidy.internal import storage

    tls = [s for s in specs if s["cls"] == "TlTrack"]
    non_ascii = [s for s in tls if not json.dumps(spec_json(s), ensure_ascii=False).isascii()][:4]
    ascii_only = [s for s in tls if json.dumps(spec_json(s), ensure_ascii=False).isascii()][:1]
    unicode_track = {**FULL_SPECS["TlTrack"], "track": {**_T, "name": "Ænima – 日本語 😀", "comment": "é"}}
    groups = [("unicode", [unicode_track] + non_ascii), ("ascii", ascii_only or [FULL_SPECS["TlTrack"]])]
    tmpdir = pathlib.Path(tempfile.mkdtemp(prefix="verif-c08-locale-"))
    try:
        expected = {}
        for label, group in groups:
            state = IM.StoredState(version="v", state=IM.CoreState(
                tracklist=IM.TracklistState(tl_tracks=[build(M, s) for s in group], next_tlid=1)))
            path = tmpdir / f"state-{label}.json.gz"
            storage.dump(path, state)
            expected[str(path)] = (label, json.loads(state.model_dump_json(by_alias=True)))
        locales = [("C", {"LC_ALL": "C", "LANG": "C"})]
        try:
            avail = subprocess.run(["locale", "-a"], capture_output=True, text=True, timeout=20, check=False).stdout.split()
        except (OSError, subprocess.TimeoutExpired):
            avail = []
        latin = next((x for x in avail if "8859" in x or x.lower().endswith((".latin1", ".iso88591"))), None)
        if latin:
            locales.append((latin, {"LC_ALL": latin, "LANG": latin}))
        for lname, lenv in locales:
            env = {**vlib.impl_env(), **lenv, "PYTHONUTF8": "0", "PYTHONCOERCECLOCALE": "0", "PYTHONIOENCODING": "utf-8"}
            env.pop("LC_CTYPE", None)
            p = subprocess.run([vlib.PY, "-B", "-X", "utf8=0", "-c", LOCALE_CHILD, *expected], env=env, capture_output=True, text=True,
                               timeout=120, check=False)
            case = {"locale": lname, "stderr": p.stderr[-300:]}
            chk.count(len(expected), nontrivial_key="storage_locale:" + lname)
            try:
                got = json.loads(p.stdout.strip().splitlines()[-1])
            except (ValueError, IndexError):
                chk.monitor_failure("roundtrip", {"wire": "state_file", "what": "child_failed", "locale": lname},
                                    "the child process reading the state file failed", case)
                continue
            chk.dist(f"storage_locale:{lname}:{got['encoding']}")
            for path, (label, want) in expected.items():
                if got["states"].get(path) != want:
                    chk.monitor_failure("roundtrip", {"wire": "state_file", "what": "locale_dependent", "content": label},
                                        f"a state file with {label} names read under locale {lname} (encoding {got['encoding']}) decodes to "
                                        f"{'nothing' if got['states'].get(path) is None else 'a different state'}",
                                        {**case, "content": label, "encoding": got["encoding"],
                                         "first_track_name": want["state"]["tracklist"]["tl_tracks"][0]["track"]["name"]})
    finally:
        shutil.rmtree(tmpdir, ignore_errors=True)


def digit_table_stage(chk, M):
    """The Unicode decimal-digit table of Models.v (nd_starts) against pydantic's date pattern:
    exhaustive over all code points in the thorough tier (a finite domain), sampled otherwise."""
    import re

    import pydantic

    text = (vlib.COQ / AREA / "Models.v").read_text()
    body = re.search(r"Definition nd_starts : list Z :=\s*\[(.*?)\]", text, re.S).group(1)
    starts = [int(x) for x in re.findall(r"\d+", body)]
    table = {c for lo in starts for c in range(lo, lo + 10)}
    if chk.tier == "thorough":
        points = [c for c in range(0x110000) if not 0xD800 <= c <= 0xDFFF]
        chk.notes.append("digit table: exhaustive over all 1,112,064 code points")
    else:
        rng = vlib.Rng(chk.seed, "C08-digits")
        points = sorted(table | {c + d for c in table for d in (-1, 1, 10)} | {rng.randrange(0x110000) for _ in range(3000)})
        points = [c for c in points if 0 <= c < 0x110000 and not 0xD800 <= c <= 0xDFFF]
    bad = []
    for c in points:
        try:
            M.Album(date=chr(c) + "000")
            accepted = True
        except pydantic.ValidationError:
            accepted = False
        if accepted != (c in table):
            bad.append(c)
    chk.count(len(points))
    chk.dist("digit_table:code_points", len(points))
    for c in bad[:5]:
        chk.corr_failure("digit_table", {"code_point": c, "in_table": c in table})
    chk.obligation("corr:digit_table", "correspondence", not bad)


def search_hook(M, jsonrpc):
    """After a tie break: run the monitors (the property on the real code) on fresh values
    around the disagreeing case and report the first failure that is not a known finding."""
    def hook(cf):
        case = cf.get("case") or {}
        probe = vlib.Check("C08", AREA)
        rng = vlib.Rng(1, "C08-search:" + json.dumps(case, sort_keys=True, default=str)[:200])
        classes = [case["cls"]] if case.get("cls") in GENS else CLASSES
        specs = [GENS[c](rng) for c in classes for _ in range(60 // len(classes) + 1)]
        stages = (lambda: model_stage(probe, M, specs), lambda: constraint_stage(probe, M),
                  lambda: rpc_stage(probe, M, jsonrpc, specs), lambda: event_stage(probe, M, specs),
                  lambda: storage_stage(probe, M, specs))
        real_eval = globals()["eval_cases"]
        globals()["eval_cases"] = lambda *a, **k: True  # monitors only, no Coq
        try:
            for st in stages:
                st()
        finally:
            globals()["eval_cases"] = real_eval
        findings = vlib.load_findings("C08")
        for mf in probe.monitor_failures:
            if not any(vlib.finding_matches(e, mf["monitor"], mf["key"]) for e in findings):
                return mf
        return None
    return hook


def perturb(rng, spec):
    """A copy of spec that differs in exactly one (possibly nested) field."""
    t = json.loads(json.dumps(spec))
    objs = [o for _p, o in all_objects(t) if isinstance(o, dict) and "cls" in o]
    o = rng.choice(objs)
    fields = [k for k in o if k != "cls"]
    k = rng.choice(fields)
    v = o[k]
    if isinstance(v, str):
        o[k] = {"album": "artist", "artist": "track", "directory": "album", "playlist": "directory", "track": "playlist"}.get(v, v + "x") \
            if k == "type" else ("2021" if k == "date" else str(uuid.UUID(int=rng.getrandbits(128))) if k == "musicbrainz_id" else v + "x")
    elif isinstance(v, bool) or v is None:
        o[k] = {"date": "2021", "musicbrainz_id": str(uuid.UUID(int=7)), "album": gen_album(rng), "type": "album"}.get(
            k, 3 if FIELD_KIND.get(k) == "int" else "new")
    elif isinstance(v, int):
        o[k] = v + 1
    elif isinstance(v, list):
        o[k] = v[:-1] if v else [GENS["Track" if k == "tracks" else "Album" if k == "albums" else "Artist"](rng)]
    elif isinstance(v, dict):
        o[k] = None if k == "album" else perturb(rng, v)
    return t


REPLACE_GOOD = {"name": "renamed", "uri": "x:new", "sortname": "s", "genre": "g", "comment": "c", "last_modified": 5, "tlid": 9,
                "width": 3, "height": 4, "num_tracks": 2, "track_no": 8, "length": -7, "type": "album", "date": "2001-02-03",
                "musicbrainz_id": "ABCDEF78-1234-5678-1234-567812345678", "artists": [{"name": "new artist"}], "tracks": []}
REPLACE_BAD = {"name": 5, "uri": [], "last_modified": -1, "tlid": 0, "width": -1, "num_tracks": "x", "type": "nope",
               "date": "2001-2-3", "musicbrainz_id": "zz", "artists": 5, "tracks": None, "length": "x"}


def replace_outcome(m, upd):
    import pydantic

    try:
        r = m.replace(**upd)
    except pydantic.ValidationError:
        return ("invalid",)
    except TypeError:
        return ("typeerror",)
    return ("ok", canon(r.serialize()))


def values_stage(chk, M, specs):
    """__eq__ / __hash__ / replace() of the real objects against Values.v."""
    rng = vlib.Rng(chk.seed, "C08-values")
    eq_rows, rp_rows = [], []
    if chk.tier == "quick":
        specs = specs[:20] + specs[20::3]  # the corpus and every third generated value
    for spec in specs:
        cls = spec["cls"]
        m = build(M, spec)
        # --- == and hash
        other_cls = {"Artist": "Album", "Album": "Artist", "Playlist": "SearchResult"}.get(cls)
        cands = [("twin", json.loads(json.dumps(spec))), ("perturbed", perturb(rng, spec))]
        if other_cls:
            base = GENS[other_cls](rng)
            shared = {k: v for k, v in spec.items() if k in ("uri", "name") and k in base}
            cands.append(("other_class", {**{k: (None if not isinstance(v, list) else []) for k, v in base.items() if k != "cls"},
                                          **shared, "cls": other_cls}))
        for label, spec2 in cands:
            m2 = build(M, spec2)
            eq = m == m2
            case = {"cls": cls, "pair": label, "a": spec_json(spec), "b": spec_json(spec2)}
            chk.count(1, nontrivial_key=f"eq:{label}:" + sort_key(case["a"]) + sort_key(case["b"]))
            chk.dist(f"eq:{label}:{eq}")
            if (m2 == m) != eq or not (m == m) or (label == "twin" and not eq):
                chk.monitor_failure("value_semantics", {"cls": cls, "what": "eq_laws"}, "== is not reflexive/symmetric/by value", case)
            if eq and hash(m) != hash(m2):
                chk.monitor_failure("value_semantics", {"cls": cls, "what": "eq_hash"}, "equal models with different hashes", case)
            REVERSE_SETS[0] = True
            g2 = g_model(spec2)
            REVERSE_SETS[0] = False
            eq_rows.append((case, f"({g_model(spec)}, {g2}, {vlib.g_bool(eq)})"))
        # --- replace()
        decoded = type(m).model_validate(m.serialize())
        fields = [k for k in spec if k != "cls"]
        good_f = [k for k in fields if k in REPLACE_GOOD and not (cls == "SearchResult" and k == "artists")]
        bad_f = [k for k in fields if k in REPLACE_BAD]
        upds = [("none", {})]
        if good_f:
            k = rng.choice(good_f)
            upds.append(("good", {k: REPLACE_GOOD[k]}))
            upds.append(("to_none", {k: None}))
        if bad_f:
            k = rng.choice(bad_f)
            upds.append(("bad", {k: REPLACE_BAD[k]}))
        upds.append(("unknown", {rng.choice(["junk", "model", "Name"]): 1}))
        for origin, inst in (("constructed", m), ("decoded", decoded)):
            for label, upd in upds:
                out = replace_outcome(inst, upd)
                case = {"cls": cls, "origin": origin, "update": label, "upd": upd, "spec": spec_json(spec)}
                chk.count(1, nontrivial_key=f"replace:{origin}:{label}:" + sort_key(case["spec"]))
                chk.dist(f"replace:{origin}:{label}:{out[0]}")
                # the laws of replace() on the real objects
                if label == "none" and not (out[0] == "ok" and out[1] == canon(m.serialize())):
                    chk.monitor_failure("replace_law", {"law": "identity", "origin": origin},
                                        "replace() without arguments does not return an equal model", case)
                if label == "good":
                    (k, v), = upd.items()
                    want = canon({**m.serialize(), k: v})
                    if out[0] == "ok":
                        got = dict(out[1])
                        if k in ("musicbrainz_id",):
                            want[k] = v.lower()
                        if k == "artists":
                            want[k] = [{"__model__": "Artist", **a} for a in v]
                        if got != want:
                            chk.monitor_failure("replace_law", {"law": "set_get", "origin": origin},
                                                "replace(field=v) does not return the model with exactly that field changed", case)
                    else:
                        chk.monitor_failure("replace_law", {"law": "accepts_valid", "origin": origin},
                                            "replace() rejected a valid field value", case)
                if label in ("bad", "unknown") and out[0] == "ok" and not (cls == "TlTrack" and label == "unknown"):
                    chk.monitor_failure("replace_law", {"law": "validates", "origin": origin},
                                        "replace() accepted an invalid field value / unknown field", case)
                g_upd = g_list([f"({g_str(k)}, {g_json(v)})" for k, v in upd.items()])
                rp_rows.append((case, f"({g_model(spec)}, {vlib.g_bool(origin == 'decoded')}, {g_upd}, {g_outcome(out)})"))
    eval_cases(chk, "eq_hash", "model * model * bool", eq_rows, ["eq_case_ok"], ["model_eqb a b = (a == b), and equal => equal model_hash"])
    eval_cases(chk, "replace", "model * bool * list (str * json) * option (option json)", rp_rows, ["replace_case_ok"],
               ["replace tag_was_set m upd ~ m.replace(**upd)"])


def serializable_specs(chk, M, specs):
    """Totality of the dumps on every generated value: serialize(), model_dump_json(by_alias) and the
    JSON-RPC / event serialisers must not raise on a value within the field constraints.  A value
    on which one raises is reported (with the value) and left out of the later stages."""
    from pydantic import TypeAdapter

    anyadapter = TypeAdapter(object)
    good = []
    for spec in specs:
        try:
            m = build(M, spec)
        except Exception as exc:  # noqa: BLE001
            chk.monitor_failure("constraints", {"cls": spec["cls"], "what": "valid_value_rejected"},
                                f"a value within the field constraints was rejected: {type(exc).__name__}",
                                {"cls": spec["cls"], "spec": spec_json(spec)})
            continue
        failed = False
        for call, fn in (("serialize", m.serialize), ("model_dump_json", lambda m=m: m.model_dump_json(by_alias=True)),
                         ("dump_json_any", lambda m=m: anyadapter.dump_json(m, by_alias=True)),
                         ("model_dump_python", lambda m=m: m.model_dump(mode="json", by_alias=False, exclude_unset=True))):
            try:
                fn()
            except Exception as exc:  # noqa: BLE001
                n_art = max((len(o.get("artists") or []) for _p, o in all_objects(spec) if isinstance(o, dict)), default=0)
                chk.monitor_failure("roundtrip", {"wire": call, "cls": spec["cls"], "what": "dump_raised"},
                                    f"{call}() raised {type(exc).__name__}: {str(exc)[:120]} (largest artists set: {n_art})",
                                    {"cls": spec["cls"], "spec": spec_json(spec)})
                failed = True
                break
        if not failed:
            good.append(spec)
    return good


def load_corpus():
    out = []
    for f in sorted((vlib.VERIF / "corpus" / "C08").glob("*.json")):
        out += json.loads(f.read_text())
    return out


def run(chk):
    chk.rule = ("generated model values of all 8 classes (every optional field present/absent, empty and non-empty "
                "collections, nesting, unicode, boundary ints, both date forms incl. non-ASCII digits, UUIDs) and mutated / "
                "untagged JSON; non-trivial = serialized form longer than 60 characters, or a mutated/RPC/event/storage case; "
                "distinct by canonical JSON")
    chk.trusted_base = [
        "Coq 8.16.1 kernel + vm_compute (no native_compute)",
        "harness/c08.py generators, spec->instance and spec->Gallina emitters, canonical ordering of frozenset fields",
        "pydantic validation/serialisation transcribed in Models.v (correspondence-checked): type checks, defaults, "
        "extra=forbid, Unicode \\d table measured on pydantic-core, the four UUID text forms",
        "lax bool/str -> int coercion as an oracle (CorrC08.lax_int_corr covers bool and plain decimal strings)",
    ]
    chk.assumptions = [
        "immutability, == and hash are runtime facts about pydantic objects: exercised by monitors, not proved (partial)",
        "objects handed to of_json have unique keys",
        "float values are never generated for integer fields (lax float->int is part of the oracle)",
    ]
    chk.proof_stage(PROP_FILES, thorough_coqchk=(chk.tier == "thorough"))
    vlib.setup_impl()
    from mopidy import models as M
    from mopidy.internal import jsonrpc

    M.BaseModel = __import__("mopidy.models._base", fromlist=["BaseModel"]).BaseModel
    n = 40 if chk.tier == "quick" else 220
    specs = load_corpus()
    for cls in CLASSES:
        specs += [GENS[cls](chk.rng) for _ in range(n)]
    specs = serializable_specs(chk, M, specs)
    for s in specs[:3]:
        chk.sample({"cls": s["cls"], "serialize": spec_json(s)})
    chk.search_hook = search_hook(M, jsonrpc)
    import time

    for name, stage in (("digit_table", lambda: digit_table_stage(chk, M)), ("model", lambda: model_stage(chk, M, specs)),
                        ("constraint", lambda: constraint_stage(chk, M)), ("rpc", lambda: rpc_stage(chk, M, jsonrpc, specs)),
                        ("malformed", lambda: malformed_stage(chk, M, jsonrpc)), ("values", lambda: values_stage(chk, M, specs)),
                        ("event", lambda: event_stage(chk, M, specs)), ("storage", lambda: storage_stage(chk, M, specs)),
                        ("storage_fault", lambda: storage_fault_stage(chk, M, specs)),
                        ("storage_locale", lambda: storage_locale_stage(chk, M, specs))):
        t0 = time.time()
        try:
            stage()
        except Exception as exc:  # noqa: BLE001 - the implementation raised where the harness does not expect it
            import traceback

            tb = traceback.extract_tb(exc.__traceback__)
            where = next((f"{f.filename.split('/src/')[-1]}:{f.lineno} {f.name}" for f in reversed(tb) if "/src/mopidy/" in f.filename), "harness")
            chk.monitor_failure("no_exception", {"stage": name, "exc": type(exc).__name__},
                                f"stage {name}: {type(exc).__name__}: {str(exc)[:160]} (raised in {where})",
                                {"stage": name, "traceback": [f"{f.filename}:{f.lineno} {f.name}" for f in tb[-6:]]})
            chk.obligation(f"stage-completed:{name}", "audit", False, f"{type(exc).__name__}: {exc}")
        chk.notes.append(f"stage {name}: {time.time() - t0:.1f} s")
