"""C06 stage: pure helpers of mopidy.audio.utils (coq/Audio/Utils.v).

* utils.Signals driven with fake GObject elements whose connect() answers scripted handler
  ids; compared with the model: exception or not, and the connect/disconnect calls each
  element received, per operation.  Monitor: the calls stay balanced (theorem S1) and clear()
  leaves nothing connected (S2).
* utils.supported_uri_schemes with a scripted registry.
"""

from __future__ import annotations

from common import vlib
from common.vlib import g_bool, g_list, g_z

AREA = "Audio"
HEADER = vlib.COQ_HEADER + "From Common Require Import Res Str Cases.\nFrom Audio Require Import Utils.\n"
N_EL, N_EV = 3, 3
EVENTS = ["about-to-finish", "source-setup", "notify::volume"]


class El:
    def __init__(self, idx, log, hids):
        self.idx, self.log, self.hids = idx, log, hids

    def connect(self, event, func, *args):
        hid = self.hids.pop(0)
        self.log.append(("c", self.idx, EVENTS.index(event), hid))
        return hid

    def disconnect(self, hid):
        self.log.append(("d", self.idx, 0, hid))


def run_signals(ops):
    from mopidy.audio import utils

    log, hids = [], []
    els = [El(i, log, hids) for i in range(N_EL)]
    sig = utils.Signals()
    obs = []
    for op in ops:
        del log[:]
        raised = False
        try:
            if op[0] == "connect":
                hids.append(op[3])
                sig.connect(els[op[1]], EVENTS[op[2]], lambda *a: None)
            elif op[0] == "disconnect":
                sig.disconnect(els[op[1]], EVENTS[op[2]])
            else:
                sig.clear()
        except AssertionError:
            raised = True
        del hids[:]
        obs.append((raised, list(log)))
    return obs


def balanced(all_calls):
    """Monitor (theorem signals_balanced): never two handlers on one (element, event); every
    disconnect names a connected handler of that element.  Returns what is left connected."""
    live = {}
    for kind, el, ev, hid in all_calls:
        if kind == "c":
            if (el, ev) in live:
                return None
            live[(el, ev)] = hid
        else:
            keys = [k for k, h in live.items() if k[0] == el and h == hid]
            if not keys:
                return None
            del live[keys[0]]
    return live


def gen_ops(rng):
    ops = []
    for _ in range(rng.randint(1, 20)):
        k = rng.weighted([("connect", 5), ("disconnect", 4), ("clear", 1)])
        if k == "clear":
            ops.append(("clear",))
        elif k == "connect":
            ops.append(("connect", rng.randrange(N_EL), rng.randrange(N_EV),
                        rng.choice([1, 2, 3]) if rng.random() < 0.15 else 100 + len(ops)))
        else:
            ops.append(("disconnect", rng.randrange(N_EL), rng.randrange(N_EV)))
    return ops


def e_op(o):
    if o[0] == "connect":
        return f"SConnect ({o[1]}, {o[2]}) {g_z(o[3])}"
    if o[0] == "disconnect":
        return f"SDisconnect ({o[1]}, {o[2]})"
    return "SClear"


def e_call(c):
    return f"{'GConnect' if c[0] == 'c' else 'GDisconnect'} ({c[1]}, {c[2]}) {g_z(c[3])}"


def run_schemes(factories, wanted):
    from mopidy.audio import utils

    class F:
        def __init__(self, protos):
            self.protos = protos

        def get_uri_protocols(self):
            return [f"s{p}" for p in self.protos]

    class Registry:
        @staticmethod
        def get():
            return Registry()

        def get_feature_list(self, _kind):
            return [F(p) for p in factories]

    Gst = utils.Gst
    had = "Registry" in Gst.__dict__
    old = Gst.__dict__.get("Registry")
    Gst.Registry = Registry
    try:
        res = utils.supported_uri_schemes({f"s{w}" for w in wanted})
    finally:
        if had:
            Gst.Registry = old
        else:
            del Gst.Registry
    return sorted(int(x[1:]) for x in res)


def run(chk):
    quick = chk.tier == "quick"
    rng = chk.rng
    # ---- Signals
    seqs = [[("connect", 0, 0, 7), ("connect", 0, 0, 8), ("connect", 0, 1, 7), ("connect", 1, 0, 7), ("disconnect", 0, 0),
             ("disconnect", 0, 0), ("connect", 0, 0, 9), ("clear",), ("clear",), ("disconnect", 1, 0)]]
    seqs += [gen_ops(rng) for _ in range(300 if quick else 4000)]
    cases = []
    for ops in seqs:
        obs = run_signals(ops)
        cases.append((ops, obs))
        chk.count(1, nontrivial_key="sig:" + repr(ops) if any(r for r, _ in obs) or any(o[0] == "clear" for o in ops) else None)
        for o in ops:
            chk.dist("signals:" + o[0])
        calls = [c for _, cs in obs for c in cs]
        conn = [(c[1], c[3]) for c in calls if c[0] == "c"]
        if len(conn) != len(set(conn)):
            # the same id handed out twice by one element (GObject never does): the element-side
            # log cannot tell which handler a disconnect means; only the correspondence applies
            chk.dist("signals:ambiguous-ids")
            continue
        left = balanced(calls)
        if left is None:
            chk.monitor_failure("signals_balanced", {"call": "Signals"}, "connect/disconnect calls on the elements are not balanced",
                                {"ops": ops})
        else:
            extra = run_signals(ops + [("clear",)])
            if balanced([c for _, cs in extra for c in cs]) != {}:
                chk.monitor_failure("signals_balanced", {"call": "Signals.clear"}, "handlers left connected after clear()", {"ops": ops})
    shards = [cases[i: i + 500] for i in range(0, len(cases), 500)]
    texts = [HEADER + "Definition cases : list (list sop * list (bool * list gcall)) :=\n "
             + g_list([f"({g_list([e_op(o) for o in ops])}, "
                       + g_list([f"({g_bool(r)}, {g_list([e_call(c) for c in cs])})" for r, cs in obs]) + ")"
                       for ops, obs in shard])
             + ".\nEval vm_compute in mismatches scase_ok cases.\n" for shard in shards]
    ok = True
    for shard, (rc, out) in zip(shards, vlib.coq_eval_many(AREA, texts)):
        bad = vlib.parse_nat_list(out)
        if rc != 0 or bad is None:
            ok = False
            chk.corr_failure("signals", {"shard": "coq evaluation failed"}, out[-1500:])
            continue
        for i in bad:
            ok = False
            chk.corr_failure("signals", {"ops": shard[i][0]}, {"impl": shard[i][1]})
    chk.obligation("corr:signals", "correspondence", ok)

    # ---- supported_uri_schemes
    sc = []
    for _ in range(200 if quick else 2000):
        factories = [[rng.randrange(8) for _ in range(rng.randint(0, 4))] for _ in range(rng.randint(0, 5))]
        wanted = rng.sample(range(8), rng.randint(0, 5))
        res = run_schemes(factories, wanted)
        sc.append((factories, wanted, res))
        chk.count(1, nontrivial_key=f"sch:{factories}:{sorted(wanted)}" if res else None)
        exp = sorted({p for f in factories for p in f} & set(wanted))
        if res != exp:
            chk.monitor_failure("supported_schemes", {"call": "supported_uri_schemes"}, f"{res} != {exp}",
                                {"factories": factories, "wanted": wanted})
    text = (HEADER + "Definition cases : list (list (list Z) * list Z * list Z) :=\n "
            + g_list([f"({g_list([g_list([str(p) for p in f]) for f in fs])}, {g_list([str(x) for x in w])}, {g_list([str(x) for x in r])})"
                      for fs, w, r in sc])
            + ".\nEval vm_compute in mismatches schemes_ok cases.\n")
    rc, out = vlib.coq_eval(AREA, text, name="schemes")
    bad = vlib.parse_nat_list(out)
    ok = rc == 0 and bad == []
    if not ok:
        chk.corr_failure("uri_schemes", {"cases": [sc[i] for i in (bad or [])[:3]]}, out[-800:] if bad is None else "")
    chk.dist("schemes:cases", len(sc))
    chk.obligation("corr:uri_schemes", "correspondence", ok)
