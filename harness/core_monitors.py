"""Implementation-side monitors for C01-C05 and C10: the property predicates evaluated on
the trace of a real execution (core_run.Runner.trace).  Each monitor yields
(monitor_name, key_dict, what, step_index)."""

from __future__ import annotations

PLAYBACK_OPS = {"play", "pause", "resume", "stop", "next", "previous", "seek", "deliver", "atf", "tick", "buffering",
                "getnext", "geteot", "getprev", "index", "filter", "slice", "setmode", "save",
                "setvolume", "setmute"}
DOC_ERRORS = {
    "add": {"ValidationError", "TracklistFull"},
    "move": {"AssertionError"},
    "shuffle": {"AssertionError"},
    "play": {"ValidationError"},
    "index": {"ValidationError"},
    "setvolume": {"ValidationError"},
}


def _prev_tl(trace, i):
    return trace[i - 1]["tl"] if i > 0 else []


def _clamp(n, i):
    if i < 0:
        i += n
    return 0 if i < 0 else min(i, n)


def _pyslice(l, s, e):
    return l[slice(s, e)]


# --------------------------------------------------------------------------- C01


def c01(case, trace):
    issued = set()
    max_len = case["max_len"]
    for i, t in enumerate(trace):
        op, before, after = t["op"], _prev_tl(trace, i), t["tl"]
        k = op[0]
        if k == "load":
            before = []
            # a new process: only the restored entries constrain the ids issued from now on
            issued = {x for x, _ in after}
        ret = t["ret"]
        ok = ret[0] not in (99,) and not (10 <= ret[0] < 99)
        tlids = [x for x, _ in after]
        if len(set(tlids)) != len(tlids):
            yield ("ids_unique", {"call": k}, "duplicate tlid in the tracklist", i)
        if len(after) > max_len:
            yield ("length_bounded", {"call": k}, "tracklist longer than max_tracklist_length", i)
        if k != "load" and t["version"] < t["version_before"]:
            yield ("version_monotone", {"call": k}, "tracklist version decreased", i)
        if k != "load" and before != after:
            names = [e[0] for e in t["events"]]
            if not (t["version"] > t["version_before"] and "tracklist_changed" in names):
                yield ("version_tracks_change", {"call": k},
                       "content changed without version increase + tracklist_changed", i)
        if not ok and t["exc"] in ("ValidationError", "AssertionError") and before != after:
            yield ("rejected_changes_nothing", {"call": k, "exc": t["exc"]},
                   "a rejected call changed the tracklist", i)
        if k == "add":
            new = [(ret[j], ret[j + 1]) for j in range(1, len(ret), 2)] if ret[0] == 4 else \
                  [x for x in after if x not in before]
            for tid, _ in new:
                if tid in issued:
                    yield ("ids_never_reissued", {"call": "add"}, "a tlid was issued twice", i)
                issued.add(tid)
            if before and new and min(x for x, _ in new) <= max(x for x, _ in before):
                yield ("ids_fresh", {"call": "add"}, "new tlid not above existing ones", i)
            if ret[0] == 4 or t["exc"] == "TracklistFull":
                want_tracks = [x for it in op[1] for x in (it if isinstance(it, list) else [it])][: len(new)]
                pos = op[2]
                p = len(before) if pos is None else _clamp(len(before), pos)
                expect = before[:p] + new + before[p:]
                shape = "neg" if (pos is not None and pos < 0) else ("none" if pos is None else "pos")
                if [trk for _, trk in new] != want_tracks or after != expect:
                    yield ("add_block", {"call": "add", "pos": shape}, "add did not insert one contiguous block at the position", i)
                ids = [x for x, _ in new]
                if ids != list(range(ids[0], ids[0] + len(ids))) if ids else False:
                    yield ("add_ids_consecutive", {"call": "add"}, "new tlids not consecutive", i)
        elif k == "clear" and ok:
            if after:
                yield ("clear_spec", {"call": "clear"}, "clear left entries", i)
        elif k == "move" and ok:
            s, e, p = op[1], op[2], op[3]
            if s == e:
                e += 1
            block = before[s:e]
            rest = before[:s] + before[e:]
            pp = min(p, len(rest))
            if after != rest[:pp] + block + rest[pp:]:
                yield ("move_spec", {"call": "move"}, "move did not relocate the slice keeping its order", i)
        elif k == "shuffle" and ok:
            s, e = op[1], op[2]
            lo = _pyslice(before, None, s or 0)
            mid = _pyslice(before, s, e)
            hi = [] if e is None else _pyslice(before, e, None)
            shape = {"end": "zero" if e == 0 else ("none" if e is None else "other")}
            if len(lo) + len(mid) + len(hi) != len(before) or lo + mid + hi != before:
                # the slices do not partition the list (e.g. negative end): permutation of whole list required
                if sorted(after) != sorted(before):
                    yield ("shuffle_perm", {"call": "shuffle", **shape}, "shuffle lost or duplicated entries", i)
            elif after[: len(lo)] != lo or (after[len(after) - len(hi):] if hi else []) != hi or \
                    sorted(after[len(lo): len(lo) + len(mid)]) != sorted(mid) or len(after) != len(before):
                yield ("shuffle_slice", {"call": "shuffle", **shape}, "shuffle touched entries outside the slice", i)
        elif k in ("remove", "filter") and ok:
            tl_ids, uris = op[1], op[2]
            match = [x for x in before if (tl_ids is None or x[0] in tl_ids) and (uris is None or x[1] in uris)]
            got = [(ret[j], ret[j + 1]) for j in range(1, len(ret), 2)]
            shape = {"tlid": "none" if tl_ids is None else ("empty" if not tl_ids else "some"),
                     "uri": "none" if uris is None else "some"}
            if got != match:
                yield (f"{k}_result", {"call": k, **shape}, f"{k} returned other entries than the matching ones", i)
            want_after = [x for x in before if x not in match] if k == "remove" else before
            if after != want_after:
                yield (f"{k}_effect", {"call": k, **shape}, f"{k} left a wrong tracklist", i)
        elif k == "slice" and ok:
            got = [(ret[j], ret[j + 1]) for j in range(1, len(ret), 2)]
            if got != before[op[1]: op[2]] or after != before:
                yield ("slice_spec", {"call": "slice"}, "slice does not report the list", i)
        elif k == "indexof" and ok:
            # an entry given as an object is found at its position; anything that is not an entry
            # (other tlid, other track, or an impostor with other metadata) is not found
            ntr = len(case["kinds"])
            want = None if op[3] else next((j for j, x in enumerate(before) if x == (op[1], op[2] % ntr)), None)
            got = None if ret[0] == 3 else ret[1]
            if got != want:
                yield ("index_spec", {"call": "indexof", "impostor": bool(op[3])},
                       "index(tl_track) does not report the position of exactly that entry", i)
        elif k == "index" and ok and op[1] is not None:
            want = next((j for j, x in enumerate(before) if x[0] == op[1]), None)
            got = None if ret[0] == 3 else ret[1]
            if got != want:
                yield ("index_spec", {"call": "index"}, "index does not report the position", i)


# --------------------------------------------------------------------------- C02


def c02(case, trace, settled=False):
    state = "stopped"
    hist_len = 0
    in_scope = True
    agreement_reported = False
    last_client = ("start", "stopped", False)
    lost_by = None     # how the core came to have no current entry (the kind of row where it lost it)
    for i, t in enumerate(trace):
        k = t["op"][0]
        if k == "load":
            state, hist_len = "stopped", None
        if t["current"] is not None or k == "load":
            lost_by = None
        elif i > 0 and trace[i - 1]["current"] is not None and k != "load":
            lost_by = "edit" if k in ("add", "remove", "move", "shuffle", "clear") else "notification" if k == "deliver" else "call"
        if t["exc"] and t["exc"] not in DOC_ERRORS.get(k, set()):
            yield ("schedule_no_raise", {"call": k, "exc": t["exc"]}, f"{k} raised {t['exc']}", i)
        started = 0
        for name, kw in t["events"]:
            if name == "playback_state_changed":
                if str(kw["old_state"]) != state:
                    yield ("state_chain", {"call": k}, "playback_state_changed chain has a gap", i)
                state = str(kw["new_state"])
                if kw.get("_seen_state") is not None and kw["_seen_state"] != state:
                    yield ("state_at_event", {"call": k},
                           f"while playback_state_changed(new_state={state}) was sent the core reported {kw['_seen_state']}", i)
                if state not in ("stopped", "playing", "paused"):
                    yield ("state_domain", {"call": k}, "state outside stopped/playing/paused", i)
            elif name == "track_playback_paused" and state != "paused":
                yield ("paused_in_state", {"call": k}, "track_playback_paused emitted while not paused", i)
            elif name == "track_playback_resumed" and state != "playing":
                yield ("resumed_in_state", {"call": k}, "track_playback_resumed emitted while not playing", i)
            elif name == "track_playback_started":
                started += 1
                if "_seen_current" in kw and kw["_seen_current"] != kw["tl_track"].tlid:
                    yield ("started_at_event", {"call": k},
                           f"while track_playback_started({kw['tl_track'].tlid}) was sent the core reported {kw['_seen_current']} as current", i)
        if t["state"] != state:
            yield ("state_chain_last", {"call": k}, "reported state differs from last announced state", i)
        if hist_len is not None and k not in ("load", "sethistory"):
            if len(t["history"]) != hist_len + started:
                yield ("started_feeds_history", {"call": k}, "history did not grow by one entry per started event", i)
            else:
                heads = [u for _, u in t["history"][:started]]
                evs = [kw["tl_track"].track.uri for n, kw in t["events"] if n == "track_playback_started"]
                if heads != list(reversed(evs)):
                    yield ("started_feeds_history", {"call": k}, "history head is not the started track", i)
        hist_len = len(t["history"])
        # ---- agreement clause (settled schedules only), with the property's scoping
        if settled:
            if k not in ("deliver",):
                last_client = (k, trace[i - 1]["state"] if i > 0 else "stopped",
                               (trace[i - 1]["current"] is not None) if i > 0 else False)
            before_tl = _prev_tl(trace, i)
            cur_before = trace[i - 1]["current"] if i > 0 else None
            if k in ("remove", "clear") and cur_before is not None and cur_before not in [x for x, _ in t["tl"]]:
                in_scope = False          # the client deleted the entry being played
            if k == "seek":
                ref = cur_before if cur_before is not None else (trace[i - 1]["pending"] if i > 0 else None)
                trk = dict(before_tl).get(ref)
                if trk is None:
                    # nothing was current: the track the seek is applied to is the one play()
                    # selects first (the head of the shuffle order in random mode) - the first
                    # track the backend was asked for during the call
                    trk = t["attempts"][0][0] if t["attempts"] else None
                ln = case["lens"][trk] if trk is not None else None
                if ln is None or t["op"][1] > ln or t["op"][1] < 0:
                    in_scope = False      # a seek outside the track
            if k in ("load", "save"):
                in_scope = False
        if settled and in_scope and t["queue_len"] == 0 and not t["diverged"] and not agreement_reported:
            cur = next((x for x in t["tl"] if x[0] == t["current"]), None)
            sounding = t["a_uri"] is not None and t["a_state"] == "playing"
            key = {"call": last_client[0], "from": last_client[1], "had_current": last_client[2]}
            if lost_by is not None:
                key["lost_current_by"] = lost_by
            if t["state"] == "playing" and t["current"] is not None and cur is not None:
                if not (t["a_uri"] == cur[1] and t["a_state"] == "playing"):
                    agreement_reported = True
                    yield ("agree_playing", key, "core says playing t but audio is not playing t's URI", i)
            elif t["state"] == "paused" and sounding:
                agreement_reported = True
                yield ("agree_paused", key, "core says paused but audio is running", i)
            elif t["state"] == "stopped" and sounding:
                agreement_reported = True
                yield ("agree_stopped", key, "core says stopped but audio produces sound", i)


# --------------------------------------------------------------------------- C03


def c03(case, trace, settled=False):
    """Frame rule on every run; predictions on settled runs, taken from the
    getnext/geteot/getprev op the generator inserts right before next/atf/previous."""
    for i, t in enumerate(trace):
        k = t["op"][0]
        before = _prev_tl(trace, i)
        consume_before = trace[i - 1]["modes"][0] if i > 0 else False
        if k in ("play", "pause", "resume", "stop", "next", "previous", "seek", "deliver", "atf", "tick", "buffering") \
                and not consume_before and not t["modes"][0] and before != t["tl"]:
            yield ("no_consume_frame", {"call": k}, "playback operation altered the tracklist with consume off", i)
        for hit in _retry_same_track(case, trace, i):
            yield ("skips_only_unplayable", hit[1], hit[2], hit[3])
        if i == 0:
            yield from _random_pass(case, trace)
        # "skipping only unplayable tracks": giving up while a playable candidate is left
        for hit in _gives_up_early(case, trace, i):
            yield ("skips_only_unplayable", hit[1], hit[2], hit[3])
        if settled and k == "next" and i > 0 and not t["exc"] and not t["diverged"]:
            # without repeat next() always moves on: to a following playable entry, or it stops
            # when none is left; it never leaves the old entry playing (unless the shuffle order
            # itself contains that entry again, e.g. after a tracklist edit)
            q = trace[i - 1]
            old = q["current"]
            if q["queue_len"] == 0 and old is not None and old in [x for x, _ in q["tl"]] and q["pending"] is None \
                    and q["state"] != "stopped" and not q["modes"][2] and old not in q.get("shuffled", []):
                j2 = i
                while j2 + 1 < len(trace) and trace[j2 + 1]["op"][0] == "deliver":
                    j2 += 1
                a2 = trace[j2]
                if a2["queue_len"] == 0 and not a2["diverged"] and a2["current"] == old and a2["state"] != "stopped":
                    yield ("next_moves_on", {"call": "next", "consume": bool(q["modes"][0]), "random": bool(q["modes"][1])},
                           "next() without repeat left the old entry current and not stopped", j2)
        if settled and k in ("next", "atf") and i > 0 and not t["exc"] and not t["diverged"]:
            # with repeat on (single, consume off) and a backend whose answers depend on the track
            # only, next() / the end of the track keeps playing as long as ANY entry is playable:
            # the retry budget (twice the tracklist length) covers the rest of this pass and the
            # whole next one
            q = trace[i - 1]
            used = sum(len(r["attempts"]) for r in trace[:i])
            audio_ok = k == "next" or (q["a_uri"] is not None and q["a_state"] == "playing" and not q.get("atf_done"))
            if q["queue_len"] == 0 and q["pending"] is None and q["state"] == "playing" and q["current"] is not None \
                    and q["modes"][2] and not q["modes"][3] and not q["modes"][0] and audio_ok \
                    and used >= len(case["script"]) \
                    and any(case["kinds"][trk] == "playable" for _, trk in q["tl"]):
                j3 = i
                while j3 + 1 < len(trace) and trace[j3 + 1]["op"][0] == "deliver":
                    j3 += 1
                a3 = trace[j3]
                if a3["queue_len"] == 0 and not a3["diverged"] and a3["state"] != "playing":
                    yield ("repeat_finds_playable", {"call": k, "random": bool(q["modes"][1])},
                           "repeat on and a playable entry exists, but playback did not continue", j3)
        pair = {"next": "getnext", "previous": "getprev", "atf": "geteot"}
        if settled and k in pair and i >= 2 and trace[i - 1]["op"][0] == pair[k] and trace[i - 1]["queue_len"] == 0:
            p = trace[i - 1]
            if p["exc"] or p["ret"][0] not in (2, 3):
                continue
            pred = None if p["ret"][0] == 3 else p["ret"][1]
            j = i
            while j + 1 < len(trace) and trace[j + 1]["op"][0] == "deliver":
                j += 1
            if k == "atf" and p["a_uri"] is not None and p["a_state"] == "paused" and not p.get("atf_done") \
                    and p["state"] == "paused":
                # announced while paused: the switch completes after resume (and, with nothing
                # preloaded, the end of the old stream)
                if not (j + 1 < len(trace) and trace[j + 1]["op"][0] == "resume"):
                    continue
                j += 1
                while j + 1 < len(trace) and trace[j + 1]["op"][0] in ("deliver", "eos"):
                    j += 1
                if t.get("atf_done") and not any(trace[x]["op"][0] == "eos" for x in range(i + 1, j + 1)):
                    continue  # nothing was preloaded: the old stream has not reached its end yet
            elif k == "atf" and not (p["a_uri"] is not None and p["a_state"] == "playing" and not p.get("atf_done")):
                continue
            a = trace[j]
            if a["queue_len"] != 0 or a["diverged"]:
                continue
            kind = {"next": "next", "previous": "previous", "atf": "eot"}[k]
            ptrk = dict(p["tl"]).get(pred)
            if ptrk is not None and case["kinds"][ptrk] != "playable":
                # an unplayable prediction is skipped: it must simply never become current
                if a["current"] == pred and a["state"] != "stopped":
                    yield (f"predict_{kind}", {"call": k, "unplayable": True}, "an unplayable predicted track became current", j)
                continue
            if any(not ok for r in trace[i: j + 1] for _, ok in r["attempts"]):
                continue  # a flaky refusal of the predicted track: the following candidate is taken
            msg = c03_prediction(pred, kind, p, a)
            if msg:
                m = p["modes"]
                if m[0] and m[1] and pred is not None and pred == p["current"]:
                    # next_track's random branch has no consume guard: after a reshuffle (repeat
                    # with the order used up, or any tracklist edit) the order contains the
                    # playing entry, which is announced although consume removes it when it ends
                    key = {"shape": "consume+random: the announced entry is the playing entry itself"}
                elif m[0] and m[2] and m[3] and kind == "eot" and pred is not None and pred == p["current"]:
                    key = {"shape": "consume+single+repeat: eot announces the playing entry itself"}
                else:
                    key = {"call": k, "modes": "".join("1" if x else "0" for x in m), "state": p["state"]}
                yield (f"predict_{kind}", key, msg, j)


def _random_pass(case, trace):
    """random: every entry is visited exactly once per pass.  `seen` = entries started since the
    last point where the implementation draws a complete new order (a tracklist_changed event,
    set_random(True)); None = no claim (not random, an unplayable entry or a refusal in the
    window, an error).  Each start is attributed to the request that made the entry pending:
    play(tlid) = explicit, the current entry again = restart, anything else (next, the end of
    the track, play without tlid from nothing) = the player's own selection.  An entry selected
    by the player must not have been started in this pass, unless the pass is used up (every
    entry started), which begins a new pass; and without repeat the player gives up only when
    the pass is used up."""
    seen = None
    req = None
    for i, t in enumerate(trace):
        k = t["op"][0]
        q = trace[i - 1] if i > 0 else None
        if k == "load":
            seen, req, q = None, None, None
        if t["exc"] or t["diverged"] or any(not ok for _, ok in t["attempts"]):
            seen = None
        tl_before = [x for x, _ in (q["tl"] if q else [])]
        for name, kw in t["events"]:
            if name == "tracklist_changed":
                seen = set()
            elif name == "track_playback_started":
                if seen is not None:
                    seen.add(kw["tl_track"].tlid)
        if k in ("getnext", "geteot") and seen is not None and q is not None and not t["exc"] \
                and tl_before and set(tl_before) <= seen and (t["modes"][2] or q["current"] is None) \
                and not (k == "geteot" and t["modes"][3]):
            # the predictors go through next_track as well: asked when the order is used up (and
            # repeat is on or nothing is current) they draw the new order - the new pass begins here
            seen = set()
        x = t["pending"]
        if x is not None and (q is None or x != q["pending"] or k in ("play", "next", "previous", "atf", "load")):
            if k == "load" or (k == "play" and len(t["op"]) > 1 and t["op"][1] == x):
                req = (x, "explicit")
            elif q is not None and x == q["pending"] and req is not None and req[0] == x:
                pass
            elif q is not None and x == q["current"] and (k not in ("next", "atf") or (k == "atf" and t["modes"][3])):
                # play()/seek()/previous() start the current entry again; so does the end of the
                # track under single+repeat.  next() and the end of a track otherwise never aim
                # at the current entry: when they select it, it is the head of the order
                req = (x, "restart")
            elif k in ("play", "next", "atf", "seek"):
                req = (x, "auto")
                # the player's own selection: the head of the order it drew; an entry started
                # since then has left that order, so it can be selected again only from a new
                # order, which is drawn only when the old one is used up
                if seen is not None and x in seen and not t["exc"] and not t["diverged"]:
                    if set(tl_before) <= seen:
                        seen = set()
                    else:
                        yield ("random_once_per_pass", {"what": "revisit"},
                               f"random: entry {x} was selected again although entries "
                               f"{sorted(set(tl_before) - seen)} of this pass have not been played", i)
                        seen = None
            else:
                req = (x, "explicit")
        if k == "setmode" and t["op"][1] == 1 and not t["exc"]:
            seen = set() if t["op"][2] else None
        if not t["modes"][1] or any(case["kinds"][trk] != "playable" for _, trk in t["tl"]):
            seen = None
        if seen is None or q is None or t["exc"] or t["diverged"]:
            continue
        gave_up = False
        if k == "next" and (q["current"] is not None or q["pending"] is not None) and t["current"] is None \
                and t["pending"] is None and t["state"] == "stopped" and t["tl"] == q["tl"] and not t["modes"][2]:
            gave_up = True
        if k == "atf" and q["state"] == "playing" and q["pending"] is None and q["current"] is not None \
                and q["a_uri"] is not None and q["a_state"] == "playing" and not q.get("atf_done") \
                and t["pending"] is None and t["tl"] == q["tl"] and not t["modes"][2] and not t["modes"][3] \
                and not any(n == "tracklist_changed" for n, _ in t["events"]):
            gave_up = True
        if gave_up and t["tl"] and not set(x for x, _ in t["tl"]) <= seen:
            yield ("random_once_per_pass", {"what": "skipped"},
                   f"random: the pass ended although entries {sorted(set(x for x, _ in t['tl']) - seen)} "
                   f"have not been played in it", i)
            seen = None


def c03_prediction(pred, kind, before, after_settled):
    """pred: tlid|None announced; returns failure text or None.  before/after are trace rows."""
    if before["current"] is None or before["current"] not in [x for x, _ in before["tl"]]:
        return None  # scope: settled on a track that is in the tracklist
    if before["pending"] is not None:
        return None  # a switch is under way (preloaded stream not started yet): not settled
    if kind == "eot" and before["state"] == "stopped":
        return None
    if after_settled["current"] != pred:
        return f"{kind}: predicted tlid {pred}, current became {after_settled['current']}"
    if kind in ("next", "previous") and pred is not None and after_settled["state"] != before["state"]:
        return f"{kind}: state changed from {before['state']} to {after_settled['state']}"
    return None


# --------------------------------------------------------------------------- C04


def c04(case, trace, slope=10, offset=40):
    for i, t in enumerate(trace):
        k = t["op"][0]
        n = len(_prev_tl(trace, i)) if k != "load" else len(t["tl"])
        if t["diverged"]:
            yield ("request_terminates", {"call": k}, f"{k} exceeded the watchdog budget (non-termination)", i)
        elif t["backend_calls"] > slope * n + offset:
            yield ("request_bounded", {"call": k},
                   f"{k} made {t['backend_calls']} backend interactions for a tracklist of {n}", i)


# --------------------------------------------------------------------------- C05


def c05(case, trace):
    last_attempt = {}
    ever = {}          # tlid -> track for every entry ever seen in the tracklist
    prov = {}          # tlid -> was the change that made it the pending entry accepted?
    prev_pending = None
    for i, t in enumerate(trace):
        k = t["op"][0]
        # tl before op, to map tlid -> track also for entries consumed during the op
        known = dict(_prev_tl(trace, i))
        known.update(dict(t["tl"]))
        ever.update(known)
        if k == "load":
            prov, prev_pending = {}, None
        prov_before = dict(prov)
        if t["pending"] is not None and (t["pending"] != prev_pending or t["attempts"]):
            ptrk = ever.get(t["pending"])
            outcomes = [ok for trk, ok in t["attempts"] if trk == ptrk]
            if outcomes and t["pending"] != prev_pending:
                prov[t["pending"]] = outcomes[-1]
            elif outcomes and outcomes[-1]:
                prov[t["pending"]] = True
        prev_pending = t["pending"]
        # an entry becomes the current one only through an accepted change: either it was the
        # pending entry of an accepted switch, or the switch was accepted in this very operation
        # (stopped state); a restored session starts a new process, where only its own attempts count
        prev_current = trace[i - 1]["current"] if (i > 0 and k != "load") else None
        if t["current"] is not None and t["current"] != prev_current and not t["diverged"]:
            ctrk = ever.get(t["current"])
            in_op = any(ok for trk, ok in t["attempts"] if trk == ctrk)
            if not in_op and prov_before.get(t["current"]) is not True and prov.get(t["current"]) is not True:
                yield ("current_only_if_accepted", {"call": k},
                       "an entry became the current one although no change to it was accepted", i)
        failed_in_op = [trk for trk, ok in t["attempts"] if not ok]
        # interleave: attempts and events are logged separately; started events in one op come
        # after the attempts of the same op in the core's control flow, except across a
        # delayed stream_changed (deliver) which has no attempts.
        for trk, ok in t["attempts"]:
            last_attempt[trk] = ok
        for name, kw in t["events"]:
            if name == "track_playback_started":
                trk = int(kw["tl_track"].track.uri.rsplit("t", 1)[1])
                dl = t.get("delivered")
                if k == "deliver" and dl is not None and dl[0] == "stream_changed":
                    # legitimate when the reported stream is the announced track's own URI (set_uri is
                    # only reached through an accepted change_track), or the latest change to that
                    # track was accepted (an older stream_changed may confirm a newer accepted switch),
                    # or the change that made this entry the pending one was accepted (a later,
                    # refused end-of-track attempt on the same entry does not take that back)
                    if (dl[1] is None or int(dl[1].rsplit("t", 1)[1]) != trk) and last_attempt.get(trk) is not True \
                            and prov.get(kw["tl_track"].tlid) is not True:
                        yield ("started_only_if_accepted", {"call": k},
                               "track_playback_started for a track the audio layer did not switch to "
                               "(its change attempt failed)", i)
                elif last_attempt.get(trk) is not True:
                    yield ("started_only_if_accepted", {"call": k},
                           "track_playback_started for a track whose last change attempt failed", i)
        if t["exc"] and t["exc"] not in DOC_ERRORS.get(k, set()):
            yield ("failure_contained", {"call": k, "exc": t["exc"]}, "backend failure surfaced as exception", i)
        if t["state"] == "playing" and t["current"] is not None:
            trk = known.get(t["current"])
            if trk is not None and last_attempt.get(trk) is not True and case["kinds"][trk] != "playable":
                yield ("current_playing_accepted", {"call": k}, "an unplayable track is the current playing track", i)
        if t["current"] is not None:
            trk = known.get(t["current"])
            if trk is not None and case["kinds"][trk] != "playable" and t["state"] != "stopped":
                yield ("failed_never_current", {"call": k}, "a failed track is reported as current", i)
        for hit in _retry_same_track(case, trace, i):
            yield hit
        for hit in _consume_drops_unplayable(case, trace, i):
            yield hit
        yield from _gives_up_early(case, trace, i)
        if t["modes"][0] and failed_in_op and k in ("play", "next", "previous", "atf") and not t["exc"] \
                and not t["diverged"] and i > 0 and trace[i - 1]["modes"][0]:
            # every retry loop calls _mark_unplayable on the candidate it could not switch to: under
            # consume that entry leaves the tracklist (checked for tracks with a single entry)
            before = _prev_tl(trace, i)
            after_trks = [trk for _, trk in t["tl"]]
            # entries that are current/pending but no longer in the tracklist are candidates too
            ghosts = [ever.get(x) for x in (trace[i - 1]["current"], trace[i - 1]["pending"])
                      if x is not None and x not in [y for y, _ in before]]
            for trk in failed_in_op:
                if trk in ghosts:
                    continue
                dropped = [x for x, y in before if y == trk and x not in [z for z, _ in t["tl"]]]
                if [x for _, x in before].count(trk) == 1 and dropped and t["current"] == dropped[0] \
                        and not any(ok for tk, ok in t["attempts"] if tk == trk):
                    # the refused entry has left the tracklist: it is not reported as current either
                    yield ("failed_never_current", {"call": k, "consume": True},
                           f"entry {dropped[0]} was refused during {k} and dropped under consume but is still reported as current", i)
                    break
                if [x for _, x in before].count(trk) == 1 and trk in after_trks:
                    yield ("consume_drops_refused", {"call": k, "single_entry": True},
                           f"track {trk} was refused during {k} under consume but is still in the tracklist", i)
                    break


def _gives_up_early(case, trace, i):
    """play / next / the end of the track try the FOLLOWING candidates: once every answer of the
    backend depends on the track only (the per-attempt script is used up), an operation whose
    candidates were all refused may give up only when no playable candidate is left in the
    direction it walks - the rest of the list (no consume, no repeat, in list order), the whole
    list (repeat: two rounds fit into the retry budget), or whatever consume has left (the
    refused entries leave the list, the walk goes on from the front)."""
    t = trace[i]
    k = t["op"][0]
    if k not in ("play", "next", "atf") or i == 0 or t["exc"] or t["diverged"] or not t["attempts"]:
        return
    if any(ok for _, ok in t["attempts"]):
        return
    q = trace[i - 1]
    m = q["modes"]
    if tuple(m) != tuple(t["modes"]) or (k == "atf" and m[3]):
        return
    if sum(len(r["attempts"]) for r in trace[:i]) < len(case["script"]):
        return
    playable_left = [x for x, trk in t["tl"] if case["kinds"][trk] == "playable"]
    if m[0]:
        if m[2] and not m[1] and len(t["tl"]) == 1:
            return   # consume+repeat never repeats a lone entry (next_track answers None by design)
        if playable_left:
            yield ("tries_following_candidates", {"call": k, "consume": True, "random": bool(m[1])},
                   f"{k} gave up after refused candidates although entries {playable_left} are playable", i)
        return
    if m[1]:
        return   # random without consume: only the rest of the current pass is tried
    if m[2]:
        if playable_left:
            yield ("tries_following_candidates", {"call": k, "repeat": True},
                   f"{k} gave up under repeat although entries {playable_left} are playable", i)
        return
    last = t["attempts"][-1][0]
    tracks = [trk for _, trk in t["tl"]]
    if tracks.count(last) != 1 or t["tl"] != q["tl"]:
        return
    j = tracks.index(last)
    later = [x for x, trk in t["tl"][j + 1:] if case["kinds"][trk] == "playable"]
    if later:
        yield ("tries_following_candidates", {"call": k},
               f"{k} gave up after the refused entry at index {j} although the later entries {later} are playable", i)


def _retry_same_track(case, trace, i):
    """play/next/previous/end-of-track try the FOLLOWING candidates: within one operation a track
    is not asked again and again (at most twice per tracklist entry: the loops allow a second
    pass over a reshuffled list)."""
    t = trace[i]
    if not t["attempts"] or t["op"][0] in ("load", "previous"):
        return  # previous() under repeat/consume/random re-selects the same track by design
    if t["op"][0] == "atf" and i > 0 and trace[i - 1]["modes"][2] and trace[i - 1]["modes"][3]:
        return  # single+repeat: the end-of-track successor is the track itself, by design
    before = _prev_tl(trace, i)
    mult = {}
    for _, trk in before:
        mult[trk] = mult.get(trk, 0) + 1
    seen = {}
    for trk, ok in t["attempts"]:
        seen[trk] = seen.get(trk, 0) + 1
    for trk, n in seen.items():
        loops = 2 if t["op"][0] == "seek" else 1   # seek may run play() and then next()
        # 2*len iterations can span the rest of one shuffle order, a full pass and part of a third
        if n > loops * 3 * max(mult.get(trk, 1), 1):
            yield ("tries_following_candidates", {"call": t["op"][0], "random": bool(t["modes"][1])},
                   f"track {trk} was asked {n} times in one operation instead of moving on to the next candidate", i)
            return


def _consume_drops_unplayable(case, trace, i):
    """consume on, sequential order: when next/end-of-track moved past entries whose backend can
    never play them, those entries are no longer in the tracklist."""
    t = trace[i]
    k = t["op"][0]
    if k not in ("next", "atf") or i == 0 or t["exc"] or t["diverged"]:
        return
    p = trace[i - 1]
    if not (p["modes"][0] and t["modes"][0]) or p["modes"][1] or p["modes"][2] or p["modes"][3]:
        return  # consume on, random/repeat/single off
    if k == "atf" and not (p["a_uri"] is not None and p["a_state"] == "playing" and p["state"] != "stopped"):
        return
    # next() starts from the pending-or-current entry, the end-of-track handler from the current one
    ref = p["current"] if k == "atf" else (p["pending"] if p["pending"] is not None else p["current"])
    new = t["pending"] if t["pending"] is not None else t["current"]
    ids = [x for x, _ in p["tl"]]
    if ref is None or new is None or ref not in ids or new not in ids or new == ref:
        return
    a, b = ids.index(ref), ids.index(new)
    if b <= a:
        return
    skipped = [(tid, trk) for tid, trk in p["tl"][a + 1: b] if case["kinds"][trk] != "playable"]
    left = [tid for tid, _ in skipped if tid in [x for x, _ in t["tl"]]]
    if left:
        yield ("consume_drops_refused", {"call": k}, f"unplayable entries {left} were skipped but not dropped under consume", i)


# --------------------------------------------------------------------------- C10


def c10(case, trace):
    """For each save→load pair: compare the settled state after load with the state at save."""
    for i, t in enumerate(trace):
        if t["op"][0] != "load":
            continue
        sv = next((j for j in range(i - 1, -1, -1) if trace[j]["op"][0] == "save"), None)
        if sv is None or any(trace[j]["op"][0] == "load" for j in range(sv + 1, i)):
            continue
        if t["exc"]:
            yield ("restore_total", {"exc": t["exc"], "unlink_fails": len(t["op"]) > 2 and bool(t["op"][2])},
                   f"the restore raised {t['exc']}", i)
        cov = dict(zip(["tracklist", "mode", "play-last", "mixer", "history"], t["op"][1]))
        s = trace[sv]
        # settled row: last consecutive deliver after the load
        j = i
        while j + 1 < len(trace) and trace[j + 1]["op"][0] == "deliver":
            j += 1
        a = trace[j]
        key = {"cov": "all" if all(cov.values()) else "subset"}
        failed_restore = any(ok is False for r in trace[i: j + 1] for _, ok in r["attempts"])
        if cov["tracklist"]:
            consuming = cov["mode"] and s["modes"][0]   # playback that goes on after the restore consumes entries
            if t["tl"] != s["tl"] and not (failed_restore and s["modes"][0]):
                yield ("restore_tracklist", key, "tracklist (tracks, order, tlids) not restored", i)
            elif a["tl"] != s["tl"] and not consuming:
                yield ("restore_tracklist", key, "tracklist (tracks, order, tlids) not restored", j)
        elif a["tl"]:
            yield ("coverage_default", {"section": "tracklist"}, "tracklist restored although not selected", j)
        if cov["mode"]:
            if a["modes"] != s["modes"]:
                yield ("restore_modes", key, "consume/random/repeat/single not restored", j)
        elif any(a["modes"]):
            yield ("coverage_default", {"section": "mode"}, "modes restored although not selected", j)
        if cov["mixer"]:
            if (s["volume"] is not None and a["volume"] != s["volume"]) or \
               (s["mute"] is not None and a["mute"] != s["mute"]):
                yield ("restore_mixer", key, "volume/mute not restored", j)
        elif a["volume"] is not None or a["mute"] is not None:
            yield ("coverage_default", {"section": "mixer"}, "mixer restored although not selected", j)
        if cov["history"]:
            if a["history"][len(a["history"]) - len(s["history"][:500]):] != s["history"][:500] and \
               [h for h in a["history"] if h in s["history"]] != s["history"][:500]:
                yield ("restore_history", key, "play history not restored", j)
        elif len(a["history"]) > sum(1 for r in trace[i: j + 1] for n, _ in r["events"] if n == "track_playback_started"):
            yield ("coverage_default", {"section": "history"}, "history restored although not selected", j)
        if cov["tracklist"] and cov["play-last"] and s["state"] in ("playing", "paused") and s["current"] is not None:
            trk = dict(s["tl"]).get(s["current"])
            if trk is not None and case["kinds"][trk] == "playable" and a["queue_len"] == 0 \
                    and not any(ok is False for r in trace[i: j + 1] for _, ok in r["attempts"]):
                ln = case["lens"][trk]
                if ln is not None and s["pos"] > ln:
                    pass  # a position beyond the track length cannot be restored (seek moves on)
                elif a["current"] != s["current"] or a["state"] != s["state"]:
                    yield ("restore_playback", key,
                           f"was {s['state']} on tlid {s['current']}, came back {a['state']} on {a['current']}", j)
                elif case["lens"][trk] is not None and s["pos"] <= case["lens"][trk] and a["pos"] != s["pos"]:
                    yield ("restore_position", {**key, "pos": "zero" if s["pos"] == 0 else "nonzero",
                                                "state": s["state"]},
                           f"saved position {s['pos']} came back as {a['pos']}", j)
                elif ln is not None and s["queue_len"] == 0 and s["pending"] is None and s["a_uri"] == trk \
                        and s.get("a_pos") is not None and s["a_pos"] <= ln and a.get("a_pos") != s["a_pos"]:
                    # the oracle is the audio layer itself: where the stream really was at the save
                    yield ("restore_position", {**key, "pos": "audio", "state": s["state"]},
                           f"the stream was at {s['a_pos']} when the session was saved, it came back at {a.get('a_pos')}", j)
        elif not cov["play-last"] and a["state"] != "stopped":
            yield ("coverage_default", {"section": "play-last"}, "playback restored although not selected", j)
        if cov["tracklist"] and not t["exc"]:
            # IDs issued after the restore never collide with restored ones
            restored = {x for x, _ in t["tl"]}
            for m in range(i + 1, len(trace)):
                r = trace[m]
                if r["op"][0] == "load":
                    break
                ids = [x for x, _ in r["tl"]]
                if r["op"][0] == "add" and r["ret"][0] == 4:
                    new_ids = r["ret"][1::2]
                    if restored & set(new_ids):
                        yield ("restore_ids_fresh", key,
                               f"add() after the restore issued {sorted(restored & set(new_ids))}, which the restored tracklist already uses", m)
                        break
                if len(ids) != len(set(ids)):
                    yield ("restore_ids_fresh", key, f"two entries share a tracklist ID after the restore: {ids}", m)
                    break
