"""C09 - requests route by URI scheme; misbehaving backends and mixers are isolated.

Model:      coq/Routing/Model.v   (Backends construction, library / playlists / mixer controllers)
Theorems:   coq/Routing/Property_C09.v
Tie:        every generated case (population of scripted fake backends + one core request) is run
            against the real controllers (harness/c09_impl.py) and against the model inside Coq
            (vm_compute); compared: outcome (value or exception class) and provider call log.
Monitors:   the theorem predicates evaluated in Python on the real execution (c09_monitors.py),
            including the two-run non-interference comparison.
"""

from __future__ import annotations

import copy
import json
import shutil
import subprocess
import tempfile
from pathlib import Path

import c09_gen as G
import c09_monitors as M
from common import vlib

AREA = "Routing"
PROP_FILES = ["Property_C09.v"]
SHARD = 400


def load_corpus():
    out = []
    d = vlib.VERIF / "corpus" / "C09"
    for f in sorted(d.glob("*.json")):
        data = json.loads(f.read_text())
        for c in data if isinstance(data, list) else [data]:
            c.setdefault("mixer", None)
            out.append(c)
    return out


def replay_cases(path):
    data = json.loads(Path(path).read_text())
    found = []

    def walk(x):
        if isinstance(x, dict):
            if "backends" in x and "op" in x:
                x.setdefault("mixer", None)
                found.append(x)
            else:
                for v in x.values():
                    walk(v)
        elif isinstance(x, list):
            for v in x:
                walk(v)

    walk(data.get("case"))
    walk(data.get("correspondence_failures"))
    uniq = []
    for c in found:
        if c not in uniq:
            uniq.append(c)
    return uniq


def run_cases(chk, cases, label, old_model=False, runner=None):
    """Run implementation + monitors on each case, then the model inside Coq on all of them.
    runner: how the backends are presented to the core (default: synchronous fake proxies)."""
    import c09_emit as E
    import c09_impl as I

    runner = runner or I.run_case
    rows = []
    for idx, case in enumerate(cases):
        obs = runner(case, salt=idx)
        M.check_case(chk, case, obs, I, salt=idx, runner=runner)
        try:
            term = E.case_term(case, obs)
        except E.Unencodable as e:
            chk.corr_failure("routing", case, f"observation outside the model's vocabulary: {e}")
            continue
        rows.append((case, obs, term, None if case["op"]["name"] == "raw" else E.events_term(case, obs)))
        chk.count(1, nontrivial_key=G.nontrivial_key(case, obs))
        chk.dist("op:" + case["op"]["name"] + (":" + case["op"]["raw"] if case["op"]["name"] == "raw" else ""))
        chk.dist("backends:%d" % len(case["backends"]))
        chk.dist("outcome:" + (obs["outcome"][0] if obs["outcome"][0] == "ok" else "raise-" + obs["outcome"][1]))
        for f in G.fault_tags(case, obs):
            chk.dist("fault:" + f)
    for case, obs, _, _ in rows[:3]:
        chk.sample({"case": case, "observed": {"outcome": obs["outcome"], "log": obs["log"]}})
    raw = bool(rows) and rows[0][0]["op"]["name"] == "raw"
    assert all((r[0]["op"]["name"] == "raw") == raw for r in rows), "raw and typed cases are evaluated separately"
    shards = [rows[i : i + SHARD] for i in range(0, len(rows), SHARD)]
    fn = "rcase_ok" if raw else "case_ok_old" if old_model else "case_ok"
    texts = [
        vlib.COQ_HEADER
        + "From Common Require Import Res Cases.\nFrom Routing Require Import Model Obs Spec Validation Front ObsFront.\n"
        + f"Definition cases : list {'rcase' if raw else 'case'} :=\n " + vlib.g_list([r[2] for r in shard]) + ".\n"
        + f"Eval vm_compute in mismatches {fn} cases.\n"
        # the theorem predicate Spec.trace_ok_b (proved for every model observation:
        # C09_trace_predicate_holds) evaluated on the IMPLEMENTATION's observations
        + f"Eval vm_compute in mismatches {'rtrace_ok_case' if raw else 'trace_ok_case'} cases.\n"
        # the core events recorded at mopidy.listener.send against Spec.events_spec
        + ("" if raw else "Definition evs : list (list event) :=\n " + vlib.g_list([r[3] for r in shard]) + ".\n"
           "Eval vm_compute in mismatches events_ok (combine cases evs).\n")
        for shard in shards
    ]
    results = vlib.coq_eval_many(AREA, texts, jobs=12)
    ok = True
    for shard, (rc, out) in zip(shards, results):
        lists = vlib.parse_all_lists(out)
        if rc != 0 or len(lists) != (2 if raw else 3):
            ok = False
            chk.corr_failure("routing", {"shard": f"coq evaluation failed ({label})"}, out[-2000:])
            continue
        bad, bad_trace = lists[0], lists[1]
        for i in (lists[2] if len(lists) > 2 else []):
            case, obs = shard[i][0], shard[i][1]
            chk.monitor_failure("coq_events_ok", {"call": case["op"]["name"]},
                                f"the events {obs.get('events')} are not the ones Spec.events_spec derives from the "
                                f"validated outcome {obs['outcome']}",
                                {"case": case, "observed": {"outcome": obs["outcome"], "events": obs.get("events")}})
        for i in bad:
            ok = False
            case, obs = shard[i][0], shard[i][1]
            chk.corr_failure("routing", case, {"impl_outcome": obs["outcome"], "impl_log": obs["log"]})
        for i in bad_trace:
            case, obs = shard[i][0], shard[i][1]
            chk.monitor_failure("coq_trace_ok", {"call": case["op"]["name"]},
                                "Spec.trace_ok_b (keys exact / routing sound / unknown scheme empty / typed entries / "
                                "raise shape) is false on the implementation's observation",
                                {"case": case, "observed": {"outcome": obs["outcome"], "log": obs["log"]}})
    return ok


SCHEME_ALPHABET = list("aAbZz09+-.:/ \t\n\r\x00\x1f\x7f?#%@") + ["é", "İ", "ß", "\u00a0", "\u2028", "[", "]", "::", "a:", ":a"]


def scheme_stage(chk):
    """Scheme.scheme_of (transcription of urlsplit's scheme logic) against urlparse on odd strings."""
    import urllib.parse

    from common.vlib import g_list, g_str

    n = 2000 if chk.tier == "quick" else 30000
    rng = vlib.Rng(chk.seed, "C09-scheme")
    strings = ["", ":", "a", "a:", ":a", "A:b", " a:b", "\ta:b", "a\t:b", "a\nb:c", "1a:b", "a1+.-:x", "a b:c", "é:x",
               "aé:x", "a:b:c", "\x00\x1f a:b", "a\x00:b", "a:\n", "file:///x", "HTTP://h", "a%41:b", "a/b:c"]
    for _ in range(n):
        if rng.random() < 0.4:
            strings.append("".join(rng.choice(SCHEME_ALPHABET) for _ in range(rng.randint(0, 7))))
            continue
        lead = "".join(rng.choice(" \t\n\x00\x1f") for _ in range(rng.weighted([(0, 5), (1, 2), (3, 1)])))
        body = "".join(rng.choice("abzABZ09+-.") for _ in range(rng.randint(1, 6)))
        if rng.random() < 0.35:  # one disturbance inside the would-be scheme
            i = rng.randrange(len(body) + 1)
            body = body[:i] + rng.choice(["\t", "\n", "\r", " ", "é", "/", "%", "_", "\x00", ":"]) + body[i:]
        tail = "".join(rng.choice(SCHEME_ALPHABET) for _ in range(rng.randint(0, 5)))
        strings.append(lead + body + ":" + tail)
    rows, raised = [], 0
    for s in strings:
        try:
            rows.append((s, urllib.parse.urlparse(s).scheme))
        except ValueError:  # unbalanced IPv6 brackets in the netloc: outside the transcribed part
            raised += 1
    chk.dist("scheme-strings", len(rows))
    chk.dist("scheme-strings-urlparse-raises", raised)
    chk.dist("scheme-strings-with-scheme", sum(1 for _, x in rows if x))
    chk.count(len(rows))
    shards = [rows[i : i + 1000] for i in range(0, len(rows), 1000)]
    texts = [vlib.COQ_HEADER + "From Common Require Import Str Cases.\nFrom Routing Require Import Model Obs Spec.\n"
             + "Definition cases : list (str * str) :=\n "
             + g_list([f"({g_str(a)}, {g_str(b)})" for a, b in shard]) + ".\n"
             + "Eval vm_compute in mismatches scheme_case_ok cases.\n" for shard in shards]
    ok = True
    for shard, (rc, out) in zip(shards, vlib.coq_eval_many(AREA, texts, jobs=12)):
        bad = vlib.parse_nat_list(out)
        if rc != 0 or bad is None:
            ok = False
            chk.corr_failure("scheme", {"shard": "coq evaluation failed"}, out[-1500:])
            continue
        for i in bad:
            ok = False
            chk.corr_failure("scheme", {"string": shard[i][0], "urlparse_scheme": shard[i][1]})
    chk.obligation("corr:scheme", "correspondence", ok)


def constants_stage(chk):
    """validation.SEARCH_FIELDS / DISTINCT_FIELDS and the harness's query dicts against the
    model's copies (Front.search_fields, distinct_field_table, squery_val)."""
    import c09_emit as E
    import c09_impl as I
    import c09_validation as V
    from common.vlib import g_list, g_str
    from mopidy.internal import validation

    sf = g_list([g_str(k) for k in validation.SEARCH_FIELDS])
    df = g_list([f"({g_str(k)}, {'true' if t is int else 'false'})" for k, t in validation.DISTINCT_FIELDS.items()])
    toks = g_list([f"({E.SQUERY[tok]}, {V.spec_term(V.spec_of(I.QUERIES[tok]))})" for tok in E.SQUERY])
    text = (vlib.COQ_HEADER + "From Common Require Import Res Str Cases.\n"
            "From Routing Require Import Model Validation Front ObsFront.\n"
            f"Eval vm_compute in (if consts_ok {sf} {df} then @nil Z else [1]).\n"
            f"Eval vm_compute in mismatches token_ok {toks}.\n")
    rc, out = vlib.coq_eval(AREA, text, name="consts")
    lists = vlib.parse_all_lists(out)
    ok = rc == 0 and lists == [[], []]
    if not ok:
        chk.corr_failure("constants", {"validation.py constants or query dicts": "differ from Front.v"}, out[-1500:])
    chk.obligation("corr:constants", "correspondence", ok)


def _without_base(x):
    """A BaseException raised inside a pykka actor stops the actor system: not scripted here."""
    if isinstance(x, list):
        return ["raise", "exception"] if x == ["raise", "base"] else [_without_base(y) for y in x]
    if isinstance(x, dict):
        return {k: _without_base(v) for k, v in x.items()}
    return x


def real_backend_cases(chk):
    """Populations expressible by provider presence: every subset of {library, library with
    browse, playback, playlists} on a backend next to a fully equipped one, under every request
    kind; plus generated populations restricted to consistent subsets."""
    T = lambda i: ["track", i, True]  # noqa: E731
    full = {"lookup_many": ["map", [["b:1", [T(2001)]]]], "get_images": ["map", [["b:1", [["image", 2001, True]]]]],
            "search": ["val", "search", 2001], "root_directory": ["val", "ref", 2001], "browse": ["list", [["ref", 2002, True]]],
            "get_distinct": ["list", [["str", 2001, True]]], "as_list": ["list", [["ref", 2003, True]]],
            "create": ["val", "playlist", 2001], "get_items": ["list", [["ref", 2004, True]]],
            "pl_lookup": ["val", "playlist", 2002], "save": ["val", "playlist", 2003], "delete": ["bool", True]}
    mine = {"lookup_many": ["map", [["a:1", [T(1001)]]]], "get_images": ["map", [["a:1", [["image", 1001, True]]]]],
            "search": ["val", "search", 1001], "root_directory": ["val", "ref", 1001], "browse": ["list", [["ref", 1002, True]]],
            "get_distinct": ["list", [["str", 1001, True]]], "as_list": ["list", [["ref", 1003, True]]],
            "create": ["val", "playlist", 1001], "get_items": ["list", [["ref", 1004, True]]],
            "pl_lookup": ["val", "playlist", 1002], "save": ["val", "playlist", 1003], "delete": ["bool", True]}
    ops = [{"name": "lookup", "uris": ["a:1", "b:1"]}, {"name": "get_images", "uris": ["b:1", "a:1"]},
           {"name": "search", "query": "good", "uris": None, "exact": False},
           {"name": "search", "query": "good", "uris": ["a:1"], "exact": False},
           {"name": "browse", "uri": None}, {"name": "browse", "uri": "a:1"},
           {"name": "get_distinct", "field": "artist", "query": "none"}, {"name": "refresh", "uri": None},
           {"name": "refresh", "uri": "a:1"}, {"name": "as_list"}, {"name": "get_items", "uri": "a:1"},
           {"name": "pl_lookup", "uri": "a:1"}, {"name": "create", "pname": "p1", "scheme": "a"},
           {"name": "create", "pname": "p1", "scheme": None}, {"name": "save", "pname": "p1", "uri": "a:1"},
           {"name": "delete", "uri": "a:1"}, {"name": "pl_refresh", "scheme": "a"}, {"name": "pl_refresh", "scheme": None},
           {"name": "get_uri_schemes"}, {"name": "core_schemes"}]
    cases = []
    for lib, browse in ((False, False), (True, False), (True, True)):
        for playback in (False, True):
            for playlists in (False, True):
                for op in ops:
                    cases.append({"backends": [
                        {"schemes": ["a", "c"], "info_ok": True, "lib": lib, "browse": browse, "playback": playback,
                         "playlists": playlists, "answers": dict(mine)},
                        {"schemes": ["b"], "info_ok": True, "lib": True, "browse": True, "playback": True,
                         "playlists": True, "answers": dict(full)}], "mixer": None, "op": copy.deepcopy(op)})
    rng = vlib.Rng(chk.seed, "C09-real-classes")
    n = 250 if chk.tier == "quick" else 3000
    while n > 0:
        c = _without_base(G.gen_case(rng))
        if c["op"]["name"] in ("get_volume", "set_volume", "get_mute", "set_mute", "construct"):
            continue
        for i, b in enumerate(c["backends"]):
            b["info_ok"] = True
            b["browse"] = b["browse"] and b["lib"]
            if b["browse"]:
                b["answers"]["root_directory"] = ["val", "ref", 1000 * (i + 1) + 1]
        cases.append(c)
        n -= 1
    return cases


def real_backend_stage(chk):
    """The backends as real subclasses of mopidy.backend.Backend (inherited has_library /
    has_library_browse / has_playback / has_playlists, real provider base classes, real pykka
    actors and proxies): the capability methods of the base class feed the routing tables, so
    they are part of what C09 depends on although core/ does not contain them."""
    import c09_pykka as K

    cases = real_backend_cases(chk)
    assert all(K.real_class_case_ok(c) for c in cases)
    for c in cases:
        for b in c["backends"]:
            b["_real_class"] = True  # emitted as Model.backend_of (providers set), not as raw flags
    chk.dist("real-backend-class-cases", len(cases))
    ok = run_cases(chk, cases, "real-backend-classes", runner=K.run_case_real)
    chk.obligation("corr:real_backend_classes", "correspondence", ok)


def pykka_stage(chk):
    """The synchronous fake proxies against the same scripts run as real pykka ThreadingActors
    behind real proxies: both must give the controllers the same observation."""
    import c09_impl as I
    import c09_pykka as K

    n = 300 if chk.tier == "quick" else 4000
    rng = vlib.Rng(chk.seed, "C09-pykka")
    cases = [_without_base(c) for c in G.sweep_cases()[:: (4 if chk.tier == "quick" else 1)]]
    cases += [_without_base(G.gen_case(rng)) for _ in range(n)]
    ok = True
    for idx, case in enumerate(cases):
        a = I.run_case(copy.deepcopy(case), salt=idx)
        b = K.run_case_pykka(copy.deepcopy(case), salt=idx)
        if a != b:
            ok = False
            chk.corr_failure("pykka_proxies", case, {"fake_proxies": a, "pykka_actors": b})
    chk.count(len(cases))
    chk.dist("pykka-actor-cases", len(cases))
    chk.obligation("corr:pykka_proxies", "correspondence", ok)


FIRST_FIX = "402e4a8"  # library.py of its parent commit is the code modelled by run_old


def old_code_stage(chk, n):
    """Thorough tier: the model of the pre-fix lookup/get_images (run_old, subject of the
    *_old_*_refuted theorems) against library.py as it was before the fix: commits."""
    import c09_emit as E

    tmp = Path(tempfile.mkdtemp(prefix="verif-c09-old-"))
    try:
        p = subprocess.run(["git", "-C", str(vlib.REPO), "show", f"{FIRST_FIX}^:src/mopidy/core/library.py"],
                           capture_output=True, text=True, check=False)
        if p.returncode != 0 or "def lookup" not in p.stdout:
            chk.notes.append("old-code stage skipped: pre-fix library.py not available from git")
            return
        shutil.copytree(vlib.REPO / "src", tmp / "src", ignore=shutil.ignore_patterns("__pycache__"))
        (tmp / "src/mopidy/core/library.py").write_text(p.stdout)
        env = vlib.impl_env()
        env["VERIF_REPO"] = str(tmp)
        env["PYTHONPATH"] = f"{tmp}/src:{vlib.FAKEGI}:{vlib.VERIF}/harness"
        r = subprocess.run([vlib.PY, "-B", str(vlib.VERIF / "harness/c09_oldrun.py"), str(n), str(chk.seed)],
                           env=env, capture_output=True, text=True, timeout=900, check=False)
        if r.returncode != 0:
            chk.obligation("corr:routing_old", "correspondence", False, r.stderr[-1500:])
            return
        rows = json.loads(r.stdout)
    finally:
        shutil.rmtree(tmp, ignore_errors=True)
    terms, kept = [], []
    for case, obs in rows:
        try:
            terms.append(E.case_term(case, obs))
            kept.append((case, obs))
        except E.Unencodable:
            continue
    shards = [terms[i : i + SHARD] for i in range(0, len(terms), SHARD)]

    def text(fn, shard):
        return (vlib.COQ_HEADER + "From Common Require Import Res Cases.\nFrom Routing Require Import Model Obs Spec.\n"
                + "Definition cases : list case :=\n " + vlib.g_list(shard) + ".\n"
                + f"Eval vm_compute in mismatches {fn} cases.\n")

    res_old = vlib.coq_eval_many(AREA, [text("case_ok_old", s) for s in shards], jobs=12)
    res_new = vlib.coq_eval_many(AREA, [text("case_ok", s) for s in shards], jobs=12)
    ok, differ = True, 0
    for i, ((rc, out), (rc2, out2)) in enumerate(zip(res_old, res_new)):
        bad, bad2 = vlib.parse_nat_list(out), vlib.parse_nat_list(out2)
        if rc != 0 or bad is None or rc2 != 0 or bad2 is None:
            ok = False
            chk.notes.append("old-code stage: coq evaluation failed: " + (out + out2)[-500:])
            continue
        differ += len(bad2)
        for k in bad:
            ok = False
            case, obs = kept[i * SHARD + k]
            chk.notes.append("old model differs from the pre-fix code on: " + json.dumps([case, obs["outcome"]])[:1500])
    chk.count(len(kept))
    chk.dist("old-code-cases", len(kept))
    chk.dist("old-code-cases-where-fixed-model-differs", differ)
    # the pre-fix code must be distinguishable from the present model, otherwise the
    # refutations would be about nothing
    chk.obligation("corr:routing_old", "correspondence", ok and differ > 0,
                   "" if ok else "run_old disagrees with the pre-fix library.py")


def search_hook_factory(chk):
    def hook(cf):
        """Directed search: perturb the disagreeing case and evaluate the monitors."""
        import c09_impl as I

        case = cf["case"]
        if "backends" not in case:
            return None
        rng = vlib.Rng(chk.seed, "C09-search")
        probe = vlib.Check(chk.prop, chk.area, tier=chk.tier, seed=chk.seed)
        for i in range(600):
            mutant = G.mutate_case(rng, copy.deepcopy(case)) if i else copy.deepcopy(case)
            obs = I.run_case(mutant, salt=i)
            M.check_case(probe, mutant, obs, I, salt=i)
            fresh = [mf for mf in probe.monitor_failures
                     if not any(vlib.finding_matches(e, mf["monitor"], mf["key"])
                                for e in vlib.load_findings(chk.prop))]
            if fresh:
                return fresh[0]
            probe.monitor_failures.clear()
        return None

    return hook


def run(chk):
    chk.rule = ("one case = a population of 0-4 scripted backends (schemes, provider flags, one scripted answer "
                "per provider method) + optional mixer + one core request; non-trivial = at least two registered "
                "backends, the request reaches at least one provider, and at least one called provider "
                "misbehaves (raise / None / wrong type / ill-typed entry / foreign key); distinct by case value")
    chk.trusted_base = [
        "Coq 8.16.1 kernel + vm_compute (no native_compute)",
        "harness/c09*.py: generator, scripted fake backend/mixer proxies (futures with .get()), Gallina emitter, "
        "canonicalisation of results and call log",
        "urllib.parse.urlparse(uri).scheme: transcribed in coq/Routing/Scheme.v and compared with urlparse on every "
        "URI of every case and on a stream of odd strings; scheme ids are interned by the harness",
    ]
    chk.assumptions = [
        "pykka proxies/futures are scripted as synchronous fakes whose .get() raises or returns; the fakes are "
        "compared with real pykka ThreadingActors behind real proxies on a sample of the cases (corr:pykka_proxies); "
        "a further part of the populations is built from real mopidy.backend.Backend subclasses with inherited "
        "has_* capability methods (corr:real_backend_classes)",
        "pydantic model classes: only isinstance() and .uri truthiness are modelled",
        "validation of the caller's own arguments (query/field/URI syntax) is an oracle: enumerated argument "
        "classes, URI scheme 0 = rejected by check_uri",
        "events sent by the playlists controller and log output are not observed",
    ]
    chk.proof_stage(PROP_FILES, thorough_coqchk=(chk.tier == "thorough"))
    vlib.setup_impl()
    import c09_impl as I  # noqa: F401

    chk.search_hook = search_hook_factory(chk)
    if chk.replay:  # ./check C09 --replay replays/C09-<hash>.json : only the recorded case(s)
        cases = replay_cases(chk.replay)
        chk.dist("replayed", len(cases))
        typed = [c for c in cases if c["op"]["name"] != "raw"]
        raws = [c for c in cases if c["op"]["name"] == "raw"]
        ok = (not typed or run_cases(chk, typed, "replay")) and (not raws or run_cases(chk, raws, "replay-raw"))
        chk.obligation("corr:routing", "correspondence", ok)
        M.finish(chk, I)
        return
    cases = load_corpus()
    chk.dist("corpus", len(cases))
    cases += G.sweep_cases()
    if chk.tier == "thorough":
        pairs = G.sweep_cases(pairs=True)
        chk.dist("sweep-fault-pairs", len(pairs))
        cases += pairs
    n = 2500 if chk.tier == "quick" else 30000
    rng = chk.rng
    cases += [G.gen_case(rng) for _ in range(n)]
    ok = run_cases(chk, cases, "main")
    chk.obligation("corr:routing", "correspondence", ok)
    # the raw front door (Front.run_raw): ill-typed and well-typed raw arguments
    raw_cases = [G.gen_raw_case(rng) for _ in range(1200 if chk.tier == "quick" else 8000)]
    chk.obligation("corr:front_door", "correspondence", run_cases(chk, raw_cases, "raw"))
    constants_stage(chk)
    import c09_validation

    c09_validation.stage(chk)
    c09_validation.answers_stage(chk)
    scheme_stage(chk)
    real_backend_stage(chk)
    pykka_stage(chk)
    if chk.tier == "thorough":
        old_code_stage(chk, 6000)
    M.finish(chk, I)
