"""C09 - requests route by URI scheme; misbehaving backends and mixers are isolated.

Model:      coq/Routing/Model.v   (Backends construction, library / playlists / mixer controllers)
Theorems:   coq/Routing/Property_C09.v
Tie:        every generated case (population of scripted fake backends + one core request) is run
            against the real controllers (harness/c09_impl.py) and against the model inside Coq
            (vm_compute); compared: outcome (value or exception class) and provider call log.
Monitors:   the theorem predicates evaluated in Python on the real execution (c09_monitors.py),
            including the two-run non-interference comparison.
"""

from __future__ import annotations

import copy
import json
from pathlib import Path

import c09_gen as G
import c09_monitors as M
from common import vlib

AREA = "Routing"
PROP_FILES = ["Property_C09.v"]
SHARD = 400


def load_corpus():
    out = []
    d = vlib.VERIF / "corpus" / "C09"
    for f in sorted(d.glob("*.json")):
        data = json.loads(f.read_text())
        for c in data if isinstance(data, list) else [data]:
            c.setdefault("mixer", None)
            out.append(c)
    return out


def run_cases(chk, cases, label, old_model=False):
    """Run implementation + monitors on each case, then the model inside Coq on all of them."""
    import c09_emit as E
    import c09_impl as I

    rows = []
    for idx, case in enumerate(cases):
        obs = I.run_case(case, salt=idx)
        M.check_case(chk, case, obs, I, salt=idx)
        try:
            term = E.case_term(case, obs)
        except E.Unencodable as e:
            chk.corr_failure("routing", case, f"observation outside the model's vocabulary: {e}")
            continue
        rows.append((case, obs, term))
        chk.count(1, nontrivial_key=G.nontrivial_key(case, obs))
        chk.dist("op:" + case["op"]["name"])
        chk.dist("backends:%d" % len(case["backends"]))
        chk.dist("outcome:" + (obs["outcome"][0] if obs["outcome"][0] == "ok" else "raise-" + obs["outcome"][1]))
        for f in G.fault_tags(case, obs):
            chk.dist("fault:" + f)
    for case, obs, _ in rows[:3]:
        chk.sample({"case": case, "observed": {"outcome": obs["outcome"], "log": obs["log"]}})
    shards = [rows[i : i + SHARD] for i in range(0, len(rows), SHARD)]
    fn = "case_ok_old" if old_model else "case_ok"
    texts = [
        vlib.COQ_HEADER
        + "From Common Require Import Res Cases.\nFrom Routing Require Import Model Obs.\n"
        + "Definition cases : list case :=\n " + vlib.g_list([t for _, _, t in shard]) + ".\n"
        + f"Eval vm_compute in mismatches {fn} cases.\n"
        for shard in shards
    ]
    results = vlib.coq_eval_many(AREA, texts, jobs=12)
    ok = True
    for shard, (rc, out) in zip(shards, results):
        bad = vlib.parse_nat_list(out)
        if rc != 0 or bad is None:
            ok = False
            chk.corr_failure("routing", {"shard": f"coq evaluation failed ({label})"}, out[-2000:])
            continue
        for i in bad:
            ok = False
            case, obs, _ = shard[i]
            chk.corr_failure("routing", case, {"impl_outcome": obs["outcome"], "impl_log": obs["log"]})
    return ok


def search_hook_factory(chk):
    def hook(cf):
        """Directed search: perturb the disagreeing case and evaluate the monitors."""
        import c09_impl as I

        case = cf["case"]
        if "backends" not in case:
            return None
        rng = vlib.Rng(chk.seed, "C09-search")
        probe = vlib.Check(chk.prop, chk.area, tier=chk.tier, seed=chk.seed)
        for i in range(600):
            mutant = G.mutate_case(rng, copy.deepcopy(case)) if i else copy.deepcopy(case)
            obs = I.run_case(mutant, salt=i)
            M.check_case(probe, mutant, obs, I, salt=i)
            fresh = [mf for mf in probe.monitor_failures
                     if not any(vlib.finding_matches(e, mf["monitor"], mf["key"])
                                for e in vlib.load_findings(chk.prop))]
            if fresh:
                return fresh[0]
            probe.monitor_failures.clear()
        return None

    return hook


def run(chk):
    chk.rule = ("one case = a population of 0-4 scripted backends (schemes, provider flags, one scripted answer "
                "per provider method) + optional mixer + one core request; non-trivial = at least two registered "
                "backends, the request reaches at least one provider, and at least one called provider "
                "misbehaves (raise / None / wrong type / ill-typed entry / foreign key); distinct by case value")
    chk.trusted_base = [
        "Coq 8.16.1 kernel + vm_compute (no native_compute)",
        "harness/c09*.py: generator, scripted fake backend/mixer proxies (futures with .get()), Gallina emitter, "
        "canonicalisation of results and call log",
        "urllib.parse.urlparse(uri).scheme as an oracle (scheme ids are interned by the harness)",
    ]
    chk.assumptions = [
        "pykka proxies/futures are modelled as synchronous calls whose .get() raises or returns (not verified)",
        "pydantic model classes: only isinstance() and .uri truthiness are modelled",
        "validation of the caller's own arguments (query/field/URI syntax) is an oracle: enumerated argument "
        "classes, URI scheme 0 = rejected by check_uri",
        "events sent by the playlists controller and log output are not observed",
    ]
    chk.proof_stage(PROP_FILES, thorough_coqchk=(chk.tier == "thorough"))
    vlib.setup_impl()
    import c09_impl as I  # noqa: F401

    chk.search_hook = search_hook_factory(chk)
    cases = load_corpus()
    chk.dist("corpus", len(cases))
    cases += G.sweep_cases()
    n = 2500 if chk.tier == "quick" else 40000
    rng = chk.rng
    cases += [G.gen_case(rng) for _ in range(n)]
    ok = run_cases(chk, cases, "main")
    chk.obligation("corr:routing", "correspondence", ok)
    # the model of the pre-fix code must DISAGREE with the fixed implementation somewhere
    # (otherwise the _refuted theorems talk about a model that is not the old code)
    M.finish(chk)
