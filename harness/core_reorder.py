"""Monitor-only stage (no model): the audio layer's first notifications of a stream in another order.

The environment specification queues stream_changed before the position_changed of the
stream's first segment; the real audio layer sends position_changed from a pad probe and
stream_changed from a bus message, so the core may see them the other way round.  Here a saved
session (playing / paused, at position 0 / inside the track) is restored by a new Core and the
notifications of the restart are delivered with the first position_changed moved in front of
stream_changed (and, as a control, in the environment's own order): the session still has to come
back on the saved entry, in the saved state, at the saved position, core and audio layer agreeing."""

from __future__ import annotations

import itertools

import core_run

D4 = [["deliver"]] * 4


def run_stage(chk, prop="C10"):
    n = 0
    for state, pos, reorder, modes in itertools.product(("playing", "paused"), (0, 400, 1000), (True, False), (0, 2, 8)):
        ops = [["add", [0, 1, 2], None]] + [["setmode", w, True] for w in range(4) if modes >> w & 1] + [["play", 2]] + D4
        if pos:
            ops += [["seek", pos], ["deliver"], ["deliver"]]
        if state == "paused":
            ops += [["pause"], ["deliver"], ["deliver"], ["deliver"]]
        ops += [["save"], ["load", [True] * 5]]
        case = {"kinds": ["playable"] * 3, "lens": [1000] * 3, "script": [], "max_len": 50, "volume": None, "mute": None,
                "profile": "reordered-notifications", "ops": list(ops)}
        r = core_run.Runner(case)
        try:
            for op in ops:
                r.step(op)
            saved = next(t for t in reversed(r.trace) if t["op"][0] == "save")
            q = r.env.audio.queue
            if reorder:
                i_s = next((i for i, x in enumerate(q) if x[0] == "stream_changed"), None)
                i_p = next((i for i, x in enumerate(q) if x[0] == "position_changed"), None)
                if i_s is not None and i_p is not None and i_s < i_p:
                    q.insert(i_s, q.pop(i_p))
            for _ in range(14):
                if not r.env.audio.queue:
                    break
                r.step(["deliver"])
                case["ops"].append(["deliver"])
            a = r.trace[-1]
            key = {"stage": "reordered-notifications", "state": state, "pos": "zero" if pos == 0 else "nonzero",
                   "reordered": reorder}
            where = {"case": dict(case, note="after the load the first position_changed was moved in front of "
                                             "stream_changed" if reorder else "environment order"), "step": len(r.trace) - 1}
            bad = None
            if a["exc"] or any(t["exc"] for t in r.trace):
                bad = ("restore_total", f"a call raised during the restored start: {[t['exc'] for t in r.trace if t['exc']]}")
            elif a["current"] != saved["current"] or a["state"] != saved["state"]:
                bad = ("restore_playback", f"was {saved['state']} on tlid {saved['current']}, came back {a['state']} on {a['current']}")
            elif a["a_state"] != saved["state"] or a["a_uri"] != saved["a_uri"]:
                bad = ("restore_playback", f"the core reports {a['state']} but the audio layer is {a['a_state']} on track {a['a_uri']}")
            elif a.get("a_pos") != saved.get("a_pos") or a["pos"] != saved["pos"]:
                bad = ("restore_position", f"saved at {saved['pos']} (stream at {saved.get('a_pos')}), came back at {a['pos']} (stream at {a.get('a_pos')})")
            if bad:
                chk.monitor_failure(bad[0], key, f"{bad[1]} [{bad[0]}]", where)
            n += 1
            chk.count(1, nontrivial_key=f"reorder/{state}/{pos}/{reorder}/{modes}")
            chk.dist("profile:reordered-notifications")
        finally:
            r.close()
    chk.notes.append(f"reordered-notifications stage (monitor-only, real Core): {n} restored sessions")
    return n
