"""C10 - saved state restores the session exactly."""
import core_check

AREA = "Core"


def run(chk):
    chk.rule = ("histories ending in Save; the real Core._save_state writes a real gzip state file, a NEW "
                "Core loads it (all coverage or a random subset) against a fresh environment, the "
                "notifications settle, and ids are issued afterwards; non-trivial = the load restored a "
                "non-empty tracklist or a playing/paused track; distinct by op sequence")
    core_check.run_core(chk, "C10", [("restore", 8), ("tracklist", 1)], ["Property_C10.v"])
    if not chk.replay:
        # the saved session also has to survive the run command: whatever point of start-up or
        # shutdown an interrupt hits, the state file afterwards still holds the session (shared
        # stage of the Actors area, real RootCommand.run)
        import core_reorder

        core_reorder.run_stage(chk, "C10")
        import c18_shared

        n = c18_shared.saved_session_survives_interrupted_start(chk, prop="C10")
        chk.notes.append(f"real-run stage saved_session_survives_interrupted_start: {n} interrupt points")
