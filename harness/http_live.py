"""Live in-process Mopidy HTTP server for the Http area checks (C15, C17).

The server is the real ``mopidy.http.actor.HttpServer`` thread (real tornado IOLoop, real
application built by ``HttpServer._get_request_handlers`` from the real
``make_mopidy_app_factory``) bound to a free port on 127.0.0.1.  The core is a recording
stand-in: every call that reaches it is counted.  Nothing in /repo is patched.
"""

from __future__ import annotations

import base64
import os
import shutil
import socket
import struct
import tempfile
import threading
import time


import logging


def quiet_logs():
    """The server logs every refusal / traceback of the (expected) 500 answers; keep the
    check's output to its verdict lines."""
    for name in ("mopidy", "tornado.application", "tornado.access", "tornado.general", "pykka", "asyncio"):
        lg = logging.getLogger(name)
        lg.setLevel(logging.CRITICAL + 1)
        lg.propagate = False
        if not lg.handlers:
            lg.addHandler(logging.NullHandler())


class RecordingCore:
    """Stands in for the CoreProxy; records every call made through the JSON-RPC wrapper."""

    def __init__(self):
        self.calls = []
        self.lock = threading.Lock()

    def _rec(self, name):
        def f(*a, **kw):
            with self.lock:
                self.calls.append(name)
            return "verif-core"
        return f

    def get_version(self, *a, **kw):
        with self.lock:
            self.calls.append("get_version")
        return "verif-core"

    def get_uri_schemes(self, *a, **kw):
        with self.lock:
            self.calls.append("get_uri_schemes")
        return []

    def __getattr__(self, name):
        if name.startswith("__"):
            raise AttributeError(name)
        # controllers (core.playback, ...) are only inspected for callables
        return _Controller(self, name)

    def n_calls(self):
        with self.lock:
            return len(self.calls)


class _Controller:
    def __init__(self, core, name):
        self._core = core
        self._name = name


class LiveServer:
    """Real HttpServer thread over a recording core."""

    def __init__(self, *, csrf_protection=True, allowed_origins=frozenset(), record_requests=True):
        from mopidy.http import actor, handlers
        import tornado.netutil

        quiet_logs()
        self.handlers = handlers
        self.actor = actor
        self.tmp = tempfile.mkdtemp(prefix="verif-http-")
        self.core = RecordingCore()
        self.config = {
            "core": {"data_dir": self.tmp, "cache_dir": self.tmp, "config_dir": self.tmp},
            "http": {
                "hostname": "127.0.0.1",
                "port": 0,
                "zeroconf": "",
                "allowed_origins": allowed_origins,
                "csrf_protection": csrf_protection,
                "default_app": "mopidy",
            },
        }
        self.sockets = tornado.netutil.bind_sockets(0, "127.0.0.1", family=socket.AF_INET)
        self.port = self.sockets[0].getsockname()[1]
        apps = [{"name": "mopidy", "factory": handlers.make_mopidy_app_factory(apps=[], statics=[])}]
        self.server = actor.HttpServer(config=self.config, core=self.core, sockets=self.sockets,
                                       apps=apps, statics=[])
        self.server.daemon = True
        self.seen = []  # (method, uri, headers-as-seen-by-the-handler, status)
        self.seen_lock = threading.Lock()
        self.record_requests = record_requests

    def start(self):
        self.server.start()
        t0 = time.time()
        while self.server.io_loop is None or self.server.app is None:
            if time.time() - t0 > 10:
                raise RuntimeError("HttpServer did not start")
            time.sleep(0.005)
        if self.record_requests:
            # tornado calls settings["log_function"](handler) at the end of every request
            # that reached a handler; used only to record what the handler was given.
            self.server.app.settings["log_function"] = self._log
        # wait until the loop really serves
        t0 = time.time()
        while True:
            try:
                s = socket.create_connection(("127.0.0.1", self.port), timeout=1)
                s.close()
                break
            except OSError:
                if time.time() - t0 > 10:
                    raise
                time.sleep(0.01)
        return self

    def _log(self, handler):
        req = handler.request
        hdrs = {}
        for name in ("Origin", "Host", "Content-Type", "Sec-Websocket-Origin", "X-Verif-Id"):
            hdrs[name] = req.headers.get(name)
        with self.seen_lock:
            self.seen.append({"method": req.method, "uri": req.uri, "headers": hdrs,
                              "status": handler.get_status(), "version": req.version})

    def take_seen(self, verif_id):
        with self.seen_lock:
            for i, s in enumerate(self.seen):
                if s["headers"].get("X-Verif-Id") == verif_id:
                    return self.seen.pop(i)
        return None

    def stop(self):
        try:
            if self.server.io_loop is not None:
                self.server.stop()
                self.server.join(timeout=5)
        finally:
            for s in self.sockets:
                try:
                    s.close()
                except OSError:
                    pass
            shutil.rmtree(self.tmp, ignore_errors=True)
            self.handlers.WebSocketHandler.clients.clear()


# ----------------------------------------------------------------------------
# raw HTTP over a socket (full control of the header bytes)


def raw_request(port, method, path, header_lines, body=b"", version="HTTP/1.1", timeout=5.0,
                after_upgrade=None, probe=None, probe_out=None):
    """Send one request; return (status, {lower-name: [values]}, body bytes, extra).

    ``header_lines`` are bytes objects ``b"Name: value"`` sent verbatim.
    ``after_upgrade`` (bytes) is sent after a 101 response; ``extra`` is then whatever the
    server sent back within a short time (raw websocket frames).
    """
    s = socket.create_connection(("127.0.0.1", port), timeout=timeout)
    try:
        req = method.encode() + b" " + path.encode() + b" " + version.encode() + b"\r\n"
        req += b"".join(h + b"\r\n" for h in header_lines)
        if body or method == "POST":
            req += b"Content-Length: " + str(len(body)).encode() + b"\r\n"
        req += b"\r\n" + body
        s.sendall(req)
        buf = b""
        while b"\r\n\r\n" not in buf:
            chunk = s.recv(65536)
            if not chunk:
                break
            buf += chunk
        if not buf:
            return None, {}, b"", b""
        head, _, rest = buf.partition(b"\r\n\r\n")
        lines = head.split(b"\r\n")
        status = int(lines[0].split(b" ", 2)[1])
        hdrs = {}
        for ln in lines[1:]:
            k, _, v = ln.partition(b":")
            hdrs.setdefault(k.decode("latin1").lower(), []).append(v.strip().decode("latin1"))
        extra = b""
        if status == 101:
            if after_upgrade is not None:
                s.sendall(after_upgrade)
                s.settimeout(timeout)
                extra = rest
                try:
                    while len(extra) < 2 or len(extra) < 2 + (extra[1] & 0x7F):
                        chunk = s.recv(65536)
                        if not chunk:
                            break
                        extra += chunk
                except socket.timeout:
                    pass
            if probe is not None and probe_out is not None:
                # evaluated while the upgraded connection is still open
                probe_out["value"] = probe()
            return status, hdrs, b"", extra
        if method == "HEAD":
            return status, hdrs, b"", extra
        clen = int(hdrs.get("content-length", ["0"])[0] or 0)
        bodyb = rest
        while len(bodyb) < clen:
            chunk = s.recv(65536)
            if not chunk:
                break
            bodyb += chunk
        return status, hdrs, bodyb, extra
    finally:
        try:
            s.close()
        except OSError:
            pass


def ws_text_frame(payload: bytes, mask=b"\x11\x22\x33\x44"):
    """A masked client-to-server text frame (payload < 126 bytes or 16-bit length)."""
    n = len(payload)
    if n < 126:
        head = bytes([0x81, 0x80 | n])
    else:
        head = bytes([0x81, 0x80 | 126]) + struct.pack(">H", n)
    masked = bytes(b ^ mask[i % 4] for i, b in enumerate(payload))
    return head + mask + masked


def ws_handshake_headers():
    key = base64.b64encode(os.urandom(16) if False else b"verif-websocket!")
    return [b"Upgrade: websocket", b"Connection: Upgrade", b"Sec-WebSocket-Key: " + key,
            b"Sec-WebSocket-Version: 13"]


def coqchk_stage(chk, area, prop_files, timeout=1500):
    """Independent re-check of the compiled property modules with coqchk (thorough tier).

    Local to the Http area: vlib.Check.coqchk mis-parses coqchk's "* Axioms: <none>"
    summary (reported to the lead); this one reads only the Axioms block.
    """
    from pathlib import Path

    from common import vlib

    mods = [f"{area}.{Path(p).stem}" for p in prop_files]
    rc, out, _ = vlib._run(["coqchk", "-silent", "-o", *vlib.area_flags(area), *mods], timeout)
    chk.checker_cmds.append("coqchk -silent -o " + " ".join(mods))
    axioms = []
    if "Axioms:" in out:
        block = out.split("Axioms:", 1)[1].split("\n*", 1)[0]
        axioms = [l.strip() for l in block.splitlines() if l.strip() and l.strip() != "<none>"]
    allowed = {x.split(".")[-1] for x in vlib.ALLOWED_AXIOMS}
    bad = [a for a in axioms if a.split(".")[-1] not in allowed]
    chk.axioms["coqchk"] = axioms or "none"
    chk.obligation("coqchk", "audit", rc == 0 and not bad, out[-1500:] if (rc or bad) else "")
