"""C12 - configuration validation is total and sound.

Model: coq/Config/{Types,Schema}.v.  Correspondences:
  corr:deserialize   every ConfigValue.deserialize on (type, raw text) pairs, synthetic
                     types (all classes, Pair/List nesting) and the bundled schema types
  corr:validate      config._validate on the core + bundled extension schemas and on
                     synthetic schema lists
  (monitor-only)     config.load on real files/directories with faults (generator shared with C14)
Monitors (the theorem predicates on the real execution): types_only_valueerror,
result_complete_sound, unknown_key_suggestion, deprecated_absent, unknown_sections_ignored,
pointwise.
"""

from __future__ import annotations

import json
import pathlib

import cfglib
from cfglib import Interner, Recorder, g_ty, g_val
from common import vlib
from common.vlib import g_list

AREA = "Config"
PROP_FILES = ["Property_C12.v"]
CORPUS = vlib.VERIF / "corpus" / "C12"

COQ_IMPORTS = ("From Common Require Import Res Str Cases.\n"
               "From Config Require Import Escape Types Schema Tables.\n")


# ------------------------------------------------------------------ implementation drivers


def as_impl_raw(raw, as_bytes):
    if as_bytes:
        try:
            return raw.encode("utf-8", "surrogateescape")
        except UnicodeEncodeError:
            return raw
    return raw


def run_deserialize(ty, raw, as_bytes=False):
    """-> (recorder, outcome) with outcome ("ok", value) | ("raise", class name)"""
    rec = Recorder()
    rec.note(raw)
    obj = cfglib.to_impl(rec.wrap_transformers(ty))
    with rec.active():
        try:
            out = ("ok", obj.deserialize(as_impl_raw(raw, as_bytes)))
        except ValueError:
            out = ("raise", "ValueError")
        except Exception as e:  # noqa: BLE001
            out = ("raise", type(e).__name__)
    return rec, out


def build_schemas(schema_asts, rec=None):
    from mopidy.config import schemas as S

    out = []
    for s in schema_asts:
        if s[0] == "map":
            out.append(S.MapConfigSchema(s[1], cfglib.to_impl(rec.wrap_transformers(s[2]) if rec else s[2])))
        else:
            cs = S.ConfigSchema(s[1])
            for k, t in s[2]:
                cs[k] = cfglib.to_impl(rec.wrap_transformers(t) if rec else t)
            out.append(cs)
    return out


def schema_ast(obj):
    from mopidy.config import schemas as S

    if isinstance(obj, S.MapConfigSchema):
        return ("map", obj.name, cfglib.from_impl(obj._value_type))
    return ("config", obj.name, tuple((k, cfglib.from_impl(v)) for k, v in obj.items()))


def run_validate(schema_asts, raw, bytes_keys=()):
    """raw: {section: {key: str}} -> (recorder, ("ok", config, errors) | ("raise", cls))"""
    from mopidy import config as C

    rec = Recorder()
    for sec, kv in raw.items():
        rec.note(sec)
        for k, v in kv.items():
            rec.note(k, v)
    schemas = build_schemas(schema_asts, rec)
    impl_raw = {sec: {k: as_impl_raw(v, (sec, k) in bytes_keys) for k, v in kv.items()} for sec, kv in raw.items()}
    with rec.active():
        try:
            cfg, errs = C._validate(impl_raw, schemas)
            out = ("ok", cfg, errs)
        except Exception as e:  # noqa: BLE001
            out = ("raise", type(e).__name__)
    return rec, out


# ------------------------------------------------------------------ Gallina emitters


def g_dobs(ty, out, I):
    if out[0] == "ok":
        return f"(DReturned {g_val(ty, out[1], I)})"
    return f"(DRaised {out[1]})"


def g_schema(s, I):
    if s[0] == "map":
        return f"(SMap {I.s(s[1])} {g_ty(s[2], I)})"
    keys = g_list([f"({I.s(k)}, {g_ty(t, I)})" for k, t in s[2]])
    return f"(SConfig {I.s(s[1])} {keys})"


def g_raw(raw, I):
    return g_list([f"({I.s(sec)}, {g_list([f'({I.s(k)}, {I.s(v)})' for k, v in kv.items()])})"
                   for sec, kv in raw.items()])


def parse_error(msg, schema_keys):
    """error text -> Gallina err.  Only the suggestion is read out of the text."""
    return msg


def g_vobs(schema_asts, out, I):
    if out[0] != "ok":
        return f"(OEscaped {out[1]})"
    _, cfg, errs = out
    by_name = {}
    for s in schema_asts:
        by_name[s[1]] = s  # the last schema of a name is the one whose result is kept
    sections = []
    for sec, kv in cfg.items():
        s = by_name.get(sec)
        items = []
        for k, v in kv.items():
            t = s[2] if s and s[0] == "map" else dict(s[2]).get(k, ("String", True, None, None)) if s else ("String", True, None, None)
            items.append(f"({I.s(k)}, {g_val(t, v, I)})")
        sections.append(f"({I.s(sec)}, {g_list(items)})")
    esecs = []
    for sec, kv in errs.items():
        s = by_name.get(sec)
        keys = [k for k, _ in s[2]] if s and s[0] == "config" else []
        items = []
        for k, msg in kv.items():
            items.append(f"({I.s(k)}, {g_err(k, msg, keys, s, I)})")
        esecs.append(f"({I.s(sec)}, {g_list(items)})")
    return f"(OReturned {g_list(sections)} {g_list(esecs)})"


def error_kind(k, msg, keys, s):
    """Canonical error: ("unknown", suggestion|None) | ("value",) | ("notfound",).

    Keys outside a ConfigSchema can only carry the unknown-key error; the suggestion is
    the schema key quoted in the message.  For schema keys "not found" is told from a
    deserialization error by the key being absent from the raw section (done by caller).
    """
    if s is not None and s[0] == "config" and k not in keys:
        sugg = None
        for c in sorted(keys, key=len, reverse=True):
            if repr(c) in msg:
                sugg = c
                break
        return ("unknown", sugg)
    return ("value",)


def g_err(k, msg, keys, s, I):
    kind = error_kind(k, msg, keys, s)
    if kind[0] == "unknown":
        return f"(EUnknown {vlib.g_opt(kind[1], I.s)})"
    if msg == "config key not found.":
        return "ENotFound"
    return "EValue"


def eval_cases(chk, name, typ, ok_fn, cases_text, per=400):
    """cases_text: list of (Interner-free term builder).  Returns list of bad indices."""
    shards = [cases_text[i:i + per] for i in range(0, len(cases_text), per)]
    texts = []
    for shard in shards:
        I = Interner()
        terms = [mk(I) for mk in shard]
        texts.append(vlib.COQ_HEADER + COQ_IMPORTS + I.header()
                     + f"Definition cases : list {typ} :=\n " + g_list(terms) + ".\n"
                     + f"Eval vm_compute in mismatches {ok_fn} cases.\n")
    results = vlib.coq_eval_many(AREA, texts, jobs=12)
    bad_all, ok = [], True
    for si, (rc, out) in enumerate(results):
        bad = vlib.parse_nat_list(out)
        if rc != 0 or bad is None:
            ok = False
            chk.corr_failure(name, {"shard": si, "error": "coq evaluation failed"}, out[-2000:])
            continue
        bad_all += [si * per + i for i in bad]
    return ok, bad_all


# ------------------------------------------------------------------ monitors (Python mirrors of the theorems)


def wf_value(ty, v):  # noqa: PLR0911, PLR0912
    """The declared-type predicate [wf] of Proofs_Types.v on a real value (not None)."""
    from mopidy.config import types as T

    k = ty[0]
    if k in ("String", "Secret"):
        tr = ty[3] if k == "String" else ty[2]
        if not isinstance(v, str) or isinstance(v, T._ExpandedPath):
            return False
        if tr is None and isinstance(v, T._TransformedValue):
            return False
        if tr is not None and not isinstance(v, T._TransformedValue):
            return False
        orig = v.original if isinstance(v, T._TransformedValue) else v
        if orig == "" or orig != orig.strip():
            return False
        return not (k == "String" and ty[2] is not None and str(v) not in ty[2])
    if k == "Integer":
        if type(v) is not int:
            return False
        if ty[2] is not None and not v >= ty[2]:
            return False
        if ty[3] is not None and not v <= ty[3]:
            return False
        return not (ty[4] is not None and v not in ty[4])
    if k == "Float":
        if type(v) is not float:
            return False
        if ty[2] is not None and not v >= ty[2]:
            return False
        return not (ty[3] is not None and not v <= ty[3])
    if k == "Boolean":
        return type(v) is bool
    if k == "Pair":
        return (isinstance(v, tuple) and len(v) == 2 and wf_opt(ty[4], v[0]) and wf_opt(ty[5], v[1]))
    if k == "List":
        if not isinstance(v, frozenset if ty[2] else tuple):
            return False
        if not ty[1] and len(v) == 0:
            return False
        return all(wf_opt(ty[3], x) for x in v)
    if k == "LogColor":
        return v in ("black", "red", "green", "yellow", "blue", "magenta", "cyan", "white")
    if k == "LogLevel":
        return type(v) is int and v in (50, 40, 30, 20, 10, 5, 0)
    if k == "Hostname":
        return isinstance(v, str) and v != "" and v == v.strip()
    if k == "Path":
        return isinstance(v, T._ExpandedPath) and v.original != "" and str(v).startswith("/")
    if k == "Deprecated":
        return isinstance(v, T.DeprecatedValue)
    return False


def wf_opt(ty, v):
    if v is None:
        return cfglib.ty_optional(ty)
    return wf_value(ty, v)


def nan_in_bounded_float(ty, v):
    """Is the wf failure the known float-nan-range finding?"""
    k = ty[0]
    if k == "Float":
        return isinstance(v, float) and v != v and (ty[2] is not None or ty[3] is not None)
    if k == "Pair" and isinstance(v, tuple) and len(v) == 2:
        return any(x is not None and not wf_value(t, x) and nan_in_bounded_float(t, x)
                   for t, x in ((ty[4], v[0]), (ty[5], v[1])))
    if k == "List" and isinstance(v, (tuple, frozenset)):
        return any(x is not None and not wf_value(ty[3], x) and nan_in_bounded_float(ty[3], x) for x in v)
    return False


def raw_is_empty(ty, raw):
    from mopidy.config import types as T

    d = T.decode(raw)
    return (d.strip() if ty[0] in ("String", "Secret", "Pair", "Hostname", "Path") else d) == ""


def lev_ref(a, b):
    """Independent reference edit distance (textbook recursion, memoised)."""
    import functools

    @functools.lru_cache(maxsize=None)
    def d(i, j):
        if i == 0:
            return j
        if j == 0:
            return i
        return min(d(i - 1, j) + 1, d(i, j - 1) + 1, d(i - 1, j - 1) + (a[i - 1] != b[j - 1]))

    return d(len(a), len(b))


def expected_suggestion(name, keys):
    if not keys:
        return None
    best = min((lev_ref(name.lower(), c), c) for c in keys)
    return best[1] if best[0] <= 3 and best[1] else None


def monitor_validate(chk, schema_asts, raw, out, case):
    if out[0] != "ok":
        chk.monitor_failure("types_only_valueerror", {"call": "_validate", "exception": out[1]},
                            f"{out[1]} escaped config._validate", case)
        return
    _, cfg, errs = out
    names = {s[1] for s in schema_asts}
    for sec in list(cfg) + list(errs):
        if sec not in names:
            chk.monitor_failure("unknown_sections_ignored", {"call": "_validate"},
                                f"section {sec!r} without schema appears in the result", case)
    last = {}
    for s in schema_asts:
        last[s[1]] = s
    for name, s in last.items():
        values = raw.get(name, {})
        res, err = cfg.get(name, {}), errs.get(name, {})
        if s[0] == "map":
            for k, v in values.items():
                check_entry(chk, name, k, s[2], v, True, res, err, case)
            for k in list(res) + list(err):
                if k not in values:
                    chk.monitor_failure("result_complete_sound", {"call": "_validate", "schema": "map"},
                                        f"{name}/{k} in the result but not in the input", case)
            continue
        keys = [k for k, _ in s[2]]
        for k, t in s[2]:
            if t[0] == "Deprecated":
                if k in res:
                    chk.monitor_failure("deprecated_absent", {"call": "_validate"},
                                        f"deprecated key {name}/{k} present in the result", case)
                continue
            check_entry(chk, name, k, t, values.get(k), k in values, res, err, case)
        for k in values:
            if k in keys:
                continue
            msg = err.get(k)
            if msg is None or k in res:
                chk.monitor_failure("unknown_key_suggestion", {"call": "_validate", "what": "not reported"},
                                    f"unknown key {name}/{k} not reported as an error", case)
                continue
            got = error_kind(k, msg, keys, s)[1]
            want = expected_suggestion(k, keys)
            if got != want:
                chk.monitor_failure("unknown_key_suggestion", {"call": "_validate", "what": "suggestion"},
                                    f"unknown key {name}/{k}: suggestion {got!r}, nearest name rule gives {want!r}", case)
        for k in list(res) + list(err):
            if k not in keys and k not in values:
                chk.monitor_failure("result_complete_sound", {"call": "_validate", "schema": "config"},
                                    f"{name}/{k} in the result but neither in the schema nor in the input", case)


def check_entry(chk, sec, k, ty, rawv, present, res, err, case):
    where = f"{sec}/{k}"
    if k not in res:
        chk.monitor_failure("result_complete_sound", {"call": "_validate", "what": "missing"},
                            f"schema key {where} missing from the result", case)
        return
    v = res[k]
    if v is None:
        if k in err:
            return
        if present and cfglib.ty_optional(ty) and raw_is_empty(ty, rawv):
            return
        chk.monitor_failure("result_complete_sound", {"call": "_validate", "what": "none-without-error"},
                            f"{where} is None without an error although not (optional and empty)", case)
        return
    if k in err:
        chk.monitor_failure("result_complete_sound", {"call": "_validate", "what": "value-and-error"},
                            f"{where} has both a value and an error", case)
    if not wf_value(ty, v):
        if nan_in_bounded_float(ty, v):
            chk.monitor_failure("result_complete_sound", {"type": "Float", "what": "nan-in-range"},
                                f"{where}: nan accepted by a Float with minimum/maximum", case)
        else:
            chk.monitor_failure("result_complete_sound", {"call": "_validate", "what": "ill-typed"},
                                f"{where} = {cfglib.canon_val(v)!r} is not a value of the declared type/constraints", case)


# ------------------------------------------------------------------ stage 1: deserialize


def corpus_cases(kind):
    out = []
    if CORPUS.is_dir():
        for f in sorted(CORPUS.glob("*.json")):
            data = json.loads(f.read_text())
            if data.get("kind") == kind:
                out += data["cases"]
    return out


def ty_from_json(j):
    if isinstance(j, list) and j and j[0] == "oracle":
        return ("oracle", j[1], cfglib.ORACLE_TRS.get(j[1], cfglib.ORACLE_TRS[7]))
    if isinstance(j, list):
        return tuple(ty_from_json(x) for x in j)
    return j


def deserialize_stage(chk, scratch, bundled_types):
    rng = chk.rng
    n = 4000 if chk.tier == "quick" else 60000
    cases = []
    for c in corpus_cases("deserialize"):
        cases.append((ty_from_json(c["ty"]), c["raw"], bool(c.get("bytes"))))
    for _ in range(n):
        ty = rng.choice(bundled_types) if rng.random() < 0.3 else cfglib.gen_ty(rng)
        raw = cfglib.gen_raw(ty, rng)
        cases.append((ty, raw, rng.random() < 0.15))
    if chk.replay_case and chk.replay_case.get("stage") == "deserialize":
        c = chk.replay_case
        cases = [(ty_from_json(c["ty"]), c["raw"], bool(c.get("bytes")))]
    builders, kept = [], []
    for ty, raw_t, as_bytes in cases:
        if cfglib.has_final_sigma_hazard(raw_t):
            continue
        raw = scratch.subst(raw_t)   # @LOOP@ etc. -> paths in this run's scratch directory
        rec, out = run_deserialize(ty, raw, as_bytes)
        case = {"stage": "deserialize", "ty": strip_fn(ty), "raw": raw_t, "bytes": as_bytes}
        kinds = cfglib.ty_kinds(ty)
        chk.count(1, nontrivial_key=(repr(strip_fn(ty)), raw) if (raw.strip() and out != ("raise", "ValueError")) or len(kinds) > 1 else None)
        chk.dist("deser:type=" + ty[0])
        chk.dist("deser:outcome=" + (out[0] if out[0] == "ok" else out[1]))
        if rec.unexpected:
            chk.monitor_failure("types_only_valueerror", {"call": "oracle", "exception": rec.unexpected[0][2]},
                                f"oracle raised outside its alphabet: {rec.unexpected[0]}", case)
        if out[0] == "raise" and out[1] != "ValueError":
            chk.monitor_failure("types_only_valueerror", {"call": "deserialize", "type": ty[0], "exception": out[1]},
                                f"{ty[0]}.deserialize let {out[1]} escape", case)
            if out[1] != "RuntimeError":
                continue
        if out[0] == "ok" and out[1] is not None and not wf_value(ty, out[1]):
            if nan_in_bounded_float(ty, out[1]):
                chk.monitor_failure("result_complete_sound", {"type": "Float", "what": "nan-in-range"},
                                    "nan accepted by a Float with minimum/maximum", case)
            else:
                chk.monitor_failure("result_complete_sound", {"call": "deserialize", "what": "ill-typed"},
                                    f"{ty[0]}.deserialize returned {cfglib.canon_val(out[1])!r}: not of the declared type", case)
        if out[0] == "ok" and out[1] is None and not (cfglib.ty_optional(ty) and raw_is_empty(ty, raw)):
            chk.monitor_failure("result_complete_sound", {"call": "deserialize", "what": "none-without-error"},
                                f"{ty[0]}.deserialize returned None for a non-empty or required value", case)
        chk.sample({"type": strip_fn(ty), "raw": raw[:60], "outcome": out[0] if out[0] == "raise" else cfglib.canon_val(out[1])}, cap=3)
        kept.append(case)
        builders.append(lambda I, rec=rec, ty=ty, raw=raw, out=out:
                        f"({rec.g_tables(I)}, {g_ty(ty, I)}, {I.s(raw)}, {g_dobs(ty, out, I)})")
    ok, bad = eval_cases(chk, "deserialize", "dcase", "dcase_ok", builders)
    for i in bad:
        chk.corr_failure("deserialize", kept[i])
    chk.obligation("corr:deserialize", "correspondence", ok and not bad)


def strip_fn(ty):
    """AST without Python callables (JSON-able)."""
    if isinstance(ty, tuple):
        if ty and ty[0] == "oracle":
            return ["oracle", ty[1]]
        return [strip_fn(x) for x in ty]
    return ty


# ------------------------------------------------------------------ stage 2: _validate


def bundled():
    from mopidy import config as C
    from mopidy import file, http, m3u, softwaremixer, stream

    exts = [m.Extension() for m in (http, file, m3u, softwaremixer, stream)]
    schemas = [schema_ast(s) for s in C._schemas] + [schema_ast(e.get_config_schema()) for e in exts]
    defaults = [C.read(pathlib.Path(C.__file__).parent / "default.conf")] + [e.get_default_config() for e in exts]
    raw = C._load([], defaults, [])
    return schemas, raw


def mutate_name(name, rng, edits):
    s = list(name)
    for _ in range(edits):
        op = rng.choice(["del", "ins", "sub", "swap", "case"])
        i = rng.randrange(len(s) + 1)
        if op == "del" and s:
            s.pop(min(i, len(s) - 1))
        elif op == "ins":
            s.insert(i, rng.choice("abcdefghijklmnopqrstuvwxyz_-E"))
        elif op == "sub" and s:
            s[min(i, len(s) - 1)] = rng.choice("abcdefghijklmnopqrstuvwxyz_É")
        elif op == "swap" and len(s) > 1:
            j = min(i, len(s) - 2)
            s[j], s[j + 1] = s[j + 1], s[j]
        elif op == "case" and s:
            j = min(i, len(s) - 1)
            s[j] = s[j].upper()
    return "".join(s)


def gen_raw_config(schema_asts, base, rng, scratch, intensity=None):
    """Mutate the default raw config: bad/edge values, removed keys, unknown keys/sections."""
    raw = {sec: dict(kv) for sec, kv in base.items()}
    intensity = intensity if intensity is not None else rng.choice([1, 2, 4, 8])
    stats = {"changed": 0, "removed": 0, "unknown_keys": 0, "unknown_sections": 0, "deprecated": 0}
    for _ in range(intensity):
        s = rng.choice(schema_asts)
        sec = raw.setdefault(s[1], {})
        op = rng.weighted([("value", 6), ("remove", 1.5), ("unknown", 2.5), ("dropsec", 0.3), ("newsec", 0.7), ("empty", 1)])
        if s[0] == "map":
            if op in ("value", "unknown", "empty"):
                sec[rng.choice(["mopidy", "pykka", "mopidy.http", "Root", "x.y", ""])] = cfglib.gen_raw(s[2], rng)
                stats["changed"] += 1
            elif op == "remove" and sec:
                sec.pop(rng.choice(sorted(sec)))
            continue
        if not s[2]:
            continue
        k, t = rng.choice(s[2])
        if op == "value":
            sec[k] = cfglib.gen_raw(t, rng)
            stats["deprecated" if t[0] == "Deprecated" else "changed"] += 1
        elif op == "empty":
            sec[k] = rng.choice(["", " ", "\t"])
            stats["changed"] += 1
        elif op == "remove":
            sec.pop(k, None)
            stats["removed"] += 1
        elif op == "unknown":
            name = mutate_name(k, rng, rng.randint(1, 5)) if rng.random() < 0.85 else cfglib.gen_noise(rng)
            if name not in dict(s[2]):
                sec[name] = rng.choice(["x", "", "1"])
                stats["unknown_keys"] += 1
        elif op == "dropsec":
            raw.pop(s[1], None)
            stats["removed"] += 1
        elif op == "newsec":
            raw[mutate_name(s[1], rng, 1) + "x"] = {"enabled": "true", k: "1"}
            stats["unknown_sections"] += 1
    return raw, stats


def gen_schema_list(rng):
    """Synthetic schemas: all type classes, duplicate names, empty and deprecated-only ones."""
    names = ["alpha", "beta", "gamma", "loglevels"]   # distinct names (dict of sections)
    rng.shuffle(names)
    out = []
    for name in names[:rng.randint(1, 3)]:
        if rng.random() < 0.2:
            out.append(("map", name, cfglib.gen_ty(rng, depth=1)))
            continue
        keys, seen = [], set()
        pool = ["enabled", "port", "hostname", "host", "name", "path", "paths", "volume", "vol", "level", "x", "timeout", ""]
        for _ in range(rng.choice([0, 1, 2, 3, 5])):
            k = rng.choice(pool)
            if k in seen:
                continue
            seen.add(k)
            keys.append((k, cfglib.gen_ty(rng) if rng.random() < 0.9 else ("Deprecated",)))
        out.append(("config", name, tuple(keys)))
    return out


SHARED = []


def canon_result(cfg):
    return {sec: {k: repr(cfglib.canon_val(v)) for k, v in kv.items()} for sec, kv in cfg.items()}


def validate_stage(chk, scratch, schemas, base):
    SHARED.clear()
    rng = chk.rng
    n = 700 if chk.tier == "quick" else 8000
    cases = []  # (schema_asts, raw, bytes_keys, label)
    for c in corpus_cases("validate"):
        cases.append((schemas, {**{s: dict(kv) for s, kv in base.items()}, **c["raw"]}, (), "corpus"))
    cases.append((schemas, {s: dict(kv) for s, kv in base.items()}, (), "defaults"))
    for i in range(n):
        if rng.random() < 0.6:
            raw, _ = gen_raw_config(schemas, base, rng, scratch)
            bk = tuple((s, k) for s, kv in raw.items() for k in kv if rng.random() < 0.05)
            cases.append((schemas, raw, bk, "bundled"))
        else:
            ss = gen_schema_list(rng)
            raw, _ = gen_raw_config(ss, {}, rng, scratch, intensity=rng.choice([2, 4, 8, 12]))
            cases.append((ss, raw, (), "synthetic"))
    if chk.replay_case and chk.replay_case.get("stage") == "validate":
        c = chk.replay_case
        ss = schemas if c.get("schemas") == "bundled" else [ty_from_json(s) for s in c["schemas"]]
        cases = [(ss, c["raw"], tuple(tuple(x) for x in c.get("bytes_keys", [])), "replay")]
    builders, kept = [], []
    for ss, raw_t, bk, label in cases:
        if any(cfglib.has_final_sigma_hazard(x) for kv in raw_t.values() for kx in kv.items() for x in kx):
            continue
        raw = {sec: {k: scratch.subst(v) for k, v in kv.items()} for sec, kv in raw_t.items()}
        rec, out = run_validate(ss, raw, bk)
        if label == "bundled" and out[0] == "ok":
            # the SAME schema/type objects serve case after case (as the module-level core schemas do in a
            # process that loads twice): the answer must equal that of freshly built objects
            from mopidy import config as C_

            if not SHARED:
                SHARED.append(build_schemas(schemas))
            rec_s = Recorder()
            impl_raw = {sec: {k: as_impl_raw(v, (sec, k) in bk) for k, v in kv.items()} for sec, kv in raw.items()}
            try:
                with rec_s.active():
                    cfg_s, err_s = C_._validate(impl_raw, SHARED[0])
                same = (canon_result(cfg_s) == canon_result(out[1]) and {a: sorted(b) for a, b in err_s.items()}
                        == {a: sorted(b) for a, b in out[2].items()})
                what = "differs from the answer of freshly built schema objects"
            except Exception as e:  # noqa: BLE001
                same, what = False, f"raised {type(e).__name__}"
            if not same:
                chk.monitor_failure("schema_objects_stateless", {"call": "_validate"},
                                    f"_validate on schema objects that already served earlier configs {what}",
                                    {"stage": "validate", "schemas": "bundled", "raw": raw_t, "bytes_keys": [list(x) for x in bk],
                                     "note": "needs the earlier cases of the run (shared objects)"})
        case = {"stage": "validate", "schemas": "bundled" if ss is schemas else [strip_fn(s) for s in ss],
                "raw": raw_t, "bytes_keys": [list(x) for x in bk]}
        nerr = sum(len(v) for v in out[2].values()) if out[0] == "ok" else -1
        chk.count(1, nontrivial_key=json.dumps(case["raw"], sort_keys=True) if nerr != 0 else None)
        chk.dist(f"validate:{label}")
        chk.dist("validate:errors=" + ("escape" if nerr < 0 else "0" if nerr == 0 else "1-3" if nerr <= 3 else ">3"))
        if rec.unexpected:
            chk.monitor_failure("types_only_valueerror", {"call": "oracle", "exception": rec.unexpected[0][2]},
                                f"oracle raised outside its alphabet: {rec.unexpected[0]}", case)
        monitor_validate(chk, ss, raw, out, case)
        if out[0] == "raise" and out[1] != "RuntimeError":
            continue
        if label == "bundled":
            chk.sample({"changed_sections": sorted(s for s in raw if raw[s] != base.get(s))[:4],
                        "errors": {s: sorted(e) for s, e in out[2].items()} if out[0] == "ok" else out[1]}, cap=6)
        kept.append(case)
        sdef = ss
        builders.append(lambda I, rec=rec, ss=sdef, raw=raw, out=out:
                        f"({rec.g_tables(I)}, {g_list([g_schema(s, I) for s in ss])}, {g_raw(raw, I)}, {g_vobs(ss, out, I)})")
        # pointwise (T4): regenerate everything except one entry, that entry must not move
        if out[0] == "ok" and rng.random() < 0.5:
            pointwise_probe(chk, ss, raw_t, out, rng, scratch, case)
    ok, bad = eval_cases(chk, "validate", "vcase", "vcase_ok", builders, per=60)
    for i in bad:
        chk.corr_failure("validate", kept[i])
    chk.obligation("corr:validate", "correspondence", ok and not bad)


def pointwise_probe(chk, ss, raw, out, rng, scratch, case):
    cands = [(s[1], k) for s in ss if s[0] == "config" for k, _ in s[2]] + [(sec, k) for sec, kv in raw.items() for k in kv]
    if not cands:
        return
    sec, k = rng.choice(cands)
    raw2, _ = gen_raw_config(ss, raw, rng, scratch, intensity=6)
    if sec in raw and k in raw[sec]:
        raw2.setdefault(sec, {})[k] = raw[sec][k]
    else:
        raw2.get(sec, {}).pop(k, None)
    if any(cfglib.has_final_sigma_hazard(x) for kv in raw2.values() for kx in kv.items() for x in kx):
        return
    _, out2 = run_validate(ss, {s_: {k_: scratch.subst(v_) for k_, v_ in kv_.items()} for s_, kv_ in raw2.items()})
    if out2[0] != "ok":
        return  # reported by the totality monitor on its own case stream

    def entry(o):
        cfg, errs = o[1], o[2]
        v = cfg.get(sec, {}).get(k, "<absent>")
        e = errs.get(sec, {}).get(k)
        return (repr(cfglib.canon_val(v)) if v != "<absent>" else v, e is not None)

    if entry(out) != entry(out2):
        chk.monitor_failure("pointwise", {"call": "_validate"},
                            f"entry {sec}/{k} changed although its raw value did not: {entry(out)} vs {entry(out2)}",
                            {**case, "raw2": raw2, "entry": [sec, k]})


# ------------------------------------------------------------------ stage 3: config.load on real files


def load_stage(chk, schemas):
    """The property's outermost clause: for any combination of config text, FILES and overrides,
    config.load returns (config, errors) without raising, and the result is complete and sound.

    Source stacks come from the C14 generator (files, directories with sub-directories / sockets /
    dangling links named *.conf, absent / unreadable / unopenable / header-less / broken files,
    duplicates, undecodable bytes, keyring, overrides) and are rendered to real files; the real
    core + bundled extension schemas and defaults are used.  Monitor-only (the layering itself is
    C14's correspondence)."""
    import c14
    from mopidy import config as C
    from mopidy import file, http, m3u, softwaremixer, stream

    rng = chk.rng
    n = 250 if chk.tier == "quick" else 2500
    from mopidy.config import schemas as S
    from mopidy.config import types as T

    def synthetic(name):
        sc = S.ConfigSchema(name)
        sc["enabled"] = T.Boolean(optional=True)
        for k in ("a", "b", "c", "mixer"):
            sc[k] = T.String(optional=True)
        return sc

    # extension schemas offered to the loads of this session: the five bundled ones and two
    # synthetic ones whose sections ("alpha", "beta") the generated files write into.  Every load
    # gets another subset (sometimes one schema twice): one process, many loads.
    ext_pool = [(m.Extension().get_config_schema(), m.Extension().get_default_config())
                for m in (http, file, m3u, softwaremixer, stream)]
    ext_pool += [(synthetic("alpha"), "[alpha]\nenabled = true\n"), (synthetic("beta"), "[beta]\nenabled =\n")]
    ext_asts = [schema_ast(sc) for sc, _ in ext_pool]
    n_core = len(C._schemas)
    core_snapshot = list(C._schemas)
    core_asts = [schema_ast(sc) for sc in core_snapshot]
    state_reported = []
    stacks = [c14.gen_stack(rng) for _ in range(n)]
    cdir = vlib.VERIF / "corpus" / "C14"
    if cdir.is_dir():
        for f in sorted(cdir.glob("*.json")):
            stacks = json.loads(f.read_text())["stacks"] + stacks
    if chk.replay_case and chk.replay_case.get("stage") == "load":
        stacks = [chk.replay_case["stack"]]
    for stack in stacks:
        stack = json.loads(json.dumps(stack))
        chosen = stack.get("ext_choice")
        if chosen is None:
            chosen = [i for i in range(len(ext_pool)) if rng.random() < 0.6]
            if chosen and rng.random() < 0.15:
                chosen.append(chosen[0])           # the same schema passed twice
        # deprecated keys set again and again: the same module-level core schema objects serve every load
        if "override_texts" in stack and not stack.get("deprecated_added") and rng.random() < 0.6:
            for sec_, key_ in rng.sample([("audio", "mixer_track"), ("audio", "visualizer"), ("logging", "debug_file"),
                                          ("logging", "console_format"), ("http", "static_dir")], rng.randint(1, 3)):
                stack["overrides"].append([sec_, key_, "old value"])
                stack["override_texts"].append(f"{sec_}/{key_}=old value")
            stack["deprecated_added"] = True
        case = {"stage": "load", "stack": {**stack, "ext_choice": chosen}}
        these = [ext_pool[i] for i in chosen]
        call_asts = core_asts + [ext_asts[i] for i in dict.fromkeys(chosen)]
        mat = c14.Materialised(stack)
        captured = {}
        real_validate, real_fetch = C._validate, C.keyring.fetch

        def spy(raw, schemas_, _real=real_validate, _cap=captured):
            _cap["raw"] = raw
            return _real(raw, schemas_)

        keyring = [(s_, k_, v_.encode("utf-8", "surrogateescape")) for s_, k_, v_ in stack["keyring"]]
        rec = Recorder()
        try:
            with c14.Faults(mat), rec.active():
                C._validate, C.keyring.fetch = spy, (lambda: list(keyring))
                try:
                    cfg, errs = C.load(c14.spelled_paths(stack, mat), [sc for sc, _ in these],
                                       [d for _, d in these]
                                       + c14.render_defaults(stack),
                                       c14.parse_overrides(stack))
                    out = ("ok", cfg, errs)
                    # what a fresh process would answer: validation of the same raw config against a
                    # pristine copy of the core schemas plus exactly the schemas passed to THIS call
                    fresh = real_validate(captured["raw"], core_snapshot + [sc for sc, _ in these])
                except Exception as e:  # noqa: BLE001
                    out = ("raise", type(e).__name__)
                finally:
                    C._validate, C.keyring.fetch = real_validate, real_fetch
        finally:
            mat.close()
        shapes = sorted({m["shape"] for fe in stack["files"] if "dir" in fe for m in fe["dir"]})
        chk.count(1, nontrivial_key=json.dumps(stack, sort_keys=True) if stack["files"] else None)
        chk.dist("load:outcome=" + (out[0] if out[0] == "ok" else out[1]))
        for sh in shapes:
            chk.dist("load:dir-member=" + sh)
        chk.dist(f"load:ext-schemas={len(set(chosen))}")
        if (len(C._schemas) != n_core or any(a is not b for a, b in zip(C._schemas, core_snapshot))) and not state_reported:
            state_reported.append(True)
            chk.monitor_failure("load_is_function_of_arguments", {"call": "load", "what": "module-state"},
                                f"config.load changed the module-level core schema list ({n_core} -> {len(C._schemas)} "
                                "entries): later loads in this process see schemas they were not given", case)
        if out[0] != "ok":
            chk.monitor_failure("types_only_valueerror", {"call": "load", "exception": out[1]},
                                f"{out[1]} escaped config.load on real files", case)
            continue
        if repr(sorted(fresh[0])) != repr(sorted(out[1])) or repr(sorted(fresh[1])) != repr(sorted(out[2])) or any(
                sorted(fresh[0][sec_]) != sorted(out[1][sec_]) for sec_ in fresh[0]):
            chk.monitor_failure("load_is_function_of_arguments", {"call": "load", "what": "result"},
                                "config.load's result differs from validating the same raw config against the core "
                                "schemas plus the schemas passed to this call (sections: "
                                f"{sorted(out[1])} vs {sorted(fresh[0])})", case)
        raw = {sec: {k: (v.decode(errors="surrogateescape") if isinstance(v, bytes) else v) for k, v in kv.items()}
               for sec, kv in captured.get("raw", {}).items()}
        if any(not isinstance(v, str) for kv in raw.values() for v in kv.values()):
            chk.monitor_failure("result_complete_sound", {"call": "load", "what": "non-text-raw-value"},
                                "config.load handed a non-text raw value to the schemas", case)
            continue
        monitor_validate(chk, call_asts, raw, out, case)


# ------------------------------------------------------------------ search hook


def search(chk):
    def hook(cf):
        case = cf["case"]
        if not isinstance(case, dict) or case.get("stage") != "deserialize":
            return None
        ty = ty_from_json(case["ty"])
        rng = vlib.Rng(chk.seed, "c12-search")
        probe = vlib.Check(chk.prop, chk.area, tier=chk.tier, seed=chk.seed)
        for _ in range(300):
            raw = cfglib.gen_raw(ty, rng) if rng.random() < 0.7 else case["raw"] + cfglib.gen_noise(rng)
            try:
                _rec, out = run_deserialize(ty, chk.scratch.subst(raw))
            except Exception:  # noqa: BLE001
                continue
            if out[0] == "raise" and out[1] != "ValueError":
                return {"monitor": "types_only_valueerror", "key": {"call": "deserialize", "type": ty[0], "exception": out[1]},
                        "what": f"{ty[0]}.deserialize let {out[1]} escape", "case": {**case, "raw": raw}}
            if out[0] == "ok" and out[1] is not None and not wf_value(ty, out[1]) and not nan_in_bounded_float(ty, out[1]):
                return {"monitor": "result_complete_sound", "key": {"call": "deserialize", "what": "ill-typed"},
                        "what": "value not of the declared type", "case": {**case, "raw": raw}}
        del probe
        return None

    return hook


# ------------------------------------------------------------------ entry point


def run(chk):
    chk.rule = ("deserialize: (type, raw text) pairs, non-trivial = non-blank raw text not rejected outright or a "
                "composite type, distinct by (type, text); validate: raw configs over the core+bundled or synthetic "
                "schemas, non-trivial = at least one error entry, distinct by raw config")
    chk.trusted_base = [
        "Coq 8.16.1 kernel + vm_compute (no native_compute)",
        "harness/c12.py + cfglib.py: generators, schema introspection (from_impl), Gallina emitter, canonicalisation "
        "of error texts to {unknown(suggestion), value, not-found}",
        "oracle recording: int/float/expand_path/pathlib/getaddrinfo/str.lower answers are taken from the running "
        "implementation and handed to the model as tables",
    ]
    chk.assumptions = [
        "bytes values are decoded with surrogateescape before the modelled step",
        "str.lower is modelled character-wise (final-sigma context rule excluded from generated inputs)",
        "String(transformer=f): f is total and deterministic",
        "getaddrinfo is replaced by a numeric-only resolver plus a fixed set of resolvable names (no network)",
    ]
    chk.replay_case = None
    if chk.replay:
        data = json.loads(pathlib.Path(chk.replay).read_text())
        c = data.get("case") or (data.get("correspondence_failures") or [{}])[0].get("case")
        chk.replay_case = c if isinstance(c, dict) else None
    chk.proof_stage(PROP_FILES, thorough_coqchk=(chk.tier == "thorough"))
    vlib.setup_impl()
    import logging

    logging.disable(logging.CRITICAL)
    scratch = cfglib.Scratch()
    chk.scratch = scratch
    try:
        schemas, base = bundled()
        bundled_types = [t for s in schemas for t in ([s[2]] if s[0] == "map" else [t for _, t in s[2]])]
        chk.search_hook = search(chk)
        # side condition of C12_result_complete_sound_float_free, evaluated on the REAL bundled schemas
        I = Interner()
        term = g_list([g_schema(s_, I) for s_ in schemas])
        rc, outp = vlib.coq_eval(AREA, vlib.COQ_HEADER + COQ_IMPORTS + "From Config Require Import Spec_C12 Proofs_Schema.\n"
                                 + I.header() + f"Eval vm_compute in (if schemas_float_free {term} then [] else [0]) : list Z.\n")
        ff = vlib.parse_nat_list(outp)
        names = [s_[1] for s_ in schemas]
        chk.obligation("side-condition:float-free-schemas", "correspondence",
                       rc == 0 and ff == [] and len(set(names)) == len(names),
                       "" if rc == 0 and ff == [] else "a bundled schema declares a bounded Float (or names repeat): "
                       "C12_result_complete_sound_float_free no longer applies to the bundled schemas; " + outp[-500:])
        import time

        t0 = time.time()
        if not chk.replay_case or chk.replay_case.get("stage") == "deserialize":
            deserialize_stage(chk, scratch, bundled_types)
        t1 = time.time()
        if not chk.replay_case or chk.replay_case.get("stage") == "validate":
            validate_stage(chk, scratch, schemas, base)
        if not chk.replay_case or chk.replay_case.get("stage") == "load":
            load_stage(chk, schemas)
        chk.notes.append(f"stage wall: deserialize {t1 - t0:.1f}s, validate {time.time() - t1:.1f}s")
    finally:
        scratch.close()
