"""C20 stage D: the transcriptions of Python built-ins used by Untrusted/Playlists.v and
Tags.v, each compared with the real built-in on its own (finite sub-domains exhaustively
in the thorough tier): strict UTF-8 decoding, bytes.splitlines, `not bytes.strip()`,
urlsplit's scheme recognition, str.lower on ASCII-relevant code points, f-string decimal
rendering, str.strip(quotes), the models' date pattern (against pydantic)."""

import urllib.parse

from common import vlib
from common.vlib import g_bool, g_bytes, g_list, g_opt, g_str, g_z

AREA = "Untrusted"

HDR = (vlib.COQ_HEADER + "From Common Require Import Res Str Cases.\nFrom Untrusted Require Import Base Playlists Tags.\n")


def _decode(b):
    try:
        return b.decode()
    except UnicodeDecodeError:
        return None


def sweep_utf8(rng, thorough):
    cases = [bytes([a]) for a in range(256)]
    if thorough:
        cases += [bytes([a, b]) for a in range(256) for b in range(256)]
        cases += [bytes([a, b, c]) for a in (0xE0, 0xE1, 0xEC, 0xED, 0xEE, 0xEF) for b in range(256) for c in (0x7F, 0x80, 0xBF, 0xC0)]
        cases += [bytes([a, b, c, d]) for a in (0xF0, 0xF1, 0xF3, 0xF4, 0xF5) for b in range(256) for c in (0x7F, 0x80, 0xBF) for d in (0x80, 0xBF, 0xC0)]
    lead = [0x00, 0x41, 0x7F, 0x80, 0xBF, 0xC0, 0xC1, 0xC2, 0xDF, 0xE0, 0xE1, 0xEC, 0xED, 0xEE, 0xEF, 0xF0, 0xF1, 0xF3, 0xF4, 0xF5, 0xFF]
    cont = [0x00, 0x7F, 0x80, 0x8F, 0x90, 0x9F, 0xA0, 0xBF, 0xC0, 0x41]
    for _ in range(20000 if thorough else 3000):
        n = rng.randint(1, 3)
        b = bytearray()
        for _ in range(n):
            b.append(rng.choice(lead))
            for _ in range(rng.randint(0, 3)):
                b.append(rng.choice(cont))
        cases.append(bytes(b))
    items = [f"({g_bytes(b)}, {g_opt(_decode(b), g_str)})" for b in cases]
    return "utf8_decode", "bytes * option str", "fun c => opt_eqb str_eqb (utf8_decode (fst c)) (snd c)", items, cases


LINE_ALPHA = [10, 13, 13, 10, 97, 98, 32, 9, 11, 12, 0x1C, 0x1D, 0x1E, 0x85, 0xC2, 0, 35]


def sweep_lines(rng, thorough):
    cases = [b"", b"\n", b"\r", b"\r\n", b"\n\r", b"a\r\nb", b"a\n\nb\n", b"\r\r\n\n", b"a\x0bb\x0cc\x1cd\x85e"]
    if thorough:  # every string of length <= 4 over {\n, \r, a, \x0c}
        base = [10, 13, 97, 12]
        for n in range(1, 5):
            for i in range(len(base) ** n):
                cases.append(bytes(base[(i // len(base) ** k) % len(base)] for k in range(n)))
    for _ in range(8000 if thorough else 1500):
        cases.append(bytes(rng.choice(LINE_ALPHA) for _ in range(rng.randint(0, 12))))
    items = [f"({g_bytes(b)}, {g_list([g_bytes(l) for l in b.splitlines()])}, {g_bool(not b.strip())})" for b in cases]
    return ("splitlines+blank", "bytes * list bytes * bool",
            "fun c => let '(b, ls, bl) := c in list_eqb (list_eqb Z.eqb) (splitlines b) ls && Bool.eqb (b_blank b) bl", items, cases)


SCHEME_ALPHA = list("aZ09+-.:/# \t\n\r\x00\x01\x1f[]?@é%") + ["http", "://", "a:", ":"]


def sweep_scheme(rng, thorough):
    cases = ["", ":", "a", "a:", "a:b", "1a:b", "a1+-.:x", " a:b", "\x00a:b", "a\tb:c", "a\nb:c", "a b:c", "é:x", "a:é", "A:B", "a/b:c", "\t:a", "a:\n"]
    for _ in range(20000 if thorough else 3000):
        cases.append("".join(rng.choice(SCHEME_ALPHA) for _ in range(rng.randint(0, 7))))
    items, kept = [], []
    for s in cases:
        try:
            want = urllib.parse.urlparse(s).scheme != ""
        except ValueError:
            continue
        items.append(f"({g_str(s)}, {g_bool(want)})")
        kept.append(s)
    return "has_scheme", "str * bool", "fun c => Bool.eqb (has_scheme (fst c)) (snd c)", items, kept


def sweep_lower(rng, thorough):
    # Python-side exhaustive fact the model's design rests on
    odd = [cp for cp in range(128, 0x110000) if any(ord(x) < 128 for x in chr(cp).lower())]
    assert odd == [0x130, 0x212A], odd
    cps = list(range(0, 0x3100 if thorough else 0x260)) + [0x130, 0x212A, 0x212B, 0x3A3, 0x1E9E, 0xFF21, 0x10400, 0x10FFFF]
    items = []
    for cp in cps:
        low = chr(cp).lower()
        has_ascii = any(ord(x) < 128 for x in low)
        items.append(f"({g_z(cp)}, {g_bool(has_ascii)}, {g_str(low)})")
    return ("lower_cp", "Z * bool * str",
            "fun c => let '(cp, a, low) := c in if a then str_eqb (lower_cp cp) low else forallb (fun x => 128 <=? x) (lower_cp cp)", items, cps)


def sweep_dec(rng, thorough):
    ps = list(range(1, 400 if thorough else 120)) + [10**k for k in range(3, 20)] + [10**k - 1 for k in range(3, 20)] + [rng.getrandbits(rng.randint(8, 70)) + 1 for _ in range(300)]
    items = [f"({g_z(p)}, {g_str(f'file{p}')})" for p in ps]
    return "file_key", "Z * str", "fun c => str_eqb (file_key (Z.to_pos (fst c))) (snd c)", items, ps


def sweep_quotes(rng, thorough):
    cases = ["", '"', "'", "\"'", "'a'", '"a\'b"', "a'", "'\"'\"x\"'\"'"]
    for _ in range(4000 if thorough else 800):
        cases.append("".join(rng.choice("\"'ab ") for _ in range(rng.randint(0, 8))))
    items = [f"({g_str(s)}, {g_str(s.strip(chr(34) + chr(39)))})" for s in cases]
    return "strip_quotes", "str * str", "fun c => str_eqb (strip_quotes (fst c)) (snd c)", items, cases


DATE_ALPHA = list("0123456789") + list("0123456789") + ["-", "-", "-", "T", " ", "\n", "x", "٣", "۴", "५", "０", "９", "\u2212", "/"]


def sweep_date(rng, thorough):
    from pydantic import ValidationError

    from mopidy.models import Album

    cases = ["", "2014", "2014-01", "2014-01-01", "2014-01-01\n", "٢٠١٤", "2014-1-1", "20141", "201", "２０１４-٠١-۱४", "2014-01-011", " 2014", "2014-13-99", "0000", "abcd", "2014_01_01", "2014-01-0x"]
    for _ in range(12000 if thorough else 2500):
        n = rng.choice([4, 4, 10, 10, 10, rng.randint(0, 12)])
        s = "".join(rng.choice(DATE_ALPHA) for _ in range(n))
        if n == 10 and rng.random() < 0.7:
            s = s[:4] + "-" + s[5:7] + "-" + s[8:]
        cases.append(s)
    items = []
    for s in cases:
        try:
            Album(date=s)
            ok = True
        except ValidationError:
            ok = False
        items.append(f"({g_str(s)}, {g_bool(ok)})")
    return "date_ok", "str * bool", "fun c => Bool.eqb (date_ok (fst c)) (snd c)", items, cases


def sweep_encode(rng, thorough):
    """Playlists.utf8_encode against str.encode() on strings of scalar values."""
    pool = [0, 0x41, 0x7F, 0x80, 0x7FF, 0x800, 0xFFF, 0x1000, 0xD7FF, 0xE000, 0xFFFD, 0xFFFF, 0x10000, 0x3FFFF, 0x40000, 0xFFFFF, 0x100000, 0x10FFFF]
    cases = [chr(c) for c in pool]
    if thorough:
        cases += [chr(c) for c in range(0, 0x3000)]
    for _ in range(6000 if thorough else 1200):
        cases.append("".join(chr(rng.choice(pool) if rng.random() < 0.5 else rng.choice([rng.randrange(0, 0xD800), rng.randrange(0xE000, 0x110000)]))
                             for _ in range(rng.randint(0, 5))))
    items = [f"({g_str(s)}, {g_bytes(s.encode())})" for s in cases]
    return "utf8_encode", "str * bytes", "fun c => str_eqb (utf8_encode (fst c)) (snd c) && forallb scalar (fst c)", items, cases


SWEEPS = [sweep_encode, sweep_utf8, sweep_lines, sweep_scheme, sweep_lower, sweep_dec, sweep_quotes, sweep_date]


def run(chk, _fx=None):
    vlib.setup_impl()
    rng = vlib.Rng(chk.seed, "C20-transcr")
    thorough = chk.tier == "thorough"
    jobs = []
    for sweep in SWEEPS:
        name, ty, okfn, items, raw = sweep(rng, thorough)
        typed_fn = okfn.replace("fun c =>", f"fun c : ({ty}) =>", 1)
        for i in range(0, len(items), 500):
            text = (HDR + f"Definition cases : list ({ty}) :=\n " + g_list(items[i : i + 500]) + ".\n"
                    + f"Eval vm_compute in mismatches ({typed_fn}) cases.\n")
            jobs.append((name, raw[i : i + 500], text))
        chk.count(len(items))
        chk.dist(f"transcr:{name}", len(items))
    results = vlib.coq_eval_many(AREA, [t for _n, _r, t in jobs], jobs=14)
    ok = True
    for (name, raw, _t), (rc, out) in zip(jobs, results):
        bad = vlib.parse_nat_list(out)
        if rc != 0 or bad is None:
            ok = False
            chk.corr_failure("transcriptions", {"sweep": name, "shard": "coq evaluation failed"}, out[-1200:])
            continue
        for i in bad[:5]:
            ok = False
            chk.corr_failure("transcriptions", {"sweep": name, "input": repr(raw[i])})
    if thorough:
        chk.notes.append("transcription sweeps exhaustive over: all 1- and 2-byte strings (UTF-8), all strings of length <= 4 over "
                         "{LF, CR, 'a', FF} (splitlines), code points < 0x3100 (lower), Python-side check over all code points that only "
                         "ASCII, U+0130 and U+212A lower-case to text containing ASCII")
    chk.obligation("corr:transcriptions", "correspondence", ok)
