"""C20 stage F: StreamLibraryProvider.lookup / StreamPlaybackProvider.translate_uri
<->  Untrusted/Stream.v.

The real providers run over a stand-in backend (uri_schemes, the blacklist regex built as
StreamBackend builds it, timeout, scripted scanner / session of c20_unwrap) so that the
whole path  request uri -> scheme filter -> blacklist -> _unwrap_stream (real download) ->
convert_tags_to_track(scan_result.tags).replace(uri, length)  is one execution; the model
gets the same graph, the clock readings observed, the scan results' tag dicts (through
the real convert_taglist), the UUID oracle table, and which requests urlsplit rejects.
"""

import fnmatch
import re
import types
import urllib.parse

from common import vlib
from common.vlib import g_bool, g_list, g_opt, g_pair, g_str, g_z

import c20_parse
import c20_tags
import c20_unwrap as U

AREA = "Untrusted"
SCHEMES = ["http", "mms"]
BLACKLIST = ["http://h.example/d5/*", "mms://never/*"]


def variants(rng, start):
    k = rng.weighted([("plain", 12), ("upper", 1), ("space", 1), ("other-scheme", 1), ("no-scheme", 0.5), ("bad-netloc", 0.5), ("blacklisted", 1), ("tab", 0.3)])
    if k == "upper":
        return "HTTP" + start[4:]
    if k == "space":
        return " \x00" + start
    if k == "tab":
        return "ht\ttp" + start[4:]
    if k == "other-scheme":
        return rng.choice(["file:///tmp/x.mp3", "rtsp://h.example/s", "x-a+b.c:opaque"])
    if k == "no-scheme":
        return rng.choice(["nocolon", "1http://h.example/", ":x", "", "/d0/l0.m3u"])
    if k == "bad-netloc":
        return rng.choice(["http://[::1", "http://℀/", "mms://[x"])
    if k == "blacklisted":
        return rng.choice(["http://h.example/d5/l5.m3u", "mms://never/x"])
    return start


def add_tags(rng, case, gir, tags_mod):
    for n in case["nodes"].values():
        if n["scan"][0] != "result":
            continue
        while True:
            items, _ = c20_tags.gen_taglist(rng, gir)
            d = dict(tags_mod.convert_taglist(c20_tags.FakeTagList(items)))
            d = {k: v for k, v in d.items() if k in c20_tags.KEYS}
            if c20_tags.typed(d):
                break
        n["tags"] = d
        n["duration"] = rng.choice([None, 0, 1234, 2**40])


def make_backend(world, timeout_ms):
    return types.SimpleNamespace(
        uri_schemes=list(SCHEMES), _timeout=timeout_ms, _scanner=world, _session=world,
        _blacklist_re=re.compile(rf"^({'|'.join(fnmatch.translate(u) for u in BLACKLIST)})$"))


def call(actor, http, case, which):
    clock = U.FakeClock(case["script"], case.get("durations", [0]))
    hclock = U.c20_download.VirtualClock(0, ticks_per_second=U.TICKS)
    world = U.World(case["nodes"], clock, hclock)
    backend = make_backend(world, case["timeout"] * 1000 / U.TICKS)
    old_a, old_h = actor.time, http.time
    actor.time, http.time = clock, hclock
    try:
        try:
            if which == "lookup":
                r = actor.StreamLibraryProvider(backend=backend).lookup(case["request"])
            else:
                r = actor.StreamPlaybackProvider(audio=None, backend=backend).translate_uri(case["request"])
            obs = ("ok", r)
        except c20_parse.Diverged:
            obs = ("raise", "OtherExn", "DidNotTerminate")
        except Exception as exc:  # noqa: BLE001
            obs = ("raise", c20_parse.exn_name(exc), type(exc).__name__)
    finally:
        actor.time, http.time = old_a, old_h
    return obs, (clock.readings or [case["script"][0]])


def urlsplit_raises(u):
    try:
        urllib.parse.urlsplit(u)
    except ValueError:
        return True
    return False


HDR = (
    vlib.COQ_HEADER
    + "From Common Require Import Res Str Cases.\nFrom Untrusted Require Import Base Playlists Download Unwrap Tags Stream.\n"
    + "Definition uuid_of (tab : list (str * option str)) (s : str) : option str :=\n"
    + "  match assoc s tab with Some r => r | None => None end.\n"
    + "Definition tags_tab (t : list (str * tags)) (u : str) : tags := match assoc u t with Some x => x | None => [] end.\n"
    + "Definition dur_tab (t : list (str * option Z)) (u : str) : option Z := match assoc u t with Some x => x | None => None end.\n"
    + "Definition empty_track : track := mkTrack None None None [] [] [] None None None None None None.\n"
    + "Definition norm (o : lookup_out) : lookup_out :=\n"
    + "  match o with LTrack u None l => LTrack u (Some empty_track) l | x => x end.\n"
    + "Record W := mkW { w_scan : list (str * scan_out); w_get : list (str * get_out); w_join : list (str * str * option str);\n"
    + "  w_tags : list (str * tags); w_dur : list (str * option Z); w_uuid : list (str * option str); w_schemes : list str;\n"
    + "  w_raises : bool; w_black : bool; w_timeout : Z; w_fuel : nat; w_req : str }.\n"
    + "Definition T := (W * list Z * res exn lookup_out * list Z * res exn (option str))%type.\n"
    + "Definition ok (c : T) : bool :=\n"
    + "  let '(w, cl1, e1, cl2, e2) := c in\n"
    + "  res_eqb (fun a b => lookup_out_eqb (norm a) (norm b))\n"
    + "    (lookup true (w_schemes w) (fun _ => w_raises w) (fun _ => w_black w) (uuid_of (w_uuid w)) (tab_scan (w_scan w)) (tab_get (w_get w))\n"
    + "            (tab_join (w_join w)) (tags_tab (w_tags w)) (dur_tab (w_dur w)) (tab_clock cl1) (w_timeout w) (w_fuel w) (w_req w)) e1\n"
    + "  && res_eqb (opt_eqb str_eqb)\n"
    + "    (translate_uri true (w_schemes w) (fun _ => w_raises w) (fun _ => w_black w) (tab_scan (w_scan w)) (tab_get (w_get w))\n"
    + "            (tab_join (w_join w)) (tab_clock cl2) (w_timeout w) (w_fuel w) (w_req w)) e2.\n"
)


def g_lookup(obs):
    if obs[0] == "raise":
        return f"(Raise {obs[1]})"
    r = obs[1]
    if r == []:
        return "(Ok LEmpty)"
    if not (isinstance(r, list) and len(r) == 1):
        return "(Raise OtherExn)"
    t = r[0]
    return f"(Ok (LTrack {g_str(t.uri or '')} (Some {c20_tags.g_track(t)}) {g_opt(t.length, g_z)}))"


def g_translate(obs):
    if obs[0] == "raise":
        return f"(Raise {obs[1]})"
    return f"(Ok {g_opt(obs[1], g_str)})"


def case_term(c):
    nodes = c["nodes"]
    st = g_list([g_pair(g_str(u), U.g_scan(n["scan"])) for u, n in nodes.items()])
    gt = g_list([g_pair(g_str(u), U.g_get(n["get"], c["parsed"].get(u) or [])) for u, n in nodes.items()])
    jt = g_list([f"({g_str(u)}, {g_str(r)}, {g_opt(v, g_str)})" for (u, r), v in c["joins"].items()])
    tg = g_list([g_pair(g_str(u), c20_tags.g_tags(n["tags"])) for u, n in nodes.items() if "tags" in n])
    du = g_list([g_pair(g_str(u), g_opt(n.get("duration"), g_z)) for u, n in nodes.items() if "tags" in n])
    tab = {}
    for n in nodes.values():
        tab.update(c20_tags.uuid_table(n.get("tags", {})))
    ut = g_list([g_pair(g_str(k), g_opt(v, g_str)) for k, v in tab.items()])
    w = (f"(mkW {st} {gt} {jt} {tg} {du} {ut} {g_list([g_str(x) for x in SCHEMES])} {g_bool(c['raises'])} {g_bool(c['black'])} "
         f"{g_z(c['timeout'])} {c['fuel'] + 1}%nat {g_str(c['request'])})")
    return (f"({w}, {g_list([g_z(x) for x in c['clock1']])}, {g_lookup(c['lookup'])}, "
            f"{g_list([g_z(x) for x in c['clock2']])}, {g_translate(c['translate'])})")


def monitors(chk, c):
    meta = {"request": c["request"], "start": c["start"], "timeout": c["timeout"]}
    lk, tr = c["lookup"], c["translate"]
    for name, obs in (("lookup", lk), ("translate_uri", tr)):
        if obs[0] == "raise" and not c["raises"]:
            chk.monitor_failure("stream_total", {"call": name, "exc": obs[2]}, f"{name} raised {obs[2]}", meta)
    if lk[0] == "ok":
        r = lk[1]
        if not (r == [] or (isinstance(r, list) and len(r) == 1 and r[0].uri == c["request"])):
            chk.monitor_failure("stream_total", {"call": "lookup", "exc": "bad-result"}, "lookup returned neither [] nor one track with the requested uri", {**meta, "result": repr(r)[:300]})
        elif r and c20_tags.check_track_fields(r[0]):
            chk.monitor_failure("tags_fields_valid", {"call": "lookup"}, "lookup returned a track violating a field constraint", {**meta, "result": repr(r)[:300]})
    if tr[0] == "ok" and not (tr[1] is None or isinstance(tr[1], str)):
        chk.monitor_failure("stream_total", {"call": "translate_uri", "exc": "bad-result"}, "translate_uri returned neither None nor a str", meta)


def run(chk, _fx=None):
    vlib.setup_impl()
    import gi.repository as gir
    from mopidy.audio import tags as tags_mod
    from mopidy.internal import http
    from mopidy.stream import actor

    n = 500 if chk.tier == "quick" else 6000
    rng = vlib.Rng(chk.seed, "C20-stream")
    rows = []
    while len(rows) < n:
        c = U.gen_case(rng)
        if not U.prepare(c):
            continue
        add_tags(rng, c, gir, tags_mod)
        c["request"] = variants(rng, c["start"])
        c["raises"] = urlsplit_raises(c["request"])
        c["black"] = bool(make_backend(None, 0)._blacklist_re.match(c["request"]))  # noqa: SLF001
        c["lookup"], c["clock1"] = call(actor, http, c, "lookup")
        c["translate"], c["clock2"] = call(actor, http, c, "translate")
        monitors(chk, c)
        rows.append(c)
        lk = c["lookup"]
        kind = "raise" if lk[0] == "raise" else ("empty" if lk[1] == [] else ("converted" if (lk[1][0].model_fields_set - {"uri", "length"}) else "bare"))
        chk.count(1, nontrivial_key=(c["request"], kind, repr(lk[1])[:200]) if kind == "converted" else None)
        chk.dist(f"stream:lookup={kind}")
        chk.dist(f"stream:translate={'raise' if c['translate'][0] == 'raise' else ('none' if c['translate'][1] is None else 'uri')}")
    shards = [rows[i : i + 250] for i in range(0, len(rows), 250)]
    texts = [HDR + "Definition cases : list T :=\n " + g_list([case_term(c) for c in s]) + ".\nEval vm_compute in mismatches ok cases.\n" for s in shards]
    ok = True
    for shard, (rc, out) in zip(shards, vlib.coq_eval_many(AREA, texts, jobs=12)):
        bad = vlib.parse_nat_list(out)
        if rc != 0 or bad is None:
            ok = False
            chk.corr_failure("stream", {"shard": "coq evaluation failed"}, out[-1500:])
            continue
        for i in bad:
            ok = False
            c = shard[i]
            chk.corr_failure("stream", {"request": c["request"], "start": c["start"], "timeout": c["timeout"], "lookup": repr(c["lookup"])[:500],
                                        "translate": repr(c["translate"])[:200], "clock1": c["clock1"], "raises": c["raises"], "black": c["black"],
                                        "nodes": {u: {"scan": nn["scan"], "tags": repr(nn.get("tags"))[:200]} for u, nn in c["nodes"].items()}})
    chk.obligation("corr:stream", "correspondence", ok)
