import sys, json, logging, collections
from common import vlib
vlib.setup_impl(); logging.disable(logging.CRITICAL)
import core_gen, core_run, core_monitors as M
profile, n, seed = sys.argv[1], int(sys.argv[2]), int(sys.argv[3]) if len(sys.argv) > 3 else 0
rng = vlib.Rng(seed, "mon-" + profile)
hits = collections.Counter(); ex = {}
for i in range(n):
    case, obs, trace = core_gen.generate_and_run(rng, profile)
    mons = [M.c01(case, trace), M.c02(case, trace, settled=(profile in ("settled","settledf"))), M.c03(case, trace, settled=(profile in ("settled","settledf"))), M.c04(case, trace), M.c05(case, trace), M.c10(case, trace)]
    for g in mons:
        for (mon, key, what, step) in g:
            k = (mon, json.dumps(key, sort_keys=True))
            hits[k] += 1
            if k not in ex or len(case["ops"]) < len(ex[k][0]["ops"]): ex[k] = (case, step, what)
for k, c in hits.most_common(): 
    case, step, what = ex[k]
    print(c, k, what, "| step", step, "kinds", case["kinds"], "lens", case["lens"], "script", case["script"], "max", case["max_len"])
    print("    ", json.dumps(case["ops"][:step+1]))
print("done", n)
