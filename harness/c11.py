"""C11 - the state file is replaced atomically; a bad file never prevents start-up.

Save side: the real storage.dump / Core._teardown run in a forked child under strace
(harness/files_trace.py).  The translated system-call trace is
  * evaluated by the Gallina predicate `crash_atomic_b` (= the property, theorem
    C11_crash_atomic_exact) and recognised as an instance of the proven protocol
    (`protocol_shape_b`, theorem C11_trace_shape_atomic);
  * replayed with REAL crashes: strace kills the child (SIGKILL) on entry to its k-th
    file-system call, for every k; and with REAL failures: the k-th call returns an
    errno.  After each run the directory is compared byte for byte with the model's
    prediction (`listing_ok`: kernel model vs kernel) and with the property (monitor).
Load side: every prefix / byte substitutions / special files against the model `load`,
`core_load` with an independent decoding oracle.
"""
from __future__ import annotations

import contextlib
import gzip
import json
import os
import shutil
import tempfile
import zlib
from concurrent.futures import ThreadPoolExecutor
from pathlib import Path

import files_trace as ft
from common import vlib
from common.vlib import g_bool, g_list, g_opt, g_z
from files_trace import g_bytes

AREA = "Files"
PROP_FILES = ["Property_C11.v"]
CORPUS = vlib.VERIF / "corpus" / "C11"

COQ_IMPORTS = (vlib.COQ_HEADER + "From Common Require Import Str Res Cases.\n"
               "From Files Require Import AtomicFile.\n")

ERRNOS = {"openat": ["ENOSPC", "EACCES"], "open": ["ENOSPC"], "creat": ["ENOSPC"],
          "write": ["ENOSPC", "EIO"], "pwrite64": ["ENOSPC"], "fsync": ["EIO", "ENOSPC"],
          "fdatasync": ["EIO"], "close": ["EIO"], "rename": ["EXDEV", "EACCES"],
          "renameat": ["EXDEV"], "renameat2": ["EXDEV"], "unlink": ["EACCES"], "unlinkat": ["EACCES"],
          "ftruncate": ["EIO"], "lseek": ["EINVAL"]}


# ---------------------------------------------------------------------------- helpers


def expected_payload(spec):
    """The JSON text the action is expected to store (None: not predicted here)."""
    import files_child

    if spec["action"] == "dump":
        return files_child.make_state(spec["n"], spec.get("salt", 0)).model_dump_json(
            indent=2, by_alias=True).encode()
    return None


def gunzip_or_none(b):
    try:
        return gzip.decompress(b)
    except Exception:  # noqa: BLE001
        return None


def old_bytes(kind):
    if kind == "absent":
        return None
    if kind == "garbage":
        return b"OLD-STATE-" * 37
    if kind == "previous":
        return gzip.compress(b'{"__model__": "StoredState", "version": "old", "state": {}}', mtime=1)
    if kind == "empty":
        return b""
    raise ValueError(kind)


def other_filesystem():
    """A writable directory on a DIFFERENT file system than the system's temporary directory
    (tmpfs /dev/shm here), or None.  Used for the data directory, so that anything the code keeps
    in the temp dir and later moves into place has to cross a file-system boundary (EXDEV)."""
    for cand in ("/dev/shm", "/run/shm", "/var/tmp"):
        try:
            if os.path.isdir(cand) and os.access(cand, os.W_OK) and \
                    os.stat(cand).st_dev != os.stat(tempfile.gettempdir()).st_dev:
                return cand
        except OSError:
            pass
    return None


class Scenario:
    def __init__(self, action, n, old_kind, salt=0, other_fs=False):
        self.action, self.n, self.old_kind, self.salt, self.other_fs = action, n, old_kind, salt, other_fs
        self.old = old_bytes(old_kind)

    def key(self):
        return {"action": self.action, "n": self.n, "old": self.old_kind,
                "data_dir": "other file system than the temp dir" if self.other_fs else "same file system as the temp dir"}

    def fresh_dir(self):
        root = Path(os.path.realpath(tempfile.mkdtemp(prefix="verif-c11-", dir=other_filesystem() if self.other_fs else None)))
        d = root / "core"
        d.mkdir()
        if self.old is not None:
            (d / "state.json.gz").write_bytes(self.old)
        return root, d

    def spec(self, d):
        return {"action": self.action, "dir": str(d), "n": self.n, "salt": self.salt}

    def run(self, inject=None):
        for attempt in range(3):
            root, d = self.fresh_dir()
            try:
                r = ft.run_action(self.spec(d), inject=inject)
                r["dir"] = os.fsencode(str(d))
                # under heavy load strace occasionally starts logging after the child was
                # released (no BEGIN marker in the log): such a run observed nothing; repeat it
                if r["error"] and "BEGIN marker not found" in r["error"] and attempt < 2:
                    continue
                return r
            finally:
                shutil.rmtree(root, ignore_errors=True)


def target_state(content, old, new_payload):
    """Classify the target after a run: 'old' | 'new' | 'bad:<why>'."""
    if content == old:
        return "old"
    if content is None:
        return "bad:missing"
    if content == b"":
        return "bad:empty"
    pay = gunzip_or_none(content)
    if pay is None:
        return "bad:truncated-or-corrupt"
    if new_payload is not None and pay == new_payload:
        return "new"
    return "bad:other-content"


def load_bytes(content):
    """storage.load of a file holding `content` (None: no file) -> StoredState | None | 'raise:X'"""
    from mopidy.internal import storage

    root = Path(tempfile.mkdtemp(prefix="verif-c11-"))
    try:
        p = root / "state.json.gz"
        if content is not None:
            p.write_bytes(content)
        try:
            return storage.load(p)
        except Exception as e:  # noqa: BLE001
            return "raise:" + type(e).__name__
    finally:
        shutil.rmtree(root, ignore_errors=True)


def g_files(d, snap):
    return g_list([f"({g_bytes(d + b'/' + k)}, {g_bytes(v)})" for k, v in sorted(snap.items())])


# ---------------------------------------------------------------------------- save side


def save_stage(chk):
    import files_child  # noqa: F401  (import check only; uses repo/src at call time)

    quick = chk.tier == "quick"
    scenarios = [Scenario("dump", 3, "garbage"), Scenario("dump", 0, "absent"),
                 Scenario("dump", 220, "previous"), Scenario("teardown", 0, "garbage")]
    if other_filesystem():
        # data dir on another file system than the temp dir: a move from the temp dir cannot be a rename
        scenarios += [Scenario("dump", 3, "garbage", other_fs=True), Scenario("dump", 220, "previous", salt=8, other_fs=True),
                      Scenario("teardown", 0, "previous", other_fs=True)]
        chk.dist("scenario:data-dir-on-other-filesystem", 3)
    else:
        chk.notes.append("no second writable file system found: the cross-device scenarios were skipped")
    if not quick:
        scenarios += [Scenario("dump", n, o, salt=s) for n, o, s in
                      [(1, "empty", 1), (40, "garbage", 2), (300, "absent", 3), (1500, "garbage", 4),
                       (2000, "previous", 5), (120, "previous", 6)]]
        scenarios += [Scenario("teardown", 0, "absent"), Scenario("teardown", 0, "previous")]
    for f in sorted(CORPUS.glob("save_*.json")) if CORPUS.exists() else []:
        c = json.loads(f.read_text())
        scenarios.insert(0, Scenario(c["action"], c["n"], c["old"], c.get("salt", 0)))

    pool = ThreadPoolExecutor(max_workers=12)
    baselines = list(pool.map(lambda sc: sc.run(), scenarios))
    jobs = []  # (scenario index, kind 'kill'|errno, attempt index)
    trans_ok = True
    for si, (sc, base) in enumerate(zip(scenarios, baselines)):
        if base["error"] or not base["trace"]["complete"]:
            trans_ok = False
            chk.corr_failure("trace_translation", {**sc.key(), "run": "baseline"},
                             base["error"] or "END marker missing")
            continue
        for ai, att in enumerate(base["trace"]["attempts"]):
            jobs.append((si, "kill", ai))
            errs = ERRNOS.get(att["kind"], ["EIO"])
            for e in (errs[:1] if quick else errs):
                jobs.append((si, e, ai))

    def do(job):
        si, what, ai = job
        att = baselines[si]["trace"]["attempts"][ai]
        return scenarios[si].run(inject=(att["site"][0], att["site"][1], what))

    results = list(pool.map(do, jobs))
    pool.shutdown()

    # --- python-side monitors + collect Coq cases
    listing_cases, listing_meta = [], []   # kernel model vs kernel, every run
    base_terms, base_meta = [], []         # property predicate on the baseline traces
    fault_cases, fault_meta = [], []       # T3 prediction vs real handled failure
    inj_ok = True
    base_index = {}
    pl_terms, pl_meta = [], []             # power-loss predicate on baseline and fault-run traces

    def add_listing(sc, r, label):
        d = r["dir"]
        ops = r["trace"]["ops"]
        files = {} if sc.old is None else {b"state.json.gz": sc.old}
        cands = sorted(set(ft.op_paths(ops)) | {d + b"/state.json.gz"})
        snap = r["snapshot"]
        extra = [k for k in snap if d + b"/" + k not in cands]
        if extra:
            chk.corr_failure("kernel_model", {**sc.key(), "run": label},
                             f"files appeared that no traced call created: {extra!r}")
        listing_cases.append(f"({ft.g_kops(ops)}, {g_files(d, files)}, "
                             f"{g_list([g_bytes(p) for p in cands])}, {g_files(d, snap)})")
        listing_meta.append({**sc.key(), "run": label, "trace": ft.describe(ops)})

    for sc, base in zip(scenarios, baselines):
        if base["error"] or not base["trace"]["complete"]:
            continue
        d, tr = base["dir"], base["trace"]
        target = d + b"/state.json.gz"
        new = base["snapshot"].get(b"state.json.gz")
        payload = expected_payload(sc.spec("x"))
        got = gunzip_or_none(new or b"")
        st = "new" if got is not None and (payload is None or got == payload) else "bad"
        chk.count(1, nontrivial_key=("base", sc.action, sc.n, sc.old_kind, sc.other_fs))
        chk.dist(f"baseline:{sc.action}")
        chk.dist(f"writes_in_trace:{min(sum(1 for o in tr['ops'] if o[0] == 'write'), 3)}")
        chk.sample({**sc.key(), "trace": ft.describe(tr["ops"]), "exit": base["status"]})
        if st != "new" or base["status"].get("exit") != 0 or set(base["snapshot"]) != {b"state.json.gz"}:
            chk.monitor_failure("save_completes", {"call": sc.action, "state": st},
                                "a save without any fault did not leave exactly the new state file",
                                {**sc.key(), "exit": base["status"], "files": sorted(map(repr, base["snapshot"]))})
        add_listing(sc, base, "baseline")
        base_terms.append(f"({ft.g_kops(tr['ops'])}, {g_bytes(target)}, {g_opt(sc.old, g_bytes)}, "
                          f"{g_bytes(new or b'')})")
        base_index[id(sc)] = len(base_meta)
        base_meta.append((sc, tr))
        pl_terms.append(base_terms[-1])
        pl_meta.append(({**sc.key(), "run": "baseline", "trace": ft.describe(tr["ops"])}, tr["ops"],
                        {"call": sc.action, "run": "baseline", "failed_call": None}))

    for job, r in zip(jobs, results):
        si, what, ai = job
        sc, base = scenarios[si], baselines[si]
        att = base["trace"]["attempts"][ai]
        label = f"{what}@{ai}:{att['kind']}"
        case = {**sc.key(), "inject": what, "at_call": ai, "call_kind": att["kind"],
                "baseline_trace": ft.describe(base["trace"]["ops"])}
        if r["error"]:
            inj_ok = False
            chk.corr_failure("trace_translation", case, r["error"])
            continue
        tr = r["trace"]
        if tr["injected"] != att["index"] or (what == "kill") != tr["killed"]:
            inj_ok = False
            chk.corr_failure("injection_landed", case,
                             f"fault landed at op {tr['injected']} (killed={tr['killed']}), wanted {att['index']}")
            continue
        payload = expected_payload(sc.spec("x"))
        if payload is None:
            payload = gunzip_or_none(base["snapshot"].get(b"state.json.gz") or b"")
        content = r["snapshot"].get(b"state.json.gz")
        st = target_state(content, sc.old, payload)
        others = sorted(k for k in r["snapshot"] if k != b"state.json.gz")
        rename_idx = next((i for i, o in enumerate(base["trace"]["ops"]) if o[0] == "rename"), None)
        after_rename = rename_idx is not None and att["index"] > rename_idx
        # save ; crash ; load at the level of the decoded session (theorem C11_dump_crash_load)
        import files_child
        loaded = load_bytes(content)
        old_loaded = load_bytes(sc.old)
        new_loaded = (files_child.make_state(sc.n, sc.salt) if sc.action == "dump"
                      else load_bytes(base["snapshot"].get(b"state.json.gz")))
        chk.dist("restart_session:" + ("old" if loaded == old_loaded else "new" if loaded == new_loaded else "OTHER"))
        if loaded != old_loaded and loaded != new_loaded:
            chk.monitor_failure(
                "crash_then_load", {"call": sc.action, "inject": "crash" if what == "kill" else "fault", "at": att["kind"]},
                f"{what} at call #{ai} ({att['kind']}), then storage.load: the restored session is neither the one the old "
                "file gave nor the new one", {**case, "loaded": repr(loaded)[:200]})
        chk.count(1, nontrivial_key=(what == "kill", sc.action, sc.n, sc.old_kind, ai, sc.other_fs))
        chk.dist("crash" if what == "kill" else "fault")
        chk.dist(f"at:{att['kind']}")
        add_listing(sc, r, label)
        if what == "kill":
            if not st.startswith(("old", "new")):
                chk.monitor_failure(
                    "crash_leaves_old_or_new",
                    {"call": sc.action, "state": st.split(":", 1)[1], "killed_at": att["kind"],
                     "after_rename": after_rename},
                    f"process killed on entry to call #{ai} ({att['kind']}): state file is {st}",
                    {**case, "size_after": None if content is None else len(content)})
        else:
            bad = []
            if not st.startswith(("old", "new")):
                bad.append(f"state file is {st}")
            if others:
                bad.append(f"{len(others)} temporary file(s) left behind")
            if bad:
                chk.monitor_failure(
                    "handled_failure_clean",
                    {"call": sc.action, "failed_call": att["kind"], "after_rename": after_rename,
                     "what": "state" if not st.startswith(("old", "new")) else "temp-left"},
                    f"{att['kind']} failing with {what}: " + "; ".join(bad),
                    {**case, "exit": r["status"]})
            # power loss after this run (un-fsynced data lost): old or new must survive
            tgt_r = r["dir"] + b"/state.json.gz"
            new_r = content if st.startswith("new") and content is not None else b""
            pl_terms.append(f"({ft.g_kops(tr['ops'])}, {g_bytes(tgt_r)}, {g_opt(sc.old, g_bytes)}, {g_bytes(new_r)})")
            pl_meta.append(({**case, "trace_of_this_run": ft.describe(tr["ops"]), "exit": r["status"]}, tr["ops"],
                            {"call": sc.action, "run": "failing-call", "failed_call": att["kind"]}))
            # T3 prediction (model of the try/finally) vs the real outcome
            fault_cases.append((si, att["index"], {"old": 0, "new": 1}.get(st.split(":")[0], 2), not others))
            fault_meta.append(case)

    # --- Coq: kernel model correspondence
    ok_listing = _eval_mismatches(
        chk, "kernel_model", listing_cases, listing_meta,
        "Definition ok (c : list kop * list (path * bytes) * list path * list (path * bytes)) : bool :=\n"
        "  let '(ops, files, cands, actual) := c in listing_ok ops files cands actual.\n",
        "list kop * list (path * bytes) * list path * list (path * bytes)")
    chk.obligation("corr:kernel_model", "correspondence", ok_listing and trans_ok and inj_ok)

    # --- Coq: the property predicate and the protocol recognizer on the baseline traces,
    #     and the T3 prediction (model of the error handler) for every injected failure
    if base_terms:
        items = [f"({base_index[id(scenarios[si])]}%nat, {j}%nat, {g_z(cls)}, {g_bool(clean)})"
                 for (si, j, cls, clean) in fault_cases]
        text = (COQ_IMPORTS
                + "Definition bases : list (list kop * path * option bytes * bytes) :=\n " + g_list(base_terms) + ".\n"
                + "Definition bad (c : list kop * path * option bytes * bytes) : Z :=\n"
                  "  let '(ops, t, old, new) := c in\n"
                  "  match first_bad_crash ops t old new with Some k => k | None => -1 end.\n"
                + "Definition shape (c : list kop * path * option bytes * bytes) : bool :=\n"
                  "  let '(ops, t, old, new) := c in protocol_shape_b ops t && bytes_eqb (shape_new ops) new\n"
                  "  && completes_b ops t old new && Bool.eqb (crash_atomic_b ops t old new) true.\n"
                + "Definition cases : list (nat * nat * Z * bool) :=\n " + g_list(items) + ".\n"
                + "Definition paths (ops : list kop) : list path := flat_map (fun o => match o with\n"
                  "  | KOpen _ p _ _ _ => [p] | KRename a b => [a; b] | KUnlink p => [p] | _ => [] end) ops.\n"
                + "Definition ok (c : nat * nat * Z * bool) : bool :=\n"
                  "  let '(b, j, cls, clean) := c in\n"
                  "  match nth_error bases b with\n"
                  "  | Some (ops, t, old, new) =>\n"
                  "      negb (protocol_shape_b ops t) ||\n"
                  "      (let '(pc, pclean) := fault_prediction ops j t old (paths ops) in\n"
                  "       (pc =? cls) && Bool.eqb pclean clean)\n"
                  "  | None => false end.\n"
                + "Eval vm_compute in map bad bases.\n"
                + "Eval vm_compute in mismatches shape bases.\n"
                + "Eval vm_compute in mismatches ok cases.\n")
        rc, out = chk.coq_eval(text, "c11_base")
        lists = vlib.parse_all_lists(out)
        if rc != 0 or len(lists) != 3 or len(lists[0]) != len(base_terms):
            chk.corr_failure("protocol_shape", {"coq": "evaluation failed"}, out[-1500:])
            chk.obligation("corr:protocol_shape", "correspondence", False)
            chk.obligation("corr:fault_outcome_model", "correspondence", False)
        else:
            for (sc, tr), k in zip(base_meta, lists[0]):
                if k >= 0:
                    after = tr["ops"][k - 1][0] if k >= 1 else "start"
                    chk.monitor_failure(
                        "trace_crash_atomic", {"call": sc.action, "bad_after": after},
                        f"crash_atomic_b is false on the real system-call trace: after call #{k} ({after}) "
                        "the state file is neither the old nor the new content",
                        {**sc.key(), "trace": ft.describe(tr["ops"]), "first_bad_crash_point": k})
            for i in lists[1]:
                sc, tr = base_meta[i]
                chk.corr_failure("protocol_shape", {**sc.key(), "trace": ft.describe(tr["ops"])},
                                 "the real trace is not an instance of the create/write/flush/rename protocol "
                                 "that the model of storage.dump (dump_uops) follows")
            chk.obligation("corr:protocol_shape", "correspondence", not lists[1])
            for i in lists[2]:
                chk.corr_failure("fault_outcome_model", fault_meta[i],
                                 f"real outcome (class,clean)={fault_cases[i][2:]} differs from the model of the error handler")
            chk.obligation("corr:fault_outcome_model", "correspondence", not lists[2])

    # --- Coq: the power-loss predicate (theorem C11_powerloss_atomic_exact) on every baseline
    #     trace and on the trace of every run in which a call was made to fail
    vals = _eval_values(
        chk, "powerloss", pl_terms,
        "Definition val (c : list kop * path * option bytes * bytes) : Z :=\n"
        "  let '(ops, t, old, new) := c in\n"
        "  match powerloss_first_bad ops t old new with Some k => k | None => -1 end.\n",
        "list kop * path * option bytes * bytes")
    if vals is None:
        chk.obligation("eval:powerloss", "correspondence", False)
    else:
        chk.obligation("eval:powerloss", "correspondence", True)
        for (case, ops, key), k in zip(pl_meta, vals):
            chk.count(1)
            chk.dist("powerloss:" + key["run"])
            if k >= 0:
                after = ops[k - 1][0] if k >= 1 else "start"
                chk.monitor_failure(
                    "powerloss_old_or_new", {**key, "bad_after": after},
                    f"power loss after call #{k} ({after}) of this run: the state file would hold data that was never "
                    "fsynced (empty/truncated), neither the complete old nor the complete new state",
                    {**case, "first_bad_point": k})

    # --- in-process: a failure raised by the compressor (not a system call)
    python_level_faults(chk)
    interrupt_faults(chk)
    fault_combinations(chk, scenarios, baselines)
    save_sequences(chk)


def _eval_mismatches(chk, name, terms, meta, ok_def, ty, shard=40):
    if not terms:
        return True
    shards, cur, size = [], [], 0
    for t in terms:
        if cur and (len(cur) >= shard or size + len(t) > 100000):
            shards.append(cur)
            cur, size = [], 0
        cur.append(t)
        size += len(t)
    if cur:
        shards.append(cur)
    offsets = [sum(len(x) for x in shards[:i]) for i in range(len(shards))]
    texts = [COQ_IMPORTS + f"Definition cases : list ({ty}) :=\n " + g_list(s) + ".\n" + ok_def
             + "Eval vm_compute in mismatches ok cases.\n" for s in shards]
    ok = True
    for si, (rc, out) in enumerate(vlib.coq_eval_many(AREA, texts, jobs=14)):
        bad = vlib.parse_nat_list(out)
        if rc != 0 or bad is None:
            ok = False
            chk.corr_failure(name, {"coq": "evaluation failed"}, out[-1500:])
            continue
        for i in bad:
            ok = False
            chk.corr_failure(name, meta[offsets[si] + i], "model prediction differs from the implementation")
    return ok


def _eval_values(chk, name, terms, val_def, ty, shard=40):
    """Evaluate `val : ty -> Z` on every term; returns the list of values (None on failure)."""
    if not terms:
        return []
    shards, cur, size = [], [], 0
    for t in terms:
        if cur and (len(cur) >= shard or size + len(t) > 100000):
            shards.append(cur)
            cur, size = [], 0
        cur.append(t)
        size += len(t)
    if cur:
        shards.append(cur)
    texts = [COQ_IMPORTS + f"Definition cases : list ({ty}) :=\n " + g_list(s) + ".\n" + val_def
             + "Eval vm_compute in map val cases.\n" for s in shards]
    out_vals = []
    for sh, (rc, out) in zip(shards, vlib.coq_eval_many(AREA, texts, jobs=14)):
        lst = vlib.parse_nat_list(out)
        if rc != 0 or lst is None or len(lst) != len(sh):
            chk.corr_failure(name, {"coq": "evaluation failed"}, out[-1500:])
            return None
        out_vals += lst
    return out_vals


class _Async(BaseException):
    """stands for any other exception raised from a signal handler"""


def interrupt_faults(chk):
    """An asynchronous exception -- KeyboardInterrupt, SystemExit, another BaseException --
    raised at EVERY line of storage.dump (sys.settrace: the exception appears in dump's frame
    right before the k-th line it executes), driven through Core._teardown().  If _teardown
    returns normally the failure was handled: no temporary file may be left and the state file
    must be the complete old or new state.  If the exception escapes (the process is dying)
    only the state file is checked."""
    import sys

    vlib.setup_impl()
    from mopidy.core import Core
    from mopidy.internal import storage

    dump_code = storage.dump.__code__
    old = old_bytes("previous")
    # Only ASYNCHRONOUS exception classes are swept over every line (a signal handler can raise
    # them between any two bytecodes).  Synchronous failures are injected where they can
    # originate: every system call (strace errno injection above) and the compressor /
    # serializer (python_level_faults); raising e.g. OSError "before `tmp_path = Path(...)`"
    # would not correspond to any possible execution.
    classes = [("KeyboardInterrupt", KeyboardInterrupt), ("SystemExit", SystemExit), ("BaseException", _Async)]
    for cname, make in classes:
        k = 0
        while k < 200:
            k += 1
            root = Path(tempfile.mkdtemp(prefix="verif-c11-"))
            try:
                d = root / "core"
                d.mkdir()
                target = d / "state.json.gz"
                target.write_bytes(old)
                core = Core(config={"core": {"max_tracklist_length": 10000, "restore_state": True,
                                             "data_dir": str(root)}}, mixer=None, backends=[])
                state = {"n": 0, "fired": False, "line": None}

                def local(frame, event, arg, state=state, k=k, make=make):
                    if event == "line":
                        state["n"] += 1
                        if state["n"] == k:
                            state["fired"] = True
                            state["line"] = frame.f_lineno - dump_code.co_firstlineno
                            raise make()
                    return local

                def tracer(frame, event, arg):
                    return local if frame.f_code is dump_code else None

                handled = True
                sys.settrace(tracer)
                try:
                    core._teardown()
                except BaseException:  # noqa: BLE001 - the process would be going down
                    handled = False
                finally:
                    sys.settrace(None)
                import gc
                gc.collect()
                if not state["fired"]:
                    break  # dump has fewer than k lines: every line was covered
                content = target.read_bytes() if target.exists() else None
                pay = gunzip_or_none(content or b"")
                st = "old" if content == old else ("new" if pay is not None and b'"StoredState"' in pay else "bad")
                others = sorted(p.name for p in d.iterdir() if p.name != "state.json.gz")
                chk.count(1, nontrivial_key=("interrupt", cname, k))
                chk.dist(f"exception_at_line:{cname}:{'handled' if handled else 'escapes'}")
                case = {"exception": cname, "at_line_event": k, "line_in_dump": state["line"], "handled_by_teardown": handled}
                if st == "bad":
                    chk.monitor_failure("handled_failure_clean",
                                        {"call": "Core._teardown", "fault": cname, "handled": handled, "what": "state"},
                                        f"{cname} raised at line +{state['line']} of storage.dump: the state file is neither old nor new",
                                        case)
                if handled and others:
                    chk.monitor_failure("handled_failure_clean",
                                        {"call": "Core._teardown", "fault": cname, "handled": True, "what": "temp-left"},
                                        f"{cname} raised at line +{state['line']} of storage.dump was handled by Core._teardown "
                                        f"(shutdown goes on) but temporary files were left behind: {others}", case)
            finally:
                shutil.rmtree(root, ignore_errors=True)


def fault_combinations(chk, scenarios, baselines):
    """Two faults in one save: the creation of the temporary file fails (EACCES / EPERM: the data
    directory is not writable) while an old state file exists, and whatever the code does next is
    then killed, or made to fail, at every further file-system call it makes."""
    pool = ThreadPoolExecutor(max_workers=12)
    firsts = []
    for sc, base in zip(scenarios, baselines):
        if base["error"] or sc.old is None or sc.n > 300:
            continue
        atts = base["trace"]["attempts"]
        if not atts or atts[0]["kind"] not in ("openat", "open", "creat"):
            continue
        sc.combo_payload = expected_payload(sc.spec("x")) or gunzip_or_none(base["snapshot"].get(b"state.json.gz") or b"")
        for errno_ in ("EACCES", "EPERM"):
            firsts.append((sc, (atts[0]["site"][0], atts[0]["site"][1], errno_)))
    phase1 = list(pool.map(lambda f: f[0].run(inject=f[1]), firsts))
    jobs = []
    for (sc, first), r in zip(firsts, phase1):
        chk.count(1, nontrivial_key=("combo1", sc.action, sc.n, sc.old_kind, first[2]))
        chk.dist("fault-combination:temp-creation-fails")
        _judge_combo(chk, sc, first, None, r)
        if r["error"]:
            continue
        later = [a for a in r["trace"]["attempts"] if a["index"] >= (r["trace"]["injected"] or 0) and a["kind"] != first[0]
                 and a["site"] != (first[0], first[1])]
        for a in later:
            for what in ("kill", ERRNOS.get(a["kind"], ["EIO"])[0]):
                jobs.append((sc, first, (a["site"][0], a["site"][1], what)))
    results = list(pool.map(lambda j: j[0].run(inject=[j[1], j[2]]), jobs))
    pool.shutdown()
    for (sc, first, second), r in zip(jobs, results):
        chk.count(1, nontrivial_key=("combo2", sc.action, sc.n, sc.old_kind, first[2], second))
        chk.dist("fault-combination:then-" + ("crash" if second[2] == "kill" else "failure"))
        _judge_combo(chk, sc, first, second, r)


def _judge_combo(chk, sc, first, second, r):
    case = {**sc.key(), "first_fault": f"{first[0]}#{first[1]} -> {first[2]} (creation of the temporary file)",
            "second_fault": None if second is None else f"{second[0]}#{second[1]} -> {second[2]}",
            "trace_of_this_run": None if r["error"] else ft.describe(r["trace"]["ops"]), "exit": r["status"]}
    if r["error"]:
        chk.corr_failure("trace_translation", case, r["error"])
        return
    content = r["snapshot"].get(b"state.json.gz")
    st = target_state(content, sc.old, sc.combo_payload)
    others = sorted(k for k in r["snapshot"] if k != b"state.json.gz")
    loaded, old_loaded = load_bytes(content), load_bytes(sc.old)
    bad = []
    if not st.startswith(("old", "new")):
        bad.append(f"state file is {st}")
    if second is None or second[2] != "kill":
        if others:
            bad.append(f"{len(others)} temporary file(s) left behind")
    if loaded != old_loaded and not st.startswith("new"):
        bad.append("storage.load restores neither the old nor the new session")
    if bad:
        chk.monitor_failure(
            "fault_combination_old_or_new",
            {"call": sc.action, "first": first[2], "second": None if second is None else ("crash" if second[2] == "kill" else "failure"),
             "at": None if second is None else second[0]},
            "temporary file cannot be created, then " + ("nothing else" if second is None else f"{second[2]} at {second[0]}#{second[1]}")
            + ": " + "; ".join(bad), case)


def save_sequences(chk):
    """SEQUENCES in one process: save S; the file is removed / damaged / replaced by something else
    (Core._load_state consumes it at the next start); save the SAME S again.  After every completed
    save the file must hold exactly the saved state."""
    import files_child

    vlib.setup_impl()
    from mopidy.core import Core
    from mopidy.internal import storage

    def damage(kind, p):
        if kind == "removed":
            p.unlink()
        elif kind == "truncated":
            p.write_bytes(p.read_bytes()[:20])
        elif kind == "garbage":
            p.write_bytes(b"not a state file")
        elif kind == "older-state":
            storage.dump(p, files_child.make_state(1, 99))
        elif kind == "consumed-by-load_state":
            Core(config={"core": {"max_tracklist_length": 10000, "restore_state": True,
                                  "data_dir": str(p.parent.parent)}}, mixer=None, backends=[])._setup()

    for n in (0, 4):
        for kind in ("removed", "truncated", "garbage", "older-state", "consumed-by-load_state", "untouched"):
            for repeat in (1, 2):
                root = Path(tempfile.mkdtemp(prefix="verif-c11-"))
                try:
                    (root / "core").mkdir()
                    p = root / "core" / "state.json.gz"
                    state = files_child.make_state(n, 5)
                    problems = []
                    for i in range(repeat + 1):
                        storage.dump(p, state)
                        if storage.load(p) != state:
                            problems.append(f"after save #{i + 1} the file does not hold the saved state "
                                            f"({'missing' if not p.exists() else 'other content'})")
                        if i < repeat:
                            damage(kind, p)
                    others = sorted(x.name for x in p.parent.iterdir() if x.name != p.name)
                    if others:
                        problems.append(f"left: {others}")
                    chk.count(1, nontrivial_key=("sequence", n, kind, repeat))
                    chk.dist("save-sequence:" + kind)
                    if problems:
                        chk.monitor_failure("save_completes", {"call": "dump", "sequence": f"dump;{kind};dump", "state": "stale"},
                                            "; ".join(problems), {"tracks": n, "between_the_saves": kind, "saves": repeat + 1})
                finally:
                    shutil.rmtree(root, ignore_errors=True)
    # the same through the core: teardown, next start consumes the file, teardown again
    root = Path(tempfile.mkdtemp(prefix="verif-c11-"))
    try:
        cfg = {"core": {"max_tracklist_length": 10000, "restore_state": True, "data_dir": str(root)}}
        core = Core(config=cfg, mixer=None, backends=[])
        p = root / "core" / "state.json.gz"
        seen = []
        for _ in range(3):
            core._teardown()
            seen.append(p.is_file() and storage.load(p) is not None)
            core._setup()
        chk.count(1, nontrivial_key=("sequence", "core"))
        chk.dist("save-sequence:core-teardown-setup-teardown")
        if not all(seen):
            chk.monitor_failure("save_completes", {"call": "Core._teardown", "sequence": "teardown;setup;teardown", "state": "stale"},
                                f"state file present and loadable after each shutdown: {seen}", {"shutdowns": 3})
    finally:
        shutil.rmtree(root, ignore_errors=True)


def python_level_faults(chk):
    """storage.dump with the gzip writer / JSON serializer raising: old file intact, no temp."""
    vlib.setup_impl()
    import files_child
    from mopidy.internal import storage

    for where in ("gzip_write", "serialize"):
        for old_kind in ("garbage", "absent"):
            root = Path(tempfile.mkdtemp(prefix="verif-c11-"))
            try:
                target = root / "state.json.gz"
                old = old_bytes(old_kind)
                if old is not None:
                    target.write_bytes(old)
                state = files_child.make_state(5, 9)
                raised = None
                if where == "gzip_write":
                    orig = gzip.GzipFile.write

                    def boom(self, data, _orig=orig):
                        raise OSError(28, "No space left on device")
                    gzip.GzipFile.write = boom
                else:
                    orig = type(state).model_dump_json

                    def boom(self, *a, **k):
                        raise ValueError("injected serialization failure")
                    type(state).model_dump_json = boom
                try:
                    storage.dump(target, state)
                except (OSError, ValueError) as e:
                    raised = type(e).__name__
                finally:
                    if where == "gzip_write":
                        gzip.GzipFile.write = orig
                    else:
                        type(state).model_dump_json = orig
                import gc
                gc.collect()
                content = target.read_bytes() if target.exists() else None
                others = sorted(p.name for p in root.iterdir() if p.name != "state.json.gz")
                chk.count(1, nontrivial_key=("pyfault", where, old_kind))
                chk.dist("python_level_fault")
                if content != old or others or raised is None:
                    chk.monitor_failure(
                        "handled_failure_clean",
                        {"call": "dump", "failed_call": where, "after_rename": False,
                         "what": "state" if content != old else ("temp" if others else "swallowed")},
                        f"{where} raising inside storage.dump: old intact={content == old}, left={others}, raised={raised}",
                        {"where": where, "old": old_kind})
            finally:
                shutil.rmtree(root, ignore_errors=True)


# ---------------------------------------------------------------------------- load side

OUTCOMES = ["NotAFile", "DOSError", "DEOFError", "DZlibError", "DValueError", "DOk", "DTypeError"]


def oracle(path):
    """Independent decoding oracle, stage by stage: (outcome class, state, gunzip stage, validate stage).
    gunzip stage: 0 OSError, 1 EOFError, 2 zlib.error, 3 ok; validate stage: 0 ValueError, 1 ok, 2 TypeError, -1 not reached."""
    from mopidy.internal.models import StoredState

    if not path.is_file():
        return "NotAFile", None, -1, -1
    try:
        with gzip.open(str(path), "rb") as fp:
            raw = fp.read()
    except EOFError:
        return "DEOFError", None, 1, -1
    except zlib.error:
        return "DZlibError", None, 2, -1
    except OSError:
        return "DOSError", None, 0, -1
    except Exception as e:  # noqa: BLE001
        return f"Other:gunzip:{type(e).__name__}", None, -1, -1
    try:
        return "DOk", StoredState.model_validate_json(raw), 3, 1
    except ValueError:
        return "DValueError", None, 3, 0
    except TypeError:
        return "DTypeError", None, 3, 2     # a model's custom __init__ met a missing key
    except Exception as e:  # noqa: BLE001
        return f"Other:validate:{type(e).__name__}", None, 3, -1


UUID1 = "0383dadf-2a4e-4d10-a46a-e9e041da8eb3"


def rich_state_json():
    """A well-formed state file (as a JSON value) that uses EVERY field of every model that
    can occur in it."""
    artist = {"__model__": "Artist", "uri": "dummy:artist:1", "name": "An Artist", "sortname": "Artist, An",
              "musicbrainz_id": UUID1}
    album = {"__model__": "Album", "uri": "dummy:album:1", "name": "An Album", "artists": [artist], "num_tracks": 12,
             "num_discs": 2, "date": "2004-07-01", "musicbrainz_id": UUID1}
    track = {"__model__": "Track", "uri": "dummy:track:1", "name": "A Track", "artists": [artist], "album": album,
             "composers": [artist], "performers": [artist], "genre": "Rock", "track_no": 3, "disc_no": 1,
             "date": "2004", "length": 180000, "bitrate": 320, "comment": "a comment", "musicbrainz_id": UUID1,
             "last_modified": 1700000000}
    return {
        "__model__": "StoredState", "version": "verif",
        "state": {
            "__model__": "CoreState",
            "history": {"__model__": "HistoryState", "history": [
                {"__model__": "HistoryTrack", "timestamp": 1700000000000,
                 "track": {"__model__": "Ref", "uri": "dummy:track:1", "name": "A Track", "type": "track"}}]},
            "mixer": {"__model__": "MixerState", "volume": 40, "mute": False},
            "playback": {"__model__": "PlaybackState", "tlid": 1, "time_position": 5000, "state": "paused"},
            "tracklist": {"__model__": "TracklistState", "repeat": True, "consume": False, "random": False, "single": True,
                          "next_tlid": 3, "tl_tracks": [{"__model__": "TlTrack", "tlid": 1, "track": track},
                                                        {"__model__": "TlTrack", "tlid": 2, "track": {"__model__": "Track", "uri": "dummy:track:2"}}]},
        },
    }


# one value (at least) of every JSON type, plus numbers that parse but cannot be applied
REPLACEMENTS = [7, -1, 0, 250, 10 ** 15, 1.5, True, False, None, "str", "", "2004-07-01T00:00:00Z", "playing",
                [], [1], ["x"], {}, {"a": 1}]


def json_paths(v, prefix=()):
    yield prefix
    if isinstance(v, dict):
        for k in v:
            yield from json_paths(v[k], prefix + (k,))
    elif isinstance(v, list):
        for i, x in enumerate(v):
            yield from json_paths(x, prefix + (i,))


def json_set(v, path, new, delete=False):
    import copy
    v = copy.deepcopy(v)
    if not path:
        return new
    cur = v
    for k in path[:-1]:
        cur = cur[k]
    if delete:
        del cur[path[-1]]
    else:
        cur[path[-1]] = new
    return v


def illtyped_states(chk):
    """Files that are valid gzip and valid JSON with the right structure, in which ONE node (every
    leaf and every inner object/list of a state using every model field) is replaced by a value
    of every JSON type, removed, or accompanied by an unknown key."""
    base = rich_state_json()
    yield "welltyped:rich", "regular", gzip.compress(json.dumps(base).encode(), mtime=0)
    paths = [p for p in json_paths(base) if p]
    quick = chk.tier == "quick"
    for p in paths:
        old = base
        for k in p:
            old = old[k]
        reps = [r for r in REPLACEMENTS if r != old or type(r) is not type(old)]
        if quick and len(p) > 6:
            reps = reps[:: 2] + [reps[-1]]
        label = "/".join(str(k) for k in p)
        for r in reps:
            yield f"illtyped:{label}={json.dumps(r)[:24]}", "regular", gzip.compress(json.dumps(json_set(base, p, r)).encode(), mtime=0)
        if not isinstance(p[-1], int):
            yield f"illtyped:{label}:removed", "regular", gzip.compress(json.dumps(json_set(base, p, None, delete=True)).encode(), mtime=0)
    # documents nested deeper than any parser's recursion limit, and very long scalars -- as the
    # whole document, inside model fields and inside an unknown key
    def deep(n, kind):
        return ("[" * n + "]" * n) if kind == "array" else ('{"a":' * n + "1" + "}" * n)

    for n in ((2000, 20000) if quick else (2000, 20000, 100000)):
        for kind in ("array", "object"):
            yield f"deep:{kind}:{n}:document", "regular", gzip.compress(deep(n, kind).encode(), mtime=0)
            for p in [("version",), ("state", "mixer", "volume"), ("state", "tracklist", "tl_tracks"),
                      ("state", "tracklist", "tl_tracks", 0, "track", "artists"), ("state", "history")]:
                doc = json.dumps(json_set(base, p, "@@DEEP@@")).replace('"@@DEEP@@"', deep(n, kind))
                yield f"deep:{kind}:{n}:" + "/".join(map(str, p)), "regular", gzip.compress(doc.encode(), mtime=0)
            doc = json.dumps({**base, "unknown_key": "@@DEEP@@"}).replace('"@@DEEP@@"', deep(n, kind))
            yield f"deep:{kind}:{n}:unknown-key", "regular", gzip.compress(doc.encode(), mtime=0)
    for label, token in (("string-1e6", '"' + "x" * 10 ** 6 + '"'), ("int-1e5-digits", "9" * 10 ** 5),
                         ("int-5000-digits", "1" + "0" * 5000), ("float-1e400", "1e400"), ("float-long", "0." + "3" * 10 ** 5),
                         ("neg-int-1e5-digits", "-" + "9" * 10 ** 5), ("string-escapes", '"' + "\\u00e9" * 10 ** 5 + '"')):
        for p in [("version",), ("state", "mixer", "volume"), ("state", "playback", "time_position"),
                  ("state", "tracklist", "tl_tracks", 0, "track", "name"), ("state", "tracklist", "next_tlid")]:
            doc = json.dumps(json_set(base, p, "@@LONG@@")).replace('"@@LONG@@"', token)
            yield f"long:{label}:" + "/".join(map(str, p)), "regular", gzip.compress(doc.encode(), mtime=0)
    for p in [q for q in json_paths(base) if isinstance(_get(base, q), dict)]:
        d = dict(_get(base, p))
        d["unknown_key"] = 1
        yield "illtyped:" + "/".join(map(str, p)) + ":extra-key", "regular", gzip.compress(
            json.dumps(json_set(base, p, d) if p else d).encode(), mtime=0)


def _get(v, path):
    for k in path:
        v = v[k]
    return v


def load_contents(chk):
    """Yield (label, kind, bytes|None) - kind: regular | directory | missing."""
    import files_child
    from mopidy.internal import storage

    quick = chk.tier == "quick"
    rng = chk.rng
    valid = []
    tmp = Path(tempfile.mkdtemp(prefix="verif-c11-"))
    try:
        for n in ([0, 2, 30] if quick else [0, 1, 2, 30, 400]):
            p = tmp / "s.gz"
            storage.dump(p, files_child.make_state(n, n + 11))
            import gc
            gc.collect()
            valid.append(p.read_bytes())
            p.unlink()
    finally:
        shutil.rmtree(tmp, ignore_errors=True)
    yield "missing", "missing", None
    yield "directory", "directory", None
    for f in sorted(CORPUS.glob("load_*.json")) if CORPUS.exists() else []:
        c = json.loads(f.read_text())
        yield "corpus:" + f.stem, "regular", bytes.fromhex(c["hex"])
    specials = {
        "empty": b"", "not-gzip": b"this is not gzip at all\n", "gzip-magic-only": b"\x1f\x8b",
        "gzip-not-json": gzip.compress(b"hello", mtime=0),
        "gzip-bad-utf8": gzip.compress(b'{"a": "\xff\xfe"}', mtime=0),
        "gzip-wrong-schema": gzip.compress(b'{"__model__": "StoredState", "version": 3}', mtime=0),
        "gzip-json-list": gzip.compress(b"[1, 2, 3]", mtime=0),
        "gzip-empty-payload": gzip.compress(b"", mtime=0),
        "gzip-wrong-model": gzip.compress(b'{"__model__": "Track", "uri": "x:y"}', mtime=0),
        "gzip-trailing-garbage": valid[1] + b"garbage",
        "two-members": valid[0] + valid[0],
        "zlib-stream": zlib.compress(b"{}"),
        "nul-bytes": b"\x00" * 64,
    }
    for k, v in specials.items():
        yield "special:" + k, "regular", v
    yield from illtyped_states(chk)
    for vi, data in enumerate(valid):
        yield f"valid:{vi}", "regular", data
        small = len(data) <= 700
        cuts = range(len(data)) if (small or not quick) else sorted(rng.sample(range(len(data)), 150))
        if not small and not quick:
            cuts = sorted(set(rng.sample(range(len(data)), 1500)) | set(range(40)) | set(range(len(data) - 40, len(data))))
        for c in cuts:
            yield f"prefix:{vi}", "regular", data[:c]
        if small:
            positions = range(len(data))
            per = 4 if quick else (255 if vi == 0 else 12)
        else:
            positions = sorted(rng.sample(range(len(data)), 120 if quick else 1200))
            per = 2 if quick else 4
        for pos in positions:
            vals = [x for x in range(256) if x != data[pos]]
            if per < 255:
                pick = {data[pos] ^ 1, data[pos] ^ 0x80, 0, 255} - {data[pos]}
                pick = list(pick) + rng.sample(vals, per)
                vals = sorted(set(pick))[:max(per, 1)] if per <= 4 else sorted(set(pick))
            for v in vals:
                yield f"subst:{vi}", "regular", data[:pos] + bytes([v]) + data[pos + 1:]


class debug_logging:
    """DEBUG logging enabled for the whole mopidy logger tree, every record formatted by a handler
    that discards it."""

    def __enter__(self):
        import logging

        class Sink(logging.Handler):
            def emit(self, record):
                self.format(record)

        self.logging = logging
        self.prev_disable = logging.root.manager.disable
        logging.disable(logging.NOTSET)
        self.logger = logging.getLogger("mopidy")
        self.prev = (self.logger.level, self.logger.propagate)
        self.sink = Sink()
        self.logger.addHandler(self.sink)
        self.logger.setLevel(logging.DEBUG)
        self.logger.propagate = False
        return self

    def __exit__(self, *exc):
        self.logger.removeHandler(self.sink)
        self.logger.setLevel(self.prev[0])
        self.logger.propagate = self.prev[1]
        self.logging.disable(self.prev_disable)
        return False


def load_stage(chk):
    vlib.setup_impl()
    from mopidy.core import Core
    from mopidy.internal import storage

    root = Path(tempfile.mkdtemp(prefix="verif-c11-"))
    cases, meta = [], []
    core_cases, core_meta = [], []
    core_every = 7 if chk.tier == "quick" else 23
    try:
        data_dir = root / "data"
        (data_dir / "core").mkdir(parents=True)
        path = data_dir / "core" / "state.json.gz"
        cfg = {"core": {"max_tracklist_length": 10000, "restore_state": True, "data_dir": str(data_dir)}}
        for i, (label, kind, content) in enumerate(load_contents(chk)):
            def place():
                if path.is_dir():
                    path.rmdir()
                elif path.exists():
                    path.unlink()
                if kind == "regular":
                    path.write_bytes(content)
                elif kind == "directory":
                    path.mkdir()
            place()
            out, state, gz, js = oracle(path)
            try:
                got = storage.load(path)
                obs = "none" if got is None else "some"
            except Exception as e:  # noqa: BLE001
                got, obs = None, "raise:" + type(e).__name__
            # the outcome must not depend on the log level: the same call with DEBUG logging enabled
            # for mopidy (handlers that format every record)
            with debug_logging():
                try:
                    got_d = storage.load(path)
                    obs_d = "none" if got_d is None else "some"
                except Exception as e:  # noqa: BLE001
                    got_d, obs_d = None, "raise:" + type(e).__name__
            if obs_d != obs or got_d != got:
                chk.monitor_failure("log_level_independent", {"call": "storage.load", "with_debug": obs_d.split(":")[0]},
                                    f"storage.load gives {obs} with logging off but {obs_d} with DEBUG logging enabled",
                                    {"content": label, "size": None if content is None else len(content), "outcome": out,
                                     "hex": content.hex() if content is not None and len(content) <= 400 else None})
            cls = label.split(":")[0]
            chk.count(1, nontrivial_key=(out, cls, None if content is None else hash(content)) if out != "DOk" else None)
            chk.dist(f"load:{cls}")
            chk.dist(f"outcome:{out}")
            case = {"content": label, "size": None if content is None else len(content), "outcome": out,
                    "hex": content.hex() if content is not None and len(content) <= 400 else None}
            if len(chk.samples) < 6 and out not in ("DOk",) and i % 97 == 3:
                chk.sample({k: case[k] for k in ("content", "size", "outcome")} | {"load": obs})
            if obs.startswith("raise:"):
                chk.monitor_failure("load_total", {"call": "storage.load", "exc": obs[6:]},
                                    f"storage.load raised {obs[6:]} for a {cls} file ({out})", case)
            if out not in OUTCOMES:
                chk.corr_failure("load_model", case, f"decoding oracle produced a class outside its outcome set: {out}")
                out = "DValueError"   # go on: Core._setup / _load_state must still cope with this file
            same = (got == state) if out == "DOk" else True
            code = {"none": 0, "some": 1}.get(obs, {"raise:OSError": 2, "raise:EOFError": 3, "raise:error": 4,
                                                   "raise:ValueError": 5, "raise:ValidationError": 5}.get(obs, 9))
            cases.append(f"({OUTCOMES.index(out)}, {code}, {g_bool(same)}, {g_z(gz)}, {g_z(js)})")
            meta.append(case)
            # Core._load_state / Core._setup on a subset (and on everything that is not a plain prefix/subst)
            if i % core_every == 0 or cls not in ("prefix", "subst"):
                for entry in ("_load_state", "_setup"):
                    place()
                    core = Core(config=cfg, mixer=None, backends=[])
                    dbg = debug_logging() if (i % 2 == 1) else contextlib.nullcontext()
                    try:
                        with dbg:
                            if entry == "_setup":
                                core._setup()
                            else:
                                core._load_state(["tracklist", "mode", "play-last", "mixer", "history"])
                        raised = None
                    except Exception as e:  # noqa: BLE001
                        raised = type(e).__name__
                    chk.dist("core:log-level=" + ("DEBUG" if i % 2 == 1 else "off"))
                    still = os.path.lexists(path)
                    chk.count(1)
                    chk.dist(f"core:{entry}")
                    # a state that parses may still be impossible to APPLY (mixer volume 250, ...): the
                    # controllers raising in _load_state is C10's subject; _setup must swallow it
                    unappliable = entry == "_load_state" and out == "DOk" and raised is not None
                    if unappliable:
                        chk.dist("core:parseable-but-unappliable")
                    if raised is not None and not unappliable:
                        chk.monitor_failure("startup_total", {"call": f"Core.{entry}", "exc": raised},
                                            f"Core.{entry} raised {raised} for a {cls} file ({out})", case)
                    if kind == "regular" and still:
                        chk.monitor_failure("bad_file_removed", {"call": f"Core.{entry}", "outcome": out,
                                                                 "unappliable": bool(unappliable or (out == "DOk" and entry == "_setup"))},
                                            f"after Core.{entry} the {cls} state file ({out}) is still there: the next start "
                                            "meets the same file again", case)
                    if entry == "_setup":
                        # ... and the NEXT start is not affected either
                        core2 = Core(config=cfg, mixer=None, backends=[])
                        try:
                            core2._setup()
                            raised2 = None
                        except Exception as e:  # noqa: BLE001
                            raised2 = type(e).__name__
                        if raised2 is not None or (kind == "regular" and os.path.lexists(path)):
                            chk.monitor_failure("next_start_clean", {"call": "Core._setup", "outcome": out},
                                                f"second start after a {cls} state file ({out}): raised={raised2}, "
                                                f"file still there={os.path.lexists(path)}", case)
                    if entry == "_load_state":
                        k = {"missing": 0, "directory": 1, "regular": 2}[kind]
                        core_cases.append(f"({k}, {OUTCOMES.index(out)}, {g_bool(raised is not None)}, {g_bool(still)}, "
                                          f"{g_bool(bool(unappliable))})")
                        core_meta.append({**case, "entry": entry, "raised": raised, "still_there": still})
    finally:
        shutil.rmtree(root, ignore_errors=True)

    dec = ("Definition outcome (n : Z) : decode_outcome unit :=\n"
           "  if n =? 0 then NotAFile else if n =? 1 then DOSError else if n =? 2 then DEOFError\n"
           "  else if n =? 3 then DZlibError else if n =? 4 then DValueError else if n =? 6 then DTypeError else DOk tt.\n")
    ok1 = _eval_mismatches(
        chk, "load_model", cases, meta,
        dec + "Definition gzs (g : Z) : bytes -> gz_outcome := fun b =>\n"
              "  if g =? 0 then GzOSError else if g =? 1 then GzEOF else if g =? 2 then GzZlib else GzOk b.\n"
              "Definition jss (j : Z) : bytes -> js_outcome unit := fun _ => if j =? 1 then JsOk tt else if j =? 2 then JsTypeError else JsValueError.\n"
              "Definition agrees (r : res exn (option unit)) (obs : Z) (same : bool) : bool :=\n"
              "  match r with Ok None => obs =? 0 | Ok (Some _) => (obs =? 1) && same | _ => false end.\n"
              "Definition ok (c : Z * Z * bool * Z * Z) : bool :=\n"
              "  let '(o, obs, same, g, j) := c in\n"
              "  agrees (load (outcome o)) obs same &&\n"
              "  agrees (load_file (gzs g) (jss j) (if o =? 0 then None else Some [])) obs same.\n",
        "Z * Z * bool * Z * Z", shard=500)
    chk.obligation("corr:load_model", "correspondence", ok1)
    ok2 = _eval_mismatches(
        chk, "core_load_model", core_cases, core_meta,
        dec + "Definition kind (n : Z) : fkind := if n =? 0 then FMissing else if n =? 1 then FDirectory else FRegular.\n"
              "Definition ok (c : Z * Z * bool * bool * bool) : bool :=\n"
              "  let '(k, o, raised, still, unappliable) := c in\n"
              "  negb (outcome_fits (kind k) (outcome o)) ||\n"
              "  match core_restore (kind k) true unappliable (outcome o) with\n"
              "  | (Ok _, st) => negb raised && Bool.eqb st still\n"
              "  | (Raise _, st) => raised && unappliable && Bool.eqb st still\n  | _ => false end.\n",
        "Z * Z * bool * bool * bool", shard=500)
    chk.obligation("corr:core_load_model", "correspondence", ok2)


# ---------------------------------------------------------------------------- search


def make_search(chk):
    def search(cf):
        """A tie broke: sweep every crash point of more scenarios looking for a bad state."""
        for n, o in [(1, "garbage"), (60, "previous"), (900, "absent"), (2500, "garbage")]:
            sc = Scenario("dump", n, o, salt=77)
            base = sc.run()
            if base["error"]:
                continue
            payload = expected_payload(sc.spec("x"))
            for ai, att in enumerate(base["trace"]["attempts"]):
                r = sc.run(inject=(att["site"][0], att["site"][1], "kill"))
                st = target_state(r["snapshot"].get(b"state.json.gz"), sc.old, payload)
                if not st.startswith(("old", "new")):
                    return {"monitor": "crash_leaves_old_or_new",
                            "key": {"call": "dump", "state": st.split(":", 1)[1], "killed_at": att["kind"]},
                            "what": f"killed on entry to call #{ai} ({att['kind']}): state file is {st}",
                            "case": {**sc.key(), "at_call": ai, "trace": ft.describe(base["trace"]["ops"])}}
        return None
    return search


def run(chk):
    chk.rule = ("save: one real run per (action, state size, old-file kind) x every file-system call of the "
                "save as crash point (SIGKILL) and as failing call (errno); non-trivial = distinct "
                "(scenario, injection point).  load: distinct file contents that are not a valid state "
                "(prefixes, byte substitutions, specials)")
    chk.trusted_base = [
        "Coq 8.16.1 kernel + vm_compute (no native_compute)",
        "strace 6.1 (log format, per-tracee fault injection) and harness/files_trace.py (fail-closed translator)",
        "harness/c11.py, harness/files_child.py (scenario driver, snapshots, decoding oracle)",
        "Linux page-cache semantics for process death (kernel model AtomicFile.kstep is correspondence-checked "
        "against the real directory after every injected crash/fault)",
    ]
    chk.assumptions = [
        "two crash models: death of the process (page cache survives; real SIGKILLs) and power loss as the journalling abstraction (content durable after fsync of the file, directory operations durable at once; model-side on real traces)",
        "gzip/zlib/pydantic are oracles with the outcome set NotAFile|OSError|EOFError|zlib.error|ValueError|TypeError|Ok",
        "no concurrent writer to the data directory; writes through mmap would be invisible to the trace",
    ]
    chk.search_hook = make_search(chk)
    import logging
    logging.disable(logging.CRITICAL)
    chk.proof_stage(PROP_FILES, thorough_coqchk=(chk.tier == "thorough"))
    vlib.setup_impl()
    save_stage(chk)
    load_stage(chk)
