"""C17 - every core event reaches every WebSocket client once, in order.

Model: coq/Http/Broadcast.v.  The implementation side is the full real chain
    CoreListener.send -> mopidy.listener.send -> pykka tell -> HttpFrontend.on_event (actor
    thread) -> mopidy.http.actor.on_event -> WebSocketHandler.broadcast -> IO loop ->
    _send_broadcast -> write_message -> TCP -> tornado.websocket.websocket_connect client
with a real HttpFrontend actor (started by pykka from the class registered by the real
Extension.setup) and 0-5 real WebSocket clients.

* settled runs: the frontend hands its callbacks to a proxy of the IO loop that keeps them
  in a FIFO; the harness runs them one at a time on the real loop, so the schedule
  (Emit / Connect / Disconnect / SocketFails / SocketRecovers / RunCallback) is exactly the
  model's step list.  Compared exactly: every client's received log, and for every Emit the
  set of clients a callback was scheduled for.
* racing runs: the real IO loop, an emitter thread and a churn thread running concurrently;
  only the property predicates T1-T3 are monitored.
* message shape (T4): every received message is compared with {"event": name} + arguments
  (argument payloads compared with pydantic's own dump, modulo the spelling of the model
  tag key).
"""

from __future__ import annotations

import asyncio
import atexit
import json
import shutil
import tempfile
import threading
import time

from common import vlib
from common.vlib import g_list, g_str, g_z

import http_live as L

AREA = "Http"
PROP_FILES = ["Property_C17.v"]
SENTINEL = "VERIF-SENTINEL"
TAG_KEYS = ("model", "__model__")

# ----------------------------------------------------------------------------
# events: all 14 core event types with their argument shapes (core/listener.py)

EVENT_ARGS = {
    "track_playback_paused": ["tl_track", "time_position"],
    "track_playback_resumed": ["tl_track", "time_position"],
    "track_playback_started": ["tl_track"],
    "track_playback_ended": ["tl_track", "time_position"],
    "playback_state_changed": ["old_state", "new_state"],
    "tracklist_changed": [],
    "playlists_loaded": [],
    "playlist_changed": ["playlist"],
    "playlist_deleted": ["uri"],
    "options_changed": [],
    "volume_changed": ["volume"],
    "mute_changed": ["mute"],
    "seeked": ["time_position"],
    "stream_title_changed": ["title"],
}


_SPECS = {}   # id(model object) -> (object, spec it was built from); see gen_model


def gen_model(rng, kind, idx):
    """A TlTrack / Playlist argument from the Rpc area's model generator (harness/c08.py):
    every optional field absent or present, nested albums and artist sets (0-3 artists, names
    and uris present or missing, unicode, quotes, NUL), big integers, dates, UUIDs.  Returns
    None if that generator is unavailable.  The spec is remembered: the expected JSON of the
    argument is computed from the spec, independently of the models' own serialisers."""
    try:
        import c08
        import mopidy.models as M
    except Exception:  # noqa: BLE001
        return None
    for _ in range(20):
        spec = c08.gen_tltrack(rng) if kind == "tl_track" else c08.gen_playlist(rng)
        if kind == "tl_track":
            spec["tlid"] = idx + 1
            tracks = [spec["track"]]
        else:
            spec["uri"] = f"dummy:p{idx}"
            tracks = spec["tracks"]
        if tracks and rng.random() < 0.3:
            # directed: a set of two or more artists of which one has no name / no fields at all
            t = rng.choice(tracks)
            field = rng.choice(["artists", "composers", "performers", "album"])
            pair = [{"cls": "Artist", "uri": None, "name": None, "sortname": None, "musicbrainz_id": None},
                    {"cls": "Artist", "uri": "dummy:a", "name": rng.choice(["x", "é", ""]), "sortname": None,
                     "musicbrainz_id": None}]
            if rng.random() < 0.5:
                pair.append(c08.gen_artist(rng))
            pair = [a for i, a in enumerate(pair) if a not in pair[:i]]
            if field == "album":
                t["album"] = c08.gen_album(rng)
                t["album"]["artists"] = pair
            else:
                t[field] = pair
        try:
            m = c08.build(M, spec)
        except Exception:  # noqa: BLE001 - a spec the models reject: try another
            continue
        _SPECS[id(m)] = (m, spec)
        return m
    return None


def make_event(rng, idx, used, allow_repeat=False):
    """An event (name, kwargs) whose serialised content differs from every earlier one of
    the schedule (contents in ``used``), so that a received message identifies its emission."""
    from mopidy.audio import PlaybackState
    from mopidy.models import Album, Artist, Playlist, TlTrack, Track

    def track():
        k = rng.randrange(3)
        if k == 0:
            return Track(uri=f"dummy:t{idx}")
        if k == 1:
            return Track(uri=f"dummy:t{idx}", name=f"Né {idx}", length=1000 + idx,
                         artists=[Artist(name="a", uri="dummy:a")], album=Album(name="alb"))
        return Track(uri=f"dummy:t{idx}", name='q"\\\n', track_no=idx, genre="g")

    for _ in range(200):
        name = rng.choice(list(EVENT_ARGS))
        kw = {}
        for a in EVENT_ARGS[name]:
            if a == "tl_track":
                kw[a] = (gen_model(rng, a, idx) if rng.random() < 0.7 else None) or TlTrack(tlid=idx + 1, track=track())
            elif a == "time_position":
                kw[a] = idx * 1000 + rng.randrange(1000)
            elif a in ("old_state", "new_state"):
                kw[a] = rng.choice(list(PlaybackState))
            elif a == "playlist":
                kw[a] = (gen_model(rng, a, idx) if rng.random() < 0.7 else None) or Playlist(
                    uri=f"dummy:p{idx}", name=rng.choice(["pl", "", "☃"]),
                    tracks=[track() for _ in range(rng.randrange(3))])
            elif a == "uri":
                kw[a] = f"dummy:p{idx}"
            elif a == "volume":
                kw[a] = idx % 101
            elif a == "mute":
                kw[a] = rng.random() < 0.5
            elif a == "title":
                kw[a] = rng.choice(["title %d", "über %d", '"%d"', "%d\n"]) % idx
        content = canonical(expected_message(name, kw))
        if content not in used or allow_repeat:
            used.add(content)
            return name, kw, content
    raise RuntimeError("could not build a fresh event")


def strip_tags(v):
    """Normalise the spelling of the model tag key (C08 owns it): model -> __model__."""
    if isinstance(v, dict):
        return {("__model__" if k in TAG_KEYS else k): strip_tags(x) for k, x in v.items()}
    if isinstance(v, list):
        return [strip_tags(x) for x in v]
    return v


def encode_event(name, kw):
    """JSON-able description of an emitted event (for replay files)."""
    out = {}
    for k, v in kw.items():
        ent = _SPECS.get(id(v))
        if ent is not None and ent[0] is v:
            out[k] = {"spec": ent[1]}
        elif isinstance(v, (bool, int, str)) and not hasattr(v, "value"):
            out[k] = {"json": v}
        elif hasattr(v, "value"):
            out[k] = {"state": v.value}
        else:
            out[k] = {"model_json": json.loads(v.model_dump_json(by_alias=True, exclude_none=True))
                      if hasattr(v, "model_dump_json") else repr(v)}
    return [name, out]


def decode_event(enc):
    import c08
    import mopidy.models as M
    from mopidy.audio import PlaybackState
    from pydantic import TypeAdapter

    name, args = enc
    kw = {}
    for k, d in args.items():
        if "spec" in d:
            m = c08.build(M, d["spec"])
            _SPECS[id(m)] = (m, d["spec"])
            kw[k] = m
        elif "json" in d:
            kw[k] = d["json"]
        elif "state" in d:
            kw[k] = PlaybackState(d["state"])
        else:
            kw[k] = TypeAdapter(M.TlTrack if k == "tl_track" else M.Playlist).validate_python(d["model_json"])
    return name, kw


def norm_payload(v):
    """Canonical form of a JSON payload: model tag spelling normalised (C08 owns it), null
    members dropped, arrays that come from frozenset fields sorted."""
    v = strip_tags(v)
    try:
        import c08
        return c08.canon(c08.strip_nulls(v))
    except Exception:  # noqa: BLE001
        return v


def expected_message(name, kw):
    """{"event": name} + every argument under its own name.  Payload of a generated model:
    straight from the spec it was built from (not through the models' serialisers); other
    values: pydantic's own dump."""
    from pydantic import TypeAdapter

    out = {}
    for k, v in kw.items():
        ent = _SPECS.get(id(v))
        if ent is not None and ent[0] is v:
            import c08
            out[k] = norm_payload(c08.spec_json(ent[1]))
        else:
            out[k] = norm_payload(json.loads(TypeAdapter(type(v)).dump_json(v)))
    out["event"] = name
    return out


def canonical(obj):
    return json.dumps(norm_payload(obj), sort_keys=True, ensure_ascii=True)


# ----------------------------------------------------------------------------
# the rig: real frontend actor + client loop


NODELAY_FAIL = set()   # client ids whose server-side set_nodelay raises OSError at connect


def install_nodelay_fault():
    """Connect-time fault: the server-side WebSocket protocol object's set_nodelay (what
    WebSocketHandler.set_nodelay -> stream.set_nodelay(TCP_NODELAY) goes through) raises
    OSError for the chosen connections (identified by the ?cid= of the request)."""
    import tornado.websocket as tw

    if getattr(tw.WebSocketProtocol13.set_nodelay, "_verif", False):
        return
    orig = tw.WebSocketProtocol13.set_nodelay

    def set_nodelay(self, x):
        q = getattr(getattr(getattr(self, "handler", None), "request", None), "query", "") or ""
        if isinstance(q, str) and q.startswith("cid=") and q[4:].isdigit() and int(q[4:]) in NODELAY_FAIL:
            raise OSError(92, "Protocol not available (injected by the harness)")
        return orig(self, x)

    set_nodelay._verif = True
    tw.WebSocketProtocol13.set_nodelay = set_nodelay


class InterleavingSet(set):
    """Deterministic interleaving injection for the cross-thread hand-off.

    WebSocketHandler.clients is read by the frontend's actor thread (broadcast) while the
    IO-loop thread adds / discards handlers (open / on_close).  CPython switches threads
    only between bytecode instructions, so a C-level read of the set (``.copy()``,
    ``list(s)``, ``set(s)``, ``sorted(s)``) is atomic, whereas an iteration driven by
    bytecode (a ``for`` loop, a comprehension, a generator expression: ``FOR_ITER``) can be
    interrupted between any two elements.  This subclass makes exactly those points
    schedulable: when armed, its iterator runs the planned actions (a real client connecting
    or disconnecting, completed on the IO-loop thread) before handing out element number
    ``point`` - but only if the ``__next__`` call comes from a ``FOR_ITER`` instruction.
    The underlying real set iterator then behaves as CPython does (RuntimeError "Set
    changed size during iteration").  ``set.copy()`` on a subclass returns a plain set and
    never calls this ``__iter__``: on an atomic implementation no action ever fires and the
    harness performs the planned actions right after the emit instead."""

    def __init__(self, *a):
        super().__init__(*a)
        self.plan = []        # [(point, action)]
        self.perform = None
        self.fired = []
        self.in_hook = False
        self.errors = []

    def arm(self, plan, perform):
        self.plan, self.perform, self.fired = list(plan), perform, []

    def disarm(self):
        rest, self.plan = self.plan, []
        return rest

    def __iter__(self):
        return _InterleavingIter(self, set.__iter__(self))


class _InterleavingIter:
    def __init__(self, owner, it):
        self.owner, self.it, self.k = owner, it, 0

    def __iter__(self):
        return self

    def __next__(self):
        import dis
        import sys as _sys

        o = self.owner
        if o.plan and not o.in_hook:
            f = _sys._getframe(1)
            if dis.opname[f.f_code.co_code[f.f_lasti]] == "FOR_ITER":
                due = [pa for pa in o.plan if pa[0] <= self.k]
                for pa in due:
                    o.plan.remove(pa)
                    o.in_hook = True
                    try:
                        o.perform(pa[1])
                        o.fired.append((self.k, pa[1]))
                    except Exception as e:  # noqa: BLE001
                        o.errors.append(f"interleaved action {pa[1]} failed: {e!r}")
                    finally:
                        o.in_hook = False
        self.k += 1
        return next(self.it)


class _Capture(__import__("logging").Handler):
    def __init__(self):
        super().__init__()
        self.records = []

    def emit(self, record):
        txt = record.getMessage()
        if record.exc_info and record.exc_info[1] is not None:
            txt += f" {type(record.exc_info[1]).__name__}: {record.exc_info[1]}"
        self.records.append(txt)


EMITS = ("emit", "snap")


class ProxyLoop:
    """Stands in for server.io_loop during settled runs: callbacks handed over by
    WebSocketHandler.broadcast are kept in FIFO order until the harness runs them.

    With ``gated`` every add_callback call of the actor thread blocks until the harness
    releases it (a HandOver step of the model): the loop-side steps of a schedule (callback
    runs, connects, disconnects, failures) can then be placed between the snapshot and the
    individual hand-overs of one broadcast."""

    def __init__(self, real):
        self.real = real
        self.fifo = []
        self.lock = threading.Lock()
        self.gated = False
        self.arrived = threading.Event()
        self.release = threading.Event()
        self.appended = threading.Event()

    def add_callback(self, cb, *a, **kw):
        if self.gated:
            self.arrived.set()
            self.release.wait(30)
            self.release.clear()
        with self.lock:
            self.fifo.append((cb, a, kw))
        self.appended.set()

    def __getattr__(self, name):
        return getattr(self.real, name)


class Rig:
    def __init__(self, hold_server=False):
        """``hold_server``: the HttpServer thread is held before it creates its IO loop (the
        frontend's start-up window: server.io_loop is None) until release_server()."""
        import pykka
        from mopidy import ext
        from mopidy.http import Extension, handlers

        L.quiet_logs()
        install_nodelay_fault()
        self.pykka = pykka
        self.handlers = handlers
        self.tmp = tempfile.mkdtemp(prefix="verif-c17-")
        registry = ext.Registry()
        Extension().setup(registry)  # the real wiring: apps, statics, frontend class
        frontend_cls = registry["frontend"][0]
        self.config = {
            "core": {"data_dir": self.tmp, "cache_dir": self.tmp, "config_dir": self.tmp},
            "http": {"hostname": "127.0.0.1", "port": 0, "zeroconf": "", "allowed_origins": frozenset(),
                     "csrf_protection": True, "default_app": "mopidy"},
        }
        self.core = L.RecordingCore()
        # an exception escaping on_event is logged by pykka (and stops the actor): keep the text
        import logging
        self.actor_log = _Capture()
        lg = logging.getLogger("pykka")
        for h in list(lg.handlers):
            if isinstance(h, _Capture):
                lg.removeHandler(h)
        lg.addHandler(self.actor_log)
        lg.setLevel(logging.ERROR)
        self.stopped = False
        self.server_gate = None
        if hold_server:
            from mopidy.http import actor as actor_mod

            self.server_gate = threading.Event()
            gate, orig_run = self.server_gate, actor_mod.HttpServer.run

            def held_run(srv):
                gate.wait(30)
                return orig_run(srv)

            self._restore_run = (actor_mod.HttpServer, orig_run)
            actor_mod.HttpServer.run = held_run
        self.ref = frontend_cls.start(config=self.config, core=self.core)
        self.server = self.ref.proxy().server.get()
        self.real_loop = None
        if not hold_server:
            self.release_server()
        self.port = self.server.sockets[0].getsockname()[1]
        # client side: one asyncio loop in its own thread
        self.cloop = asyncio.new_event_loop()
        self.cthread = threading.Thread(target=self._client_main, daemon=True)
        self.cthread.start()
        self.next_cid = 0
        atexit.register(self.stop)

    def release_server(self):
        """End of the start-up window: let the server thread create its loop and wait for it."""
        if self.server_gate is not None:
            self.server_gate.set()
        t0 = time.time()
        while self.server.io_loop is None:
            if time.time() - t0 > 10:
                raise RuntimeError("HttpServer did not start")
            time.sleep(0.005)
        self.real_loop = self.server.io_loop
        if self.server_gate is not None:
            cls, orig = self._restore_run
            cls.run = orig
            self.server_gate = None

    def _client_main(self):
        asyncio.set_event_loop(self.cloop)
        self.cloop.run_forever()

    def stop(self):
        if self.stopped:
            return
        self.stopped = True
        try:
            if self.server_gate is not None:
                self.release_server()
        except Exception:  # noqa: BLE001
            pass
        try:
            if self.real_loop is not None:
                self.server.io_loop = self.real_loop
            self.pykka.ActorRegistry.stop_all(timeout=5)
        except Exception:  # noqa: BLE001
            pass
        try:
            # a frontend that died of an unhandled exception never ran on_stop: the (non
            # daemon) server thread must still be stopped or the interpreter cannot exit
            if self.server.is_alive():
                self.server.stop()
                self.server.join(5)
        except Exception:  # noqa: BLE001
            pass
        self.handlers.WebSocketHandler.clients = set()
        try:
            self.cloop.call_soon_threadsafe(self.cloop.stop)
        except Exception:  # noqa: BLE001
            pass
        self.handlers.WebSocketHandler.clients.clear()
        shutil.rmtree(self.tmp, ignore_errors=True)

    # -- helpers ---------------------------------------------------------------
    def on_loop(self, fn, timeout=5.0):
        """Run fn() on the server's real IO loop and wait for it."""
        done = threading.Event()
        box = {}

        def cb():
            try:
                box["r"] = fn()
            except BaseException as e:  # noqa: BLE001
                box["e"] = e
            done.set()

        self.real_loop.add_callback(cb)
        if not done.wait(timeout):
            raise RuntimeError("IO loop did not run the callback")
        return box

    def barrier_actor(self):
        """Mailbox is FIFO: once this ask is answered every earlier tell was processed."""
        self.ref.proxy().hostname.get(timeout=5)

    def wait_blocked_or_idle(self, proxy, timeout=5.0):
        """After an emit / a hand-over in gated mode: the actor thread is either blocked in
        the next add_callback ("blocked") or has returned from on_event ("idle")."""
        if getattr(self, "_proxy", None) is None:
            self._proxy = self.ref.proxy()
        fut = self._proxy.hostname
        t0 = time.time()
        while time.time() - t0 < timeout:
            if proxy.arrived.is_set():
                return "blocked"
            try:
                fut.get(timeout=0.001)
                return "blocked" if proxy.arrived.is_set() else "idle"
            except self.pykka.Timeout:
                continue
        raise RuntimeError("frontend actor neither blocked in add_callback nor idle")

    def emit(self, name, kw):
        from mopidy.core import CoreListener

        CoreListener.send(name, **kw)

    def client_set(self):
        return set(self.handlers.WebSocketHandler.clients)


class Client:
    """A real WebSocket client (tornado.websocket.websocket_connect) with a reader task."""

    def __init__(self, rig, cid):
        self.rig = rig
        self.cid = cid
        self.log = []  # raw messages in arrival order (sentinels excluded)
        self.conn = None
        self.handler = None
        self.closed = threading.Event()
        self.sentinels = {}
        self.lock = threading.Lock()
        self.fault = None
        self.saved = None

    def connect(self, wait_registered=True):
        import tornado.websocket

        async def go():
            self.conn = await tornado.websocket.websocket_connect(
                f"ws://127.0.0.1:{self.rig.port}/mopidy/ws?cid={self.cid}")
            asyncio.ensure_future(self._reader())

        asyncio.run_coroutine_threadsafe(go(), self.rig.cloop).result(timeout=10)
        if wait_registered:
            t0 = time.time()
            while self.handler is None:
                for h in list(self.rig.handlers.WebSocketHandler.clients):
                    if h.request.query == f"cid={self.cid}":
                        self.handler = h
                if self.handler is None:
                    if time.time() - t0 > 5:
                        raise RuntimeError("handler not registered after connect")
                    time.sleep(0.001)

    async def _reader(self):
        while True:
            while getattr(self, "paused", False):      # a slow reader: stops reading for a while
                await asyncio.sleep(0.005)
            msg = await self.conn.read_message()
            if msg is None:
                self.closed.set()
                return
            if isinstance(msg, str) and msg.startswith(SENTINEL):
                with self.lock:
                    ev = self.sentinels.get(msg)
                if ev is not None:
                    ev.set()
                continue
            if isinstance(msg, str) and msg.startswith('{"jsonrpc"'):
                try:
                    rid = json.loads(msg).get("id")
                except Exception:  # noqa: BLE001
                    rid = None
                with self.lock:
                    ev = self.sentinels.get(f"rpc-{rid}")
                if ev is not None:
                    ev.set()
                    continue
            self.log.append(msg)

    def sync_rpc(self, timeout=5.0):
        """Client-driven round trip (a JSON-RPC call over this WebSocket): True when the answer
        arrived - the connection is alive and everything written before has been read; False
        when the connection was closed instead."""
        if self.closed.is_set():
            return False
        self._rpc_n = getattr(self, "_rpc_n", 0) + 1
        rid = f"verif-{self.cid}-{self._rpc_n}"
        ev = threading.Event()
        with self.lock:
            self.sentinels[f"rpc-{rid}"] = ev
        msg = json.dumps({"jsonrpc": "2.0", "id": rid, "method": "core.get_version"})

        def send():
            try:
                self.conn.write_message(msg)
            except Exception:  # noqa: BLE001 - closed meanwhile
                pass

        self.rig.cloop.call_soon_threadsafe(send)
        t0 = time.time()
        while time.time() - t0 < timeout:
            if ev.wait(0.002):
                return True
            if self.closed.is_set():
                return False
        raise RuntimeError("WebSocket neither answered a JSON-RPC call nor closed")

    def find_handler(self, timeout=0.3):
        t0 = time.time()
        while self.handler is None and time.time() - t0 < timeout:
            for h in list(self.rig.handlers.WebSocketHandler.clients):
                if h.request.query == f"cid={self.cid}":
                    self.handler = h
            if self.handler is None:
                time.sleep(0.002)
        return self.handler

    def sync(self, tag, timeout=5.0):
        """Round trip on the same TCP stream, bypassing the code under test: when the marker
        arrives, everything the server wrote before has been read."""
        if self.handler is None and not self.closed.is_set():
            return self.sync_rpc(timeout)
        if self.handler is None or self.closed.is_set():
            return False
        marker = f"{SENTINEL}-{self.cid}-{tag}"
        ev = threading.Event()
        with self.lock:
            self.sentinels[marker] = ev
        h = self.handler
        write = type(h).write_message  # the class attribute: not an injected instance patch

        def send():
            write(h, marker)

        box = self.rig.on_loop(send)
        if "e" in box:
            return False
        return ev.wait(timeout)

    def disconnect(self, wait_server=True):
        self.rig.cloop.call_soon_threadsafe(self.conn.close)
        if not self.closed.wait(5):
            raise RuntimeError("client close not observed")
        if wait_server and self.handler is not None:
            # tornado drops the connection object right before it calls on_close; one more
            # turn of the loop and on_close has returned
            t0 = time.time()
            while self.handler.ws_connection is not None:
                if time.time() - t0 > 5:
                    raise RuntimeError("server did not process the close")
                time.sleep(0.001)
            self.rig.on_loop(lambda: None)

    # -- fault injection on the server-side handler object ------------------------
    def fail(self, kind, exc_name):
        h = self.handler
        if self.fault is not None:
            return
        if kind == "noconn":
            # as tests/http/test_handlers.py does: the connection object is gone
            self.saved = h.ws_connection
            self.fault = "noconn"
            h.ws_connection = None
        else:
            import tornado.iostream
            import tornado.websocket

            exc = {"WebSocketClosedError": tornado.websocket.WebSocketClosedError,
                   "StreamClosedError": tornado.iostream.StreamClosedError,
                   "RuntimeError": RuntimeError, "OSError": OSError, "BufferError": BufferError,
                   "KeyError": KeyError}[exc_name]

            def raising(*a, **kw):
                raise exc("injected write failure")

            self.fault = "patch"
            h.write_message = raising

    def recover(self):
        h = self.handler
        if self.fault == "noconn":
            if h.ws_connection is None:
                h.ws_connection = self.saved
        elif self.fault == "patch":
            try:
                del h.write_message
            except AttributeError:
                pass
        self.fault = None


# ----------------------------------------------------------------------------
# schedules


def gen_schedule(rng, max_clients=5, max_len=40):
    """Abstract schedule: list of steps
         ("emit",) ("connect", c) ("disconnect", c) ("fail", c, kind, exc) ("recover", c) ("run",)
    Client ids are fresh per connect; the tail usually drains the loop."""
    n = rng.randint(3, max_len)
    steps, connected, failing, ever = [], [], set(), 0
    pending = 0
    style = rng.weighted([("mixed", 6), ("lazy_loop", 2), ("eager_loop", 2), ("faulty", 3), ("recovery", 3)])
    if style == "recovery":
        return gen_recovery_schedule(rng, max_clients)
    for _ in range(n):
        w = [("emit", 6), ("run", 7 if pending else 0.5),
             ("connect", 3 if (ever < max_clients + 3 and len(connected) < max_clients) else 0),
             ("connect_fault", 0.5 if ever < max_clients + 3 else 0),
             ("disconnect", 1.5 if connected else 0),
             ("fail", (2.5 if style == "faulty" else 1) if connected else 0),
             ("recover", 1 if failing else 0)]
        if style == "lazy_loop":
            w[1] = ("run", 2 if pending else 0.2)
        k = rng.weighted(w)
        if k == "emit":
            steps.append(("emit",))
            pending += len(connected)
            if style == "eager_loop":
                steps += [("run",)] * pending
                pending = 0
        elif k == "run":
            steps.append(("run",))
            pending = max(0, pending - 1)
        elif k == "connect_fault":
            # set_nodelay raises OSError while this client connects (it is never referred to again)
            steps.append(("connect_fault", ever))
            ever += 1
        elif k == "connect":
            c = ever
            ever += 1
            connected.append(c)
            steps.append(("connect", c))
        elif k == "disconnect":
            c = rng.choice(connected)
            connected.remove(c)
            failing.discard(c)
            steps.append(("disconnect", c))
        elif k == "fail":
            c = rng.choice(connected)
            failing.add(c)
            steps.append(("fail", c, rng.choice(["patch", "patch", "noconn"]),
                          rng.choice(["WebSocketClosedError", "StreamClosedError", "RuntimeError", "OSError",
                                      "BufferError", "KeyError"])))
        else:
            c = rng.choice(sorted(failing))
            failing.discard(c)
            steps.append(("recover", c))
    drained = rng.random() < 0.85
    if drained:
        steps += [("run",)] * (pending + 2)
    return steps, drained


def gen_recovery_schedule(rng, max_clients=5):
    """A client whose write fails transiently and that stays connected: connect k clients,
    emit, SocketFails c, emit(s) with the callbacks run (so that writes to c really fail),
    SocketRecovers c, then further emits; c is never disconnected and has no later fault.
    Other clients may come, go and fail meanwhile.  Always drained."""
    k = rng.randint(1, max_clients)
    steps = [("connect", c) for c in range(k)]
    connected, ever = list(range(k)), k
    victim = rng.randrange(k)
    pending = 0

    def emits(n, run_prob):
        nonlocal pending
        for _ in range(n):
            steps.append(("emit",))
            pending += len(connected)
            while pending and rng.random() < run_prob:
                steps.append(("run",))
                pending -= 1

    def churn():
        nonlocal ever
        r = rng.random()
        others = [c for c in connected if c != victim]
        if r < 0.2 and others:
            c = rng.choice(others)
            connected.remove(c)
            steps.append(("disconnect", c))
        elif r < 0.35 and others:
            steps.append(("fail", rng.choice(others), "patch", "RuntimeError"))
        elif r < 0.5 and len(connected) < max_clients:
            steps.append(("connect", ever))
            connected.append(ever)
            ever += 1

    emits(rng.randint(0, 3), 0.8)
    steps.append(("fail", victim, rng.choice(["patch", "patch", "noconn"]),
                  rng.choice(["WebSocketClosedError", "StreamClosedError", "RuntimeError", "OSError", "BufferError", "KeyError"])))
    emits(rng.randint(1, 3), 0.9)
    churn()
    if rng.random() < 0.8:      # usually every failing write has happened before the recovery
        steps.extend([("run",)] * pending)
        pending = 0
    steps.append(("recover", victim))
    for _ in range(rng.randint(1, 4)):
        emits(rng.randint(1, 3), 0.7)
        churn()
    steps.extend([("run",)] * (pending + 2))
    return steps, True


def gen_interleaved_schedule(rng):
    """Membership changes racing a broadcast: some emits carry actions (point, kind, client)
    - another client connecting or disconnecting on the IO-loop thread when the frontend's
    iteration over the client set (if it is not atomic) is about to hand out element number
    `point`.  No write failures; always drained."""
    k = rng.randint(1, 4)
    steps = [("connect", c) for c in range(k)]
    connected, ever, pending = list(range(k)), k, 0
    for _ in range(rng.randint(1, 6)):
        actions = []
        if rng.random() < 0.75:
            for _ in range(1 if rng.random() < 0.8 else 2):
                point = rng.randint(0, len(connected))
                if connected and (rng.random() < 0.5 or ever >= 8):
                    c = rng.choice(connected)
                    connected.remove(c)
                    actions.append((point, "disconnect", c))
                elif ever < 8:
                    actions.append((point, "connect", ever))
                    connected.append(ever)
                    ever += 1
        n_before = len(connected) - sum(1 for a in actions if a[1] == "connect") + sum(1 for a in actions if a[1] == "disconnect")
        steps.append(("emit", tuple(actions)) if actions else ("emit",))
        pending += n_before + len(actions)
        for _ in range(rng.randint(0, 3)):
            steps.append(("run",))
            pending = max(0, pending - 1)
    steps += [("run",)] * (pending + 2)
    return steps, True


def interleaved_monitors(steps, obs):
    """Property predicates on a run with membership changes scheduled inside broadcasts.
    A client that was connected before an event was emitted and is not itself the subject
    of a membership change racing that broadcast must receive it (once, in order), whatever
    the other clients do; a client not connected before must not - unless it is the subject
    of such a change that really fell inside the iteration (then either is fine)."""
    bad = []
    died = obs.get("actor_died")
    if died:
        conn, i = set(), 0
        # clients connected when the fatal event was emitted
        for st in steps:
            if st[0] == "connect":
                conn.add(st[1])
            elif st[0] == "disconnect":
                conn.discard(st[1])
            elif st[0] == "emit":
                if i == died["emit"]:
                    break
                for a in (st[1] if len(st) > 1 else ()):
                    (conn.add if a[1] == "connect" else conn.discard)(a[2])
                i += 1
        acts = "; ".join(f"client {a[1]} {a[0]}s on the IO-loop thread before element #{k} of the client set is handed out"
                         for k, a in died["fired"]) or "?"
        others = sorted(conn - {a[1] for _k, a in died["fired"]})
        bad.append(("T2_isolation_complete",
                    f"while event #{died['emit']} was being broadcast ({acts}) an exception escaped on_event "
                    f"[{died['error'][:300]}]: the event is lost for the other connected clients {others} and the "
                    f"frontend actor stopped (no later event reaches anyone)",
                    {"fatal_emit": died["emit"], "fired": died["fired"]}))
        return bad
    for e in obs["escaped"]:
        bad.append(("T2_failure_contained", e, {}))
    fired_emits = {}
    for e, _k, a in obs["fired"]:
        fired_emits.setdefault(e, set()).add(a[1])
    def leaves(c):
        # a client that disconnects at some point may legitimately lose what was still queued
        return any((st[0] == "disconnect" and st[1] == c)
                   or (st[0] == "emit" and len(st) > 1 and any(a[1] == "disconnect" and a[2] == c for a in st[1]))
                   for st in steps)

    for c, log in obs["logs"].items():
        conn, req, forb, i = False, [], set(), 0
        for st in steps:
            if st[0] == "connect" and st[1] == c:
                conn = True
            elif st[0] == "disconnect" and st[1] == c:
                conn = False
            elif st[0] == "emit":
                acts = st[1] if len(st) > 1 else ()
                if c in fired_emits.get(i, ()):
                    pass                    # raced this very broadcast: either outcome
                elif conn:
                    req.append(i)
                else:
                    forb.add(i)
                for a in acts:
                    if a[2] == c:
                        conn = a[1] == "connect"
                i += 1
        if any(x < 0 for x in log) or any(a >= b for a, b in zip(log, log[1:])):
            bad.append(("T1_exactly_once_in_order", "duplicate, unknown or out-of-order delivery", {"client": c, "log": log}))
        elif forb & set(log):
            bad.append(("T1_exactly_once_in_order", f"client {c} received events {sorted(forb & set(log))} emitted while it was not connected",
                        {"client": c, "log": log}))
        elif not leaves(c) and not set(req) <= set(log):
            bad.append(("T2_isolation_complete",
                        f"client {c} was connected and untouched but missed events {sorted(set(req) - set(log))} "
                        f"(membership changes of other clients raced those broadcasts: {obs['fired']})",
                        {"client": c, "log": log}))
    for cid, i, what, raw in shape_problems(obs)[:3]:
        bad.append(("T4_message_shape", what, {"client": cid, "raw": raw}))
    return bad


_death_reported = [False]
MINIMAL_INTERLEAVINGS = [
    [("connect", 0), ("connect", 1), ("emit", ((1, "disconnect", 1),)), ("run",), ("run",), ("run",)],
    [("connect", 0), ("connect", 1), ("emit", ((1, "disconnect", 0),)), ("run",), ("run",), ("run",)],
    [("connect", 0), ("emit", ((1, "connect", 1),)), ("run",), ("run",), ("run",)],
    [("connect", 0), ("emit", ((0, "connect", 1),)), ("run",), ("run",), ("run",)],
    [("connect", 0), ("connect", 1), ("emit", ((0, "disconnect", 1),)), ("run",), ("run",), ("run",)],
    [("connect", 0), ("connect", 1), ("connect", 2), ("emit", ((2, "disconnect", 1),)), ("run",), ("run",), ("run",), ("run",)],
]


def gen_repeat_schedule(rng):
    """All clients connect first and stay healthy; then emits (content-identical events
    allowed) interleaved with callback runs; fully drained."""
    k = rng.randint(1, 4)
    steps = [("connect", c) for c in range(k)]
    n = rng.randint(2, 25)
    pending = 0
    for _ in range(n):
        steps.append(("emit",))
        pending += k
        for _ in range(rng.randint(0, pending)):
            steps.append(("run",))
            pending -= 1
    steps += [("run",)] * (pending + 1)
    return steps, True


def g_steps(steps, orders=None):
    """Model step list; the i-th emission carries the value i and the observed snapshot
    order.  ("emit",) is the macro "snapshot and hand everything over at once" (Emit followed
    by one HandOver per scheduled callback); ("snap",) is the snapshot alone, its callbacks
    are handed over by explicit ("handover",) steps."""
    out, i = [], 0
    for st in steps:
        if st[0] in EMITS:
            o = orders[i] if orders and i < len(orders) and orders[i] is not None else []
            out.append(f"(Emit {i} {g_list([g_z(x) for x in o])})")
            if st[0] == "emit":
                out += ["HandOver"] * len(o)
            i += 1
        elif st[0] == "handover":
            out.append("HandOver")
        elif st[0] == "connect":
            out.append(f"Connect {st[1]}")
        elif st[0] == "disconnect":
            out.append(f"Disconnect {st[1]}")
        elif st[0] == "fail":
            out.append(f"SocketFails {st[1]}")
        elif st[0] == "recover":
            out.append(f"SocketRecovers {st[1]}")
        else:
            out.append("RunCallback")
    return g_list(out)


def gen_stepwise_schedule(rng, max_clients=5, max_len=45):
    """The hand-off is not atomic: ("snap",) takes the snapshot, each ("handover",) passes one
    callback to the loop, and the loop-side steps (runs, connects, disconnects, failures) are
    placed anywhere in between.  A new snapshot is only taken when the previous broadcast has
    handed everything over (the frontend actor is sequential).  Usually drained."""
    steps, connected, failing, ever = [], [], set(), 0
    outbox, pending = 0, 0
    for c in range(rng.randint(0, 3)):
        steps.append(("connect", ever))
        connected.append(ever)
        ever += 1
    for _ in range(rng.randint(3, max_len)):
        k = rng.weighted([("snap", 5 if outbox == 0 else 0), ("handover", 8 if outbox else 0),
                          ("run", 6 if pending else 0.3),
                          ("connect", 2.5 if (ever < max_clients + 3 and len(connected) < max_clients) else 0),
                          ("disconnect", 1.5 if connected else 0), ("fail", 1 if connected else 0),
                          ("recover", 1 if failing else 0)])
        if k == "snap":
            steps.append(("snap",))
            outbox = len(connected)
        elif k == "handover":
            steps.append(("handover",))
            outbox -= 1
            pending += 1
        elif k == "run":
            steps.append(("run",))
            pending = max(0, pending - 1)
        elif k == "connect":
            steps.append(("connect", ever))
            connected.append(ever)
            ever += 1
        elif k == "disconnect":
            c = rng.choice(connected)
            connected.remove(c)
            failing.discard(c)
            steps.append(("disconnect", c))
        elif k == "fail":
            c = rng.choice(connected)
            failing.add(c)
            steps.append(("fail", c, rng.choice(["patch", "patch", "noconn"]),
                          rng.choice(["WebSocketClosedError", "StreamClosedError", "RuntimeError", "OSError"])))
        else:
            c = rng.choice(sorted(failing))
            failing.discard(c)
            steps.append(("recover", c))
    drained = rng.random() < 0.85
    if drained:
        steps += [("handover",)] * outbox + [("run",)] * (pending + outbox + 2)
    return steps, drained


# ----------------------------------------------------------------------------
# settled run


REPEATABLE = [("tracklist_changed", {}), ("options_changed", {}), ("playlists_loaded", {}),
              ("mute_changed", {"mute": True}), ("volume_changed", {"volume": 50}),
              ("stream_title_changed", {"title": "same"}), ("seeked", {"time_position": 0})]


def run_settled(rig, rng, steps, repeats=False, preset_events=None):
    """Execute the schedule step by step on the real chain; returns the observation.
    With ``repeats`` the emitted events are drawn from a few content-identical messages
    (identical consecutive events are legitimate and must all be delivered); received
    messages are then decoded to the smallest not yet used emission index."""
    proxy = ProxyLoop(rig.real_loop)
    rig.server.io_loop = proxy
    clients, events, used = {}, [], set()
    emit_targets = []   # per emit: sorted cids a callback was scheduled for (None = unknown)
    escaped = []        # exceptions escaping a callback (must never happen)
    handler_cid = {}
    flat_steps, fired, died = [], [], None
    interleaved = any(st[0] == "emit" and len(st) > 1 and st[1] for st in steps)
    iset = None
    if interleaved:
        # membership changes may be scheduled INSIDE a broadcast (see InterleavingSet)
        iset = InterleavingSet()
        rig.handlers.WebSocketHandler.clients = iset

    def do_connect(cid):
        c = Client(rig, cid)
        c.connect()
        clients[cid] = c
        handler_cid[id(c.handler)] = cid

    connect_faults = {}

    def do_connect_fault(cid):
        """Connect while the server-side set_nodelay raises OSError.  Afterwards the client is
        either closed (the unmodified code lets the error abort the connection) or alive - it
        answers a JSON-RPC call over the socket - and then it is a connected client like any
        other: every event emitted from now on must reach it."""
        NODELAY_FAIL.add(cid)
        try:
            c = Client(rig, cid)
            try:
                c.connect(wait_registered=False)
            except Exception:  # noqa: BLE001 - refused / aborted during the handshake
                connect_faults[cid] = "closed"
                return
            alive = c.sync_rpc()
        finally:
            NODELAY_FAIL.discard(cid)
        clients[cid] = c
        if alive:
            connect_faults[cid] = "alive"
            if c.find_handler() is not None:
                handler_cid[id(c.handler)] = cid
            flat_steps.append(("connect", cid))
        else:
            connect_faults[cid] = "closed"

    def do_disconnect(cid):
        c = clients[cid]
        c.recover()          # restore the connection object so that the close is orderly
        c.sync("pre-close")
        c.disconnect()

    def perform(action):
        (do_connect if action[0] == "connect" else do_disconnect)(action[1])

    def new_event():
        if preset_events is not None and len(events) < len(preset_events):
            name, kw = decode_event(preset_events[len(events)])
            events.append((name, kw, canonical(expected_message(name, kw))))
            return name, kw
        if repeats:
            name, kw = rng.choice(REPEATABLE[:3] if rng.random() < 0.5 else REPEATABLE)
            content = canonical(expected_message(name, kw))
        else:
            name, kw, content = make_event(rng, len(events), used)
        events.append((name, kw, content))
        return name, kw

    def hand_over():
        """Release one add_callback call of the actor thread (no-op when nothing is waiting,
        like HandOver on an empty outbox)."""
        if not proxy.arrived.is_set():
            return
        proxy.arrived.clear()
        proxy.appended.clear()
        proxy.release.set()
        if not proxy.appended.wait(5):
            raise RuntimeError("released add_callback call did not complete")
        cb, a, _kw = proxy.fifo[-1]
        args = getattr(cb, "args", None)
        h = args[0] if args else (a[0] if a else None)
        emit_targets[-1].append(handler_cid.get(id(h)))
        rig.wait_blocked_or_idle(proxy)

    try:
        for st in steps:
            if died:
                break
            if st[0] not in ("emit", "connect_fault"):
                flat_steps.append(tuple(st))
            if st[0] == "connect":
                do_connect(st[1])
            elif st[0] == "connect_fault":
                do_connect_fault(st[1])
            elif st[0] == "disconnect":
                do_disconnect(st[1])
            elif st[0] == "fail":
                clients[st[1]].fail(st[2], st[3])
            elif st[0] == "recover":
                clients[st[1]].recover()
            elif st[0] == "snap":
                # snapshot only: the actor thread blocks in its first add_callback
                name, kw = new_event()
                proxy.gated = True
                proxy.arrived.clear()
                n_log = len(rig.actor_log.records)
                rig.emit(name, kw)
                try:
                    rig.wait_blocked_or_idle(proxy)
                except Exception as e:  # noqa: BLE001
                    if rig.ref.is_alive():
                        raise
                    import re as _re
                    err = _re.sub(r" \(urn:uuid:[^)]*\)", "", "; ".join(rig.actor_log.records[n_log:]) or repr(e))
                    died = {"emit": len(events) - 1, "error": err, "fired": []}
                    emit_targets.append(None)
                    break
                emit_targets.append([])
            elif st[0] == "handover":
                hand_over()
            elif st[0] == "emit":
                if proxy.arrived.is_set():
                    raise RuntimeError("schedule emits while a broadcast is still being handed over")
                proxy.gated = False
                name, kw = new_event()
                before = len(proxy.fifo)
                actions = [tuple(a) for a in st[1]] if len(st) > 1 and st[1] else []
                flat_steps.append(("emit",))
                if actions:
                    iset.arm([(a[0], (a[1], a[2])) for a in actions], perform)
                n_log = len(rig.actor_log.records)
                rig.emit(name, kw)
                try:
                    rig.barrier_actor()
                except Exception as e:  # noqa: BLE001
                    if rig.ref.is_alive():
                        raise
                    import re as _re
                    err = _re.sub(r" \(urn:uuid:[^)]*\)", "", "; ".join(rig.actor_log.records[n_log:]) or repr(e))
                    died = {"emit": len(events) - 1, "error": err,
                            "fired": [[k, list(a)] for k, a in (iset.fired if iset is not None else [])]}
                if actions:
                    for k, a in iset.fired:
                        fired.append((len(events) - 1, k, a))
                    escaped.extend(iset.errors)
                    iset.errors = []
                    # an atomic snapshot never reaches an injection point: the planned
                    # membership changes then simply happen right after the emit
                    rest = iset.disarm()
                    if not died:
                        for _pt, a in rest:
                            perform(a)
                    for a in actions:
                        flat_steps.append((a[1], a[2]))
                if died:
                    emit_targets.append(None)
                    break
                new = proxy.fifo[before:]
                tg = []
                for cb, a, _kw in new:
                    args = getattr(cb, "args", None)
                    h = args[0] if args else (a[0] if a else None)
                    tg.append(handler_cid.get(id(h)))
                # iteration order of the set snapshot, as observed (an oracle for the model)
                emit_targets.append(tg if all(t is not None for t in tg) else None)
            else:  # run one callback on the real loop
                with proxy.lock:
                    item = proxy.fifo.pop(0) if proxy.fifo else None
                if item is not None:
                    cb, a, kw2 = item
                    box = rig.on_loop(lambda: cb(*a, **kw2))
                    if "e" in box:
                        escaped.append(repr(box["e"]))
        # a broadcast still being handed over: let the actor finish (these late callbacks are
        # never run and are no steps of the schedule; they complete the observed snapshot)
        while proxy.arrived.is_set():
            hand_over()
        proxy.gated = False
        # settle: every open client reads everything written so far
        for cid, c in clients.items():
            if not c.closed.is_set() and not died:
                c.recover()
                if not c.sync("end"):
                    escaped.append(f"client {cid} did not answer the final sync")
    finally:
        proxy.gated = False
        proxy.release.set()      # never leave the actor thread blocked in the gate
        rig.server.io_loop = rig.real_loop
        for c in clients.values():
            try:
                if not c.closed.is_set():
                    c.recover()
                    c.disconnect()
            except Exception as e:  # noqa: BLE001
                escaped.append(f"cleanup: {e!r}")
        if interleaved:
            rig.handlers.WebSocketHandler.clients = set()
    logs, shapes = {}, []
    for cid, c in clients.items():
        dec, last = [], -1
        for raw in c.log:
            try:
                obj = json.loads(raw)
                content = canonical(obj)
                # smallest emission index after the previous one with this content (contents
                # are unique unless ``repeats``); a duplicate delivery or an unknown message
                # has none and decodes to -1
                i = next((j for j in range(last + 1, len(events)) if events[j][2] == content), -1)
            except Exception:  # noqa: BLE001
                obj, i = None, -2
            if i >= 0:
                last = i
            dec.append(i)
            shapes.append((cid, i, raw, obj))
        logs[cid] = dec
    emit_targets = [None if (t is None or any(x is None for x in t)) else t for t in emit_targets]
    try:
        enc = [encode_event(n, k) for n, k, _c in events]
    except Exception:  # noqa: BLE001
        enc = None
    return {"connect_faults": connect_faults, "event_specs": enc, "logs": logs, "emit_targets": emit_targets, "events": events, "escaped": escaped, "shapes": shapes,
            "flat_steps": flat_steps, "fired": fired, "actor_died": died}


def shape_problems(obs):
    """T4 on every received message: 'event' key + every argument under its own name."""
    bad = []
    for cid, i, raw, obj in obs["shapes"]:
        if not isinstance(obj, dict):
            bad.append((cid, i, "not a JSON object", raw))
            continue
        if i < 0:
            # unknown content: find the event by name to say what differs
            bad.append((cid, i, "message matches no emitted event", raw))
            continue
        name, kw, _ = obs["events"][i]
        exp = expected_message(name, kw)
        if obj.get("event") != name:
            bad.append((cid, i, "event key", raw))
        elif set(obj) != set(exp):
            bad.append((cid, i, f"keys {sorted(obj)} != {sorted(exp)}", raw))
        elif any(norm_payload(obj[k]) != exp[k] for k in exp):
            bad.append((cid, i, "argument payload differs", raw))
    return bad


# ----------------------------------------------------------------------------
# racing run


def run_racing(rig, rng, n_events, n_clients):
    """Real IO loop, emitter thread + churn thread.  Returns per-client observations."""
    rig.server.io_loop = rig.real_loop
    events, used = [], set()
    for i in range(n_events):
        events.append(make_event(rng, i, used))
    clients = {}
    info = {}   # cid -> dict(connected_at=emit index lower bound, faulted=bool, closed_at)
    emit_started = [0]  # number of emits started
    emit_done = [0]
    lock = threading.Lock()
    errors = []
    plan = []
    for c in range(n_clients):
        plan.append((rng.random() * 0.6, "connect", c))
        r = rng.random()
        if r < 0.3:
            plan.append((0.4 + rng.random() * 0.6, "disconnect", c))
        elif r < 0.5:
            plan.append((0.3 + rng.random() * 0.6, "fail", c, rng.choice(["patch", "noconn"]),
                         rng.choice(["WebSocketClosedError", "RuntimeError", "OSError"])))
    plan.sort(key=lambda p: p[0])
    pace = rng.choice([0.0, 0.0002, 0.001])

    def emitter():
        try:
            for name, kw, _ in events:
                with lock:
                    emit_started[0] += 1
                rig.emit(name, kw)
                with lock:
                    emit_done[0] += 1
                if pace:
                    time.sleep(pace)
        except Exception as e:  # noqa: BLE001
            errors.append(f"emitter: {e!r}")

    def churn():
        try:
            for p in plan:
                # act when the emitter has reached the planned fraction
                target = int(p[0] * n_events)
                t0 = time.time()
                while emit_started[0] < target and time.time() - t0 < 5 and et.is_alive():
                    time.sleep(0.0002)
                c = p[2]
                if p[1] == "connect":
                    cl = Client(rig, rig.next_cid)
                    rig.next_cid += 1
                    cl.connect()
                    with lock:
                        started = emit_started[0]
                    clients[c] = cl
                    info[c] = {"must_from": started, "faulted": False, "closed": False}
                elif c in clients:
                    if p[1] == "disconnect":
                        info[c]["closed"] = True
                        clients[c].disconnect(wait_server=False)
                    else:
                        info[c]["faulted"] = True
                        cl = clients[c]
                        rig.on_loop(lambda cl=cl, p=p: cl.fail(p[3], p[4]))
        except Exception as e:  # noqa: BLE001
            errors.append(f"churn: {e!r}")

    et = threading.Thread(target=emitter, daemon=True)
    ct = threading.Thread(target=churn, daemon=True)
    ct.start()
    et.start()
    et.join(30)
    ct.join(30)
    try:
        rig.barrier_actor()
        # everything the actor scheduled is on the loop; one more loop turn after them
        rig.on_loop(lambda: None)
        for c, cl in clients.items():
            if not cl.closed.is_set():
                rig.on_loop(cl.recover)
                if not cl.sync("end"):
                    errors.append(f"client {c} did not answer the final sync")
    finally:
        for cl in clients.values():
            try:
                if not cl.closed.is_set():
                    cl.disconnect()
            except Exception as e:  # noqa: BLE001
                errors.append(f"cleanup: {e!r}")
    index = {content: i for i, (_n, _k, content) in enumerate(events)}
    out = {}
    for c, cl in clients.items():
        dec = []
        for raw in cl.log:
            try:
                dec.append(index.get(canonical(json.loads(raw)), -1))
            except Exception:  # noqa: BLE001
                dec.append(-2)
        out[c] = {"log": dec, **info[c]}
    return {"clients": out, "n_events": n_events, "errors": errors}


def racing_monitors(obs):
    """T1-T3 on a racing run (Python mirrors of the theorem statements)."""
    bad = []
    n = obs["n_events"]
    for c, o in obs["clients"].items():
        log = o["log"]
        if any(i < 0 or i >= n for i in log):
            bad.append(("T1_exactly_once_in_order", c, "received something that was never emitted", o))
            continue
        if len(set(log)) != len(log):
            bad.append(("T1_exactly_once_in_order", c, "an event was delivered twice", o))
        if any(a >= b for a, b in zip(log, log[1:])):
            bad.append(("T1_exactly_once_in_order", c, "events delivered out of emission order", o))
        if not o["faulted"] and not o["closed"]:
            # T1 completeness + T2 isolation: a healthy client misses nothing that was emitted
            # after its connection was registered, whatever the other clients did
            must = set(range(o["must_from"], n))
            missing = sorted(must - set(log))
            if missing:
                bad.append(("T2_isolation_complete", c, f"healthy client missed events {missing[:5]}", o))
    for e in obs["errors"]:
        bad.append(("T2_failure_contained", -1, e, {}))
    return bad


# ----------------------------------------------------------------------------
# check


COQ_IMPORTS = "From Common Require Import Str Cases.\nFrom Http Require Import Broadcast.\n"


def py_sent(steps, c):
    """Python mirror of Broadcast.sent: emission indices emitted while c was connected."""
    conn, out, i = False, [], 0
    for st in steps:
        if st[0] in EMITS:
            if conn:
                out.append(i)
            i += 1
        elif st[0] == "connect" and st[1] == c:
            conn = True
        elif st[0] == "disconnect" and st[1] == c:
            conn = False
    return out


def recovered_and_connected(steps, c):
    """c's last fault step is a recovery, c is connected there, and events are emitted later."""
    last = max((k for k, st in enumerate(steps) if st[0] in ("disconnect", "fail", "recover") and st[1] == c), default=None)
    if last is None or steps[last][0] != "recover":
        return False
    conn = False
    for st in steps[:last]:
        if st[0] == "connect" and st[1] == c:
            conn = True
        elif st[0] == "disconnect" and st[1] == c:
            conn = False
    return conn and any(st[0] in EMITS for st in steps[last:])


def eff_steps(steps, obs):
    """The schedule as the model sees it: a ("connect_fault", c) step is a Connect if the client
    turned out to be alive afterwards and no step at all if its connection was aborted."""
    if any(st[0] == "connect_fault" for st in steps):
        return [tuple(st) for st in obs["flat_steps"]]
    return steps


def py_idle(steps):
    """Nothing in flight at the end of the schedule (mirror of Broadcast.idle on the run)."""
    conn, outbox, queue = 0, 0, 0
    for st in steps:
        if st[0] == "connect":
            conn += 1
        elif st[0] == "disconnect":
            conn -= 1
        elif st[0] == "emit":
            queue += conn
            for a in (st[1] if len(st) > 1 else ()):
                conn += 1 if a[1] == "connect" else -1
        elif st[0] == "snap":
            outbox += conn
        elif st[0] == "handover":
            if outbox:
                outbox -= 1
                queue += 1
        elif st[0] == "run":
            queue = max(0, queue - 1)
    return outbox == 0 and queue == 0


def is_subseq(a, b):
    it = iter(b)
    return all(any(x == y for y in it) for x in a)


def settled_py_monitors(steps, drained, obs):
    """The property predicates on one settled run (Python mirrors of the theorem statements).
    Returns [(monitor, what, detail)]."""
    bad = []
    died = obs.get("actor_died")
    if died:
        # an exception escaped HttpFrontend.on_event: the event was broadcast to nobody and
        # pykka stopped the frontend actor, so no later event reaches any client either
        ev = (obs.get("event_specs") or [None] * (died["emit"] + 1))[died["emit"]]
        conn = set()
        n = 0
        for st in steps:
            if st[0] == "connect":
                conn.add(st[1])
            elif st[0] == "disconnect":
                conn.discard(st[1])
            elif st[0] in EMITS:
                if n == died["emit"]:
                    break
                n += 1
        bad.append(("T1_event_reaches_every_client",
                    f"emitting event #{died['emit']} ({ev[0] if ev else '?'}) raised inside the frontend "
                    f"[{died['error'][:300]}]: it reached none of the connected clients {sorted(conn)} and the "
                    f"frontend actor stopped (no later event reaches anyone)",
                    {"fatal_emit": died["emit"], "event": ev}))
        return bad
    for e in obs["escaped"]:
        bad.append(("T2_failure_contained", e, {}))
    for c, log in obs["logs"].items():
        sent = py_sent(steps, c)
        if any(i < 0 for i in log):
            bad.append(("T1_exactly_once_in_order", "received a message that is no (further) emitted event: duplicate or unknown",
                        {"client": c, "log": log}))
        elif not is_subseq(log, sent):
            bad.append(("T1_exactly_once_in_order", "received is not an in-order subsequence of the events emitted while connected",
                        {"client": c, "log": log, "sent_while_connected": sent}))
        healthy = not any(st[0] in ("disconnect", "fail", "recover") and st[1] == c for st in steps)
        if drained and healthy and log != sent and all(i >= 0 for i in log):
            how = ""
            if (obs.get("connect_faults") or {}).get(c) == "alive":
                how = (f" (set_nodelay raised OSError while client {c} connected; its handshake completed, it stays "
                       f"connected and answers JSON-RPC calls over the socket - a connected client)")
            bad.append(("T2_isolation_complete",
                        f"healthy client received {log} but {sent} were emitted while it was connected" + how,
                        {"client": c}))
        # T1 completeness after a recovery (mirror of Broadcast.t1_recovered_ok): the client's
        # last fault step is a recovery while it is still connected => its socket works from
        # there on, and once the loop has drained its log must END with every event emitted
        # after that recovery
        if drained and all(i >= 0 for i in log):
            last = max((k for k, st in enumerate(steps) if st[0] in ("disconnect", "fail", "recover") and st[1] == c),
                       default=None)
            if last is not None and steps[last][0] == "recover":
                conn = False
                for st in steps[:last]:
                    if st[0] == "connect" and st[1] == c:
                        conn = True
                    elif st[0] == "disconnect" and st[1] == c:
                        conn = False
                if conn:
                    n_before = sum(1 for st in steps[:last] if st[0] in EMITS)
                    n_all = sum(1 for st in steps if st[0] in EMITS)
                    must = list(range(n_before, n_all))
                    if must and log[len(log) - len(must):] != must:
                        bad.append(("T1_complete_after_recovery",
                                    f"client {c} is connected and its socket works again after step {last}, "
                                    f"but of the events {must} emitted afterwards it received {[i for i in log if i >= n_before]}",
                                    {"client": c, "log": log, "recovered_at_step": last}))
    # T3: after a client disconnected no callback is ever scheduled for it again
    connected, ei = set(), 0
    for st in steps:
        if st[0] == "connect":
            connected.add(st[1])
        elif st[0] == "disconnect":
            connected.discard(st[1])
        elif st[0] in EMITS:
            tg = obs["emit_targets"][ei] if ei < len(obs["emit_targets"]) else None
            ei += 1
            if tg is not None and not set(tg) <= connected:
                bad.append(("T3_nothing_after_disconnect",
                            f"a broadcast callback was scheduled for disconnected client(s) {sorted(set(tg) - connected)}",
                            {"emit": ei - 1, "targets": tg}))
                break
    for cid, i, what, raw in shape_problems(obs)[:3]:
        name = obs["events"][i][0] if i >= 0 else "?"
        bad.append(("T4_message_shape", what, {"client": cid, "raw": raw, "event": name}))
    return bad


DRAIN_TAIL = [("handover",)] * 8 + [("run",)] * 48


def valid_schedule(steps):
    connected, ever, failing = set(), set(), set()
    outbox = 0
    for st in steps:
        if st[0] in EMITS:
            if outbox:
                return False      # the sequential frontend cannot start a second broadcast
            outbox = len(connected) if st[0] == "snap" else 0
        elif st[0] == "handover":
            outbox = max(0, outbox - 1)
        if st[0] == "connect_fault":
            if st[1] in ever:
                return False
            ever.add(st[1])
        elif st[0] == "connect":
            if st[1] in ever:
                return False
            ever.add(st[1])
            connected.add(st[1])
        elif st[0] == "disconnect":
            if st[1] not in connected:
                return False
            connected.discard(st[1])
        elif st[0] == "fail":
            if st[1] not in connected:
                return False
            failing.add(st[1])
        elif st[0] == "recover":
            if st[1] not in connected or st[1] not in failing:
                return False
            failing.discard(st[1])
    return len(connected) <= 6


_shrunk = [0]
NEEDS_DRAIN = ("T2_isolation_complete", "T1_complete_after_recovery")


def report_settled(chk, rigbox, steps, drained, repeats, obs):
    bad = settled_py_monitors(eff_steps(steps, obs), drained, obs)
    if obs.get("actor_died"):
        fresh_rig(rigbox)
        if _death_reported[0]:
            return
    if not bad:
        return
    steps = [tuple(st) for st in steps]
    # shrink the schedule for the first failing monitor (bounded; needs the live rig).  The
    # events keep their payloads: a kept emission re-sends the event it had in the original
    # run (failures may depend on the payload, not only on the schedule).
    if _shrunk[0] < 3:
        _shrunk[0] += 1
        mon0 = bad[0][0]
        specs0 = obs.get("event_specs")
        emit_no, n = {}, 0
        for i, st in enumerate(steps):
            if st[0] in EMITS:
                emit_no[i] = n
                n += 1
        tagged = list(enumerate(steps))

        def untag(cand):
            st = [x for _i, x in cand]
            ev = None
            if specs0 is not None and len(specs0) == n:
                ev = [specs0[emit_no[i]] for i, x in cand if x[0] in EMITS]
            return st, ev

        def run_cand(cand, tail):
            st, ev = untag(cand)
            st = st + tail
            o = run_settled(rigbox[0], vlib.Rng(0, "c17-shrink"), st, repeats=repeats, preset_events=ev)
            if o.get("actor_died"):
                fresh_rig(rigbox)
            return st, ev, o

        def fails(cand):
            if not valid_schedule([x for _i, x in cand]):
                return False
            if mon0 == "T1_event_reaches_every_client" and not any(x[0] == "connect" for _i, x in cand):
                return False      # keep a witness client in the shrunk history
            try:
                need = mon0 in NEEDS_DRAIN
                st, _ev, o = run_cand(cand, DRAIN_TAIL if need else [])
                return any(m == mon0 for m, _w, _d in settled_py_monitors(eff_steps(st, o), need, o))
            except Exception:  # noqa: BLE001
                return False
        try:
            small = vlib.shrink_list(tagged, fails, max_steps=80)
            need = mon0 in NEEDS_DRAIN
            st2, _ev2, o2 = run_cand(small, DRAIN_TAIL if need else [])
            bad2 = settled_py_monitors(eff_steps(st2, o2), drained or need, o2)
            if any(m == mon0 for m, _w, _d in bad2):
                steps, obs, bad = st2, o2, bad2
        except Exception as e:  # noqa: BLE001
            chk.notes.append(f"shrinking failed: {e!r}")
    if obs.get("actor_died"):
        _death_reported[0] = True       # one (shrunk) history of a dying frontend is enough
    for mon, what, detail in bad[:6]:
        key = {"monitor": mon, "mode": "settled"}
        if mon == "T4_message_shape":
            key = {"monitor": mon, "event": detail.get("event")}
        chk.monitor_failure(mon, key, what, {"steps": [list(st) for st in steps], "repeats": repeats,
                                             "drained": py_idle(eff_steps(steps, obs)),
                                             "connect_faults": obs.get("connect_faults"),
                                             "logs": obs["logs"], "events": obs.get("event_specs"), **detail})


def load_corpus():
    out = []
    for f in sorted((vlib.VERIF / "corpus" / "C17").glob("*.json")):
        for sc in json.loads(f.read_text())["schedules"]:
            out.append(([norm_step(st) for st in sc["steps"]], bool(sc.get("drained")), bool(sc.get("repeats"))))
    return out


def norm_step(st):
    if st[0] == "emit" and len(st) > 1:
        return ("emit", tuple(tuple(a) for a in st[1]))
    return tuple(st)


def jsonable_steps(steps):
    return [[st[0], [list(a) for a in st[1]]] if st[0] == "emit" and len(st) > 1 else list(st) for st in steps]


def fresh_rig(rigbox):
    try:
        rigbox[0].stop()
    except Exception:  # noqa: BLE001
        pass
    rigbox[0] = Rig()
    return rigbox[0]


def report_interleaved(chk, rigbox, steps, obs):
    """Monitors for a schedule with membership changes inside broadcasts; on a failure the
    smallest hand-made interleaving that still fails is reported instead."""
    bad = interleaved_monitors(steps, obs)
    if obs.get("actor_died"):
        fresh_rig(rigbox)
        if _death_reported[0]:
            return          # one (minimal) history of a dying frontend is enough
        _death_reported[0] = True
    if not bad:
        return
    mon0 = bad[0][0]
    if _shrunk[0] < 3:
        _shrunk[0] += 1
        for cand in MINIMAL_INTERLEAVINGS:
            try:
                o = run_settled(rigbox[0], vlib.Rng(0, "c17-shrink"), cand)
            except Exception as e:  # noqa: BLE001
                chk.notes.append(f"minimal interleaving could not be run: {e!r}")
                fresh_rig(rigbox)
                continue
            b = interleaved_monitors(cand, o)
            if o.get("actor_died"):
                fresh_rig(rigbox)
            if any(m == mon0 for m, _w, _d in b):
                steps, obs, bad = cand, o, b
                break
    for mon, what, detail in bad[:4]:
        chk.monitor_failure(mon, {"monitor": mon, "mode": "interleaved"}, what,
                            {"steps": jsonable_steps(steps), "drained": True, "logs": obs["logs"],
                             "fired": [[e, k, list(a)] for e, k, a in obs["fired"]], **detail})


def settled_stage(chk, rigbox, n_cases):
    rows = []
    corpus = load_corpus()
    for k in range(len(corpus) + n_cases):
        rig = rigbox[0]
        repeats = False
        if k < len(corpus):
            steps, drained, repeats = corpus[k]
        elif chk.rng.random() < 0.10:
            steps, drained = gen_interleaved_schedule(chk.rng)
        elif chk.rng.random() < 0.28:
            steps, drained = gen_stepwise_schedule(chk.rng)
            chk.dist("settled:stepwise-hand-over")
            # loop-side steps between a snapshot and the last hand-over of its broadcast
            inside, ob, conn = set(), 0, 0
            for st in steps:
                if st[0] == "connect":
                    conn += 1
                elif st[0] == "disconnect":
                    conn -= 1
                if st[0] == "snap":
                    ob = conn
                elif st[0] == "handover":
                    ob = max(0, ob - 1)
                elif ob > 0:
                    inside.add(st[0])
            for kk in sorted(inside):
                chk.dist(f"settled:stepwise:{kk}-during-hand-over")
        else:
            repeats = chk.rng.random() < 0.12
            steps, drained = gen_repeat_schedule(chk.rng) if repeats else gen_schedule(chk.rng)
        if any(st[0] == "emit" and len(st) > 1 for st in steps):
            # membership changes scheduled inside broadcasts (deterministic interleaving)
            obs = run_settled(rig, chk.rng, steps)
            chk.dist("settled:membership-change-scheduled-inside-broadcast")
            chk.dist(f"settled:injection-points-reached={'0 (atomic snapshot)' if not obs['fired'] and not obs['actor_died'] else '>0'}")
            chk.count(1, nontrivial_key=json.dumps(jsonable_steps(steps)))
            report_interleaved(chk, rigbox, steps, obs)
            if not obs["fired"] and not obs["actor_died"]:
                # nothing fell inside an iteration: the run is the flat schedule, compared
                # exactly with the model like every other settled run
                rows.append((obs["flat_steps"], drained, obs))
            continue
        obs = run_settled(rig, chk.rng, steps, repeats=repeats)
        rows.append((eff_steps(steps, obs), drained, obs))
        for cid, how in obs["connect_faults"].items():
            chk.dist(f"settled:connect-time-fault:{how}")
        if repeats:
            chk.dist("settled:content-identical-events")
        kinds = {s[0] for s in steps}
        n_emit = sum(1 for s in steps if s[0] in EMITS)
        n_cl = sum(1 for s in steps if s[0] == "connect")
        chk.dist(f"settled:clients={n_cl}")
        chk.dist(f"settled:emits<={10 * ((n_emit + 9) // 10)}")
        for kk in ("disconnect", "fail", "recover"):
            if kk in kinds:
                chk.dist(f"settled:has-{kk}")
        chk.dist("settled:drained" if drained else "settled:not-drained")
        if drained and any(recovered_and_connected(steps, c) for c in {st[1] for st in steps if st[0] == "recover"}):
            chk.dist("settled:client-recovered-still-connected-then-emits")
        delivered = sum(len(v) for v in obs["logs"].values())
        nontrivial = n_emit >= 2 and n_cl >= 2 and delivered >= 2 and ({"disconnect", "fail"} & kinds)
        chk.count(1, nontrivial_key=json.dumps(steps) if nontrivial else None)
        report_settled(chk, rigbox, steps, drained, repeats, obs)
        if obs.get("actor_died"):
            rows.pop()      # nothing to compare with the model: the run was cut short
    for steps, drained, obs in rows[:3]:
        chk.sample({"steps": steps[:25], "logs": obs["logs"], "emit_targets": obs["emit_targets"][:6]})
    # model vs implementation, and the Gallina monitor predicates, inside Coq
    terms = []
    for steps, drained, obs in rows:
        logs = g_list([f"({g_z(c)}, {g_list([g_z(i) for i in l])})" for c, l in sorted(obs["logs"].items())])
        tg = [t for t in obs["emit_targets"]]
        known = all(t is not None for t in tg)
        tgs = g_list([g_list([g_z(x) for x in t]) for t in tg]) if known else "[]"
        terms.append(f"({g_steps(steps, tg)}, {logs}, {tgs}, {'true' if known else 'false'}, {'true' if drained else 'false'})")
    body = (
        "Definition cases_ty : Type := (list step * list (Z * list Z) * list (list Z) * bool * bool)%type.\n"
        "Definition zl_eqb := list_eqb Z.eqb.\n"
        "Definition same_set (a b : list Z) : bool := (length a =? length b)%nat && forallb (fun x => memz x b) a && forallb (fun x => memz x a) b.\n"
        "Fixpoint targets (s : state) (l : list step) : list (list Z) := match l with [] => [] | x :: t =>\n"
        "  match x with Emit _ _ => [clients s] | _ => [] end ++ targets (do_step s x) t end.\n"
        "Definition ok (c : cases_ty) : bool := let '(l, logs, tg, known, drained) := c in\n"
        "  forallb (fun p => zl_eqb (recv (fst p) (run l)) (snd p)) logs\n"
        "  && (negb known || list_eqb same_set (targets init l) tg).\n"
        "Definition mon1 (c : cases_ty) : bool := let '(l, logs, tg, known, drained) := c in\n"
        "  forallb (fun p => t1_log_ok (fst p) l (snd p)) logs.\n"
        "Definition mon2 (c : cases_ty) : bool := let '(l, logs, tg, known, drained) := c in\n"
        "  negb (idle (run l)) || forallb (fun p => t1_complete_ok (fst p) l (snd p)) logs.\n"
        "Definition mon3 (c : cases_ty) : bool := let '(l, logs, tg, known, drained) := c in\n"
        "  negb (idle (run l)) || forallb (fun p => t1_recovered_ok (fst p) l (snd p)) logs.\n")
    per = 100
    shards = [terms[i: i + per] for i in range(0, len(terms), per)]
    texts = [vlib.COQ_HEADER + COQ_IMPORTS + body + "Definition cases : list cases_ty :=\n " + g_list(sh) + ".\n"
             + "Eval vm_compute in mismatches ok cases.\nEval vm_compute in mismatches mon1 cases.\n"
               "Eval vm_compute in mismatches mon2 cases.\nEval vm_compute in mismatches mon3 cases.\n" for sh in shards]
    ok = True
    for si, (rc, out) in enumerate(vlib.coq_eval_many(AREA, texts)):
        lists = vlib.parse_all_lists(out)
        if rc != 0 or len(lists) != 4:
            ok = False
            chk.corr_failure("broadcast", {"shard": si, "error": "coq evaluation failed"}, out[-1500:])
            continue
        for i in lists[0][:10]:
            ok = False
            steps, drained, obs = rows[si * per + i]
            chk.corr_failure("broadcast", {"steps": steps, "drained": drained},
                             {"logs": obs["logs"], "emit_targets": obs["emit_targets"]})
        for mi, mon in ((1, "T1_exactly_once_in_order"), (2, "T2_isolation_complete"),
                        (3, "T1_complete_after_recovery")):
            for i in lists[mi][:10]:
                steps, drained, obs = rows[si * per + i]
                chk.monitor_failure(mon, {"monitor": mon, "mode": "settled"},
                                    f"Gallina predicate for {mon} false on the observed logs",
                                    {"steps": steps, "logs": obs["logs"]})
    chk.obligation("corr:broadcast", "correspondence", ok)
    return rows


def message_stage(chk):
    """corr:message - keys of the message built by the real on_event vs the model's
    `message` (dict_set of "event" into the arguments), for every event type."""
    from unittest import mock

    from mopidy.http import actor

    rng = chk.rng
    rows, used = [], set()
    for i in range(60 if chk.tier == "quick" else 600):
        name, kw, _ = make_event(rng, i, used)
        got = []
        try:
            with mock.patch.object(actor.handlers.WebSocketHandler, "broadcast", side_effect=lambda m, l: got.append(m)):
                actor.on_event(name, None, **dict(kw))
        except Exception as e:  # noqa: BLE001
            chk.monitor_failure("T4_message_shape", {"monitor": "T4_message_shape", "event": name},
                                f"on_event raised {type(e).__name__} instead of broadcasting the event",
                                {"name": name, "event": encode_event(name, kw), "error": repr(e)[:300]})
            continue
        obj = json.loads(got[0])
        rows.append((name, list(kw), list(obj)))
        chk.count(1, nontrivial_key=("msg", name, i) if kw else None)
        chk.dist(f"message:{name}")
        exp = expected_message(name, kw)
        if obj.get("event") != name or set(obj) != set(exp) or any(norm_payload(obj[k]) != exp[k] for k in exp):
            chk.monitor_failure("T4_message_shape", {"monitor": "T4_message_shape", "event": name},
                                "on_event message is not {'event': name} + arguments", {"name": name, "got": got[0].decode()})
    terms = [f"({g_str(n)}, {g_list([g_str(a) for a in args])}, {g_list([g_str(k) for k in keys])})" for n, args, keys in rows]
    body = ("Definition cases_ty : Type := (str * list str * list str)%type.\n"
            "Definition ok (c : cases_ty) : bool := let '(name, args, keys) := c in\n"
            "  let m := message (fun s => s) name (map (fun a => (a, a)) args) in\n"
            "  (length m =? length keys)%nat && forallb (fun k => mem_str k keys) (map fst m) && forallb (fun k => mem_str k (map fst m)) keys\n"
            "  && opt_eqb str_eqb (dict_get key_event m) (Some name).\n")
    text = (vlib.COQ_HEADER + COQ_IMPORTS + body + "Definition cases : list cases_ty :=\n " + g_list(terms)
            + ".\nEval vm_compute in mismatches ok cases.\n")
    rc, out = vlib.coq_eval(AREA, text)
    bad = vlib.parse_nat_list(out)
    ok = rc == 0 and bad == []
    if not ok:
        for i in (bad or [])[:5]:
            chk.corr_failure("message", {"name": rows[i][0], "args": rows[i][1], "keys": rows[i][2]})
        if bad is None:
            chk.corr_failure("message", {"error": "coq evaluation failed"}, out[-1500:])
    chk.obligation("corr:message", "correspondence", ok)


def racing_stage(chk, rig, n_cases):
    for k in range(n_cases):
        n_events = chk.rng.randint(5, 80)
        n_clients = chk.rng.randint(0, 5)
        try:
            obs = run_racing(rig, chk.rng, n_events, n_clients)
        except Exception as e:  # noqa: BLE001 - a wedged server must be reported, not crash the check
            chk.corr_failure("racing", {"n_events": n_events, "n_clients": n_clients}, f"racing run failed: {e!r}")
            break
        chk.dist(f"racing:clients={n_clients}")
        got = sum(len(o["log"]) for o in obs["clients"].values())
        chk.count(1, nontrivial_key=("race", k, n_events, n_clients, got) if (n_clients >= 2 and got >= 2) else None)
        for mon, c, what, o in racing_monitors(obs):
            chk.monitor_failure(mon, {"monitor": mon, "mode": "racing"}, what,
                                {"client": c, "observation": o, "n_events": n_events})
    chk.obligation("corr:racing", "correspondence", not any(c["name"] == "racing" for c in chk.corr_failures))


_SEARCH_RIG = [None]


# ----------------------------------------------------------------------------
# lifecycle scenarios: listeners and the frontend starting / stopping at different times


def gen_lifecycle(rng):
    return {"pre_listeners": rng.choice([0, 1, 1, 2]), "pre_events": rng.choice([0, 1, 2, 3]),
            "window_events": rng.choice([0, 0, 0, 1, 2]), "clients": rng.randint(1, 3),
            "events": rng.randint(1, 6), "late_listener": rng.random() < 0.4,
            "stop_listener": rng.random() < 0.3, "late_client": rng.random() < 0.4}


LIFECYCLE_CORPUS = [
    {"pre_listeners": 1, "pre_events": 1, "window_events": 0, "clients": 1, "events": 2, "late_listener": False,
     "stop_listener": False, "late_client": False},
    {"pre_listeners": 0, "pre_events": 0, "window_events": 1, "clients": 1, "events": 1, "late_listener": False,
     "stop_listener": False, "late_client": False},
    {"pre_listeners": 2, "pre_events": 2, "window_events": 0, "clients": 2, "events": 3, "late_listener": True,
     "stop_listener": True, "late_client": True},
    {"pre_listeners": 0, "pre_events": 2, "window_events": 0, "clients": 2, "events": 2, "late_listener": True,
     "stop_listener": False, "late_client": False},
]


def run_lifecycle(rng, scn):
    """The real mopidy.listener.send with several CoreListener actors started and stopped at
    different times around the HttpFrontend: other listeners running (and events emitted)
    before the frontend exists, events in the frontend's start-up window (HttpServer.io_loop
    still None), clients connecting afterwards, listeners joining / leaving later."""
    import pykka
    from mopidy.core import CoreListener

    class OtherListener(pykka.ThreadingActor, CoreListener):
        def __init__(self):
            super().__init__()
            self.got = []

        def on_event(self, event, **kw):
            self.got.append(event)

    pykka.ActorRegistry.stop_all(timeout=5)
    _SPECS.clear()
    used, events, trace = set(), [], []
    others = []

    def emit(tag):
        name, kw, content = make_event(rng, len(events), used)
        events.append((name, kw, content))
        trace.append([tag, len(events) - 1, name])
        CoreListener.send(name, **kw)

    for _ in range(scn["pre_listeners"]):
        others.append(OtherListener.start())
    trace.append(["listeners-started", len(others)])
    for _ in range(scn["pre_events"]):
        emit("event-before-frontend")
    rig = Rig(hold_server=scn["window_events"] > 0)
    trace.append(["frontend-started"])
    died, escaped, clients = None, [], {}
    try:
        n_log = len(rig.actor_log.records)
        for _ in range(scn["window_events"]):
            emit("event-in-startup-window")
        if scn["window_events"]:
            try:
                rig.barrier_actor()
            except Exception as e:  # noqa: BLE001
                if rig.ref.is_alive():
                    raise
                import re as _re
                died = _re.sub(r" \(urn:uuid:[^)]*\)", "", "; ".join(rig.actor_log.records[n_log:]) or repr(e))
            rig.release_server()
            trace.append(["server-loop-running"])
        connected_at = {}

        def connect(cid):
            c = Client(rig, cid)
            c.connect()
            clients[cid] = c
            connected_at[cid] = len(events)
            trace.append(["client-connected", cid])

        for cid in range(scn["clients"]):
            connect(cid)
        for k in range(scn["events"]):
            if k == 1 and scn["late_listener"]:
                others.append(OtherListener.start())
                trace.append(["listener-started-late"])
            if k == 2 and scn["stop_listener"] and others:
                others.pop(0).stop()
                trace.append(["listener-stopped"])
            if k == 1 and scn["late_client"]:
                connect(scn["clients"])
            emit("event")
            if rig.ref.is_alive():
                try:
                    rig.barrier_actor()
                except Exception as e:  # noqa: BLE001
                    if rig.ref.is_alive():
                        raise
                    died = died or repr(e)
            rig.on_loop(lambda: None)
        for cid, c in clients.items():
            if not c.sync("end"):
                escaped.append(f"client {cid} did not answer the final sync")
        logs = {}
        for cid, c in clients.items():
            dec = []
            for raw in c.log:
                try:
                    content = canonical(json.loads(raw))
                    dec.append(next((j for j, ev in enumerate(events) if ev[2] == content), -1))
                except Exception:  # noqa: BLE001
                    dec.append(-2)
            logs[cid] = dec
        alive = rig.ref.is_alive()
        for c in clients.values():
            try:
                c.disconnect()
            except Exception as e:  # noqa: BLE001
                escaped.append(f"cleanup: {e!r}")
    finally:
        rig.stop()
    return {"logs": logs, "connected_at": connected_at, "n_events": len(events), "trace": trace,
            "frontend_alive": alive, "frontend_error": died, "escaped": escaped}


def lifecycle_monitors(scn, obs):
    bad = []
    for e in obs["escaped"]:
        bad.append(("T2_failure_contained", {"monitor": "T2_failure_contained", "mode": "lifecycle"}, e))
    for c, log in obs["logs"].items():
        must = list(range(obs["connected_at"][c], obs["n_events"]))
        early = [i for i in log if 0 <= i < obs["connected_at"][c]]
        if any(i < 0 for i in log) or len(set(log)) != len(log) or any(a >= b for a, b in zip(log, log[1:])):
            bad.append(("T1_exactly_once_in_order", {"monitor": "T1_exactly_once_in_order", "mode": "lifecycle"},
                        f"client {c}: duplicate, unknown or out-of-order delivery {log}"))
        elif early:
            bad.append(("T1_exactly_once_in_order", {"monitor": "T1_exactly_once_in_order", "mode": "lifecycle"},
                        f"client {c} connected after event #{obs['connected_at'][c] - 1} but received the earlier events {early}"))
        elif [i for i in log if i >= obs["connected_at"][c]] != must:
            if not obs["frontend_alive"] and scn["window_events"] and "AssertionError" in (obs["frontend_error"] or ""):
                # the unmodified HttpFrontend.on_event asserts server.io_loop: an event in the
                # start-up window kills the frontend actor (known finding)
                key = {"monitor": "T1_event_reaches_every_client", "mode": "lifecycle", "cause": "event-before-io-loop"}
                what = (f"an event reached the frontend before its server thread had created the IO loop: "
                        f"[{obs['frontend_error'][:200]}] the frontend actor stopped, so client {c} (connected later) "
                        f"received {log} instead of {must}")
            else:
                key = {"monitor": "T1_event_reaches_every_client", "mode": "lifecycle",
                       "cause": "frontend-dead" if not obs["frontend_alive"] else "frontend-not-notified"}
                what = (f"client {c} is connected and healthy but received {log} of the events {must} emitted while it "
                        f"was connected (frontend actor alive: {obs['frontend_alive']})")
            bad.append(("T1_event_reaches_every_client", key, what))
    return bad


def run_bulk(rng, n_big_tracks, burst, burst_tracks):
    """Directed scenario, in every run: large payloads and a burst, to an ordinary client and to
    a slow reader (it stops reading during the burst), on the unmodified IO loop.  Events:
    small, one playlist_changed of several MiB, small, a burst of medium playlist_changed
    events, small.  Every connected client must receive every event exactly once, in order."""
    from mopidy.models import Playlist, Track

    rig = Rig()
    events, sizes = [], []
    try:
        clients = {}
        for cid in range(3):
            c = Client(rig, cid)
            c.connect()
            clients[cid] = c
        slow = clients[1]

        def pl(idx, n):
            return Playlist(uri=f"dummy:bulk{idx}", name=f"bulk {idx}",
                            tracks=[Track(uri=f"dummy:t{idx}.{i}", name="n" * 120, length=i) for i in range(n)])

        def emit(name, kw):
            events.append((name, kw))
            rig.emit(name, kw)

        emit("volume_changed", {"volume": 1})
        emit("playlist_changed", {"playlist": pl(1, n_big_tracks)})
        emit("mute_changed", {"mute": True})
        rig.barrier_actor()
        rig.on_loop(lambda: None)
        slow.paused = True
        time.sleep(0.05)
        for k in range(burst):
            emit("playlist_changed", {"playlist": pl(100 + k, burst_tracks)})
        emit("seeked", {"time_position": 7})
        rig.barrier_actor()
        rig.on_loop(lambda: None)
        time.sleep(0.1)
        slow.paused = False
        escaped = []
        for cid, c in clients.items():
            if not c.sync("end", timeout=30):
                escaped.append(f"client {cid} did not answer the final sync")
        expected = [canonical(expected_message(n, kw)) for n, kw in events]
        sizes = [len(e) for e in expected]
        index = {e: i for i, e in enumerate(expected)}
        logs = {}
        for cid, c in clients.items():
            dec = []
            for raw in c.log:
                try:
                    dec.append(index.get(canonical(json.loads(raw)), -1))
                except Exception:  # noqa: BLE001
                    dec.append(-2)
            logs[cid] = dec
        alive = rig.ref.is_alive()
        for c in clients.values():
            try:
                c.disconnect()
            except Exception as e:  # noqa: BLE001
                escaped.append(f"cleanup: {e!r}")
    finally:
        rig.stop()
    return {"logs": logs, "n_events": len(events), "sizes": sizes, "escaped": escaped, "frontend_alive": alive,
            "names": [n for n, _ in events]}


def bulk_stage(chk):
    variants = [(12000, 80, 120)] if chk.tier == "quick" else [(12000, 80, 120), (3000, 150, 60), (16000, 20, 400)]
    ok = True
    for n_big, burst, burst_tracks in variants:
        scn = {"big_playlist_tracks": n_big, "burst": burst, "burst_playlist_tracks": burst_tracks,
               "clients": "0 ordinary, 1 slow reader (pauses during the burst), 2 ordinary"}
        try:
            obs = run_bulk(chk.rng, n_big, burst, burst_tracks)
        except Exception as e:  # noqa: BLE001
            ok = False
            chk.corr_failure("bulk", {"scenario": scn}, f"scenario could not be run: {e!r}")
            continue
        chk.count(1, nontrivial_key=("bulk", n_big, burst, burst_tracks))
        chk.dist(f"bulk:largest-message-MiB={max(obs['sizes']) // (1024 * 1024)}")
        chk.dist(f"bulk:burst-total-MiB={sum(obs['sizes'][3:-1]) // (1024 * 1024)}")
        for e in obs["escaped"]:
            chk.monitor_failure("T2_failure_contained", {"monitor": "T2_failure_contained", "mode": "bulk"}, e, {"scenario": scn})
        must = list(range(obs["n_events"]))
        for c, log in obs["logs"].items():
            if log != must:
                missing = [i for i in must if i not in log]
                extra = "duplicate, unknown or out-of-order delivery" if (sorted(set(log)) != sorted(log) or any(i < 0 for i in log) or log != sorted(log)) else ""
                chk.monitor_failure(
                    "T1_event_reaches_every_client", {"monitor": "T1_event_reaches_every_client", "mode": "bulk"},
                    f"client {c} ({'slow reader' if c == 1 else 'ordinary reader'}) stayed connected but did not receive events "
                    f"{missing[:8]}{'...' if len(missing) > 8 else ''} ({[obs['names'][i] for i in missing[:3]]}, canonical JSON sizes "
                    f"{[obs['sizes'][i] for i in missing[:3]]} bytes) {extra}",
                    {"scenario": scn, "client": c, "received": len(log), "emitted": obs["n_events"], "missing": missing[:20],
                     "frontend_alive": obs["frontend_alive"]})
    chk.obligation("corr:bulk", "correspondence", ok)


def lifecycle_stage(chk):
    scns = list(LIFECYCLE_CORPUS) + [gen_lifecycle(chk.rng) for _ in range(12 if chk.tier == "quick" else 150)]
    ok = True
    for scn in scns:
        try:
            obs = run_lifecycle(chk.rng, scn)
        except Exception as e:  # noqa: BLE001
            ok = False
            chk.corr_failure("lifecycle", {"scenario": scn}, f"scenario could not be run: {e!r}")
            continue
        chk.count(1, nontrivial_key=("lifecycle", json.dumps(scn, sort_keys=True), json.dumps(obs["trace"])))
        chk.dist(f"lifecycle:listeners-before-frontend={scn['pre_listeners']}")
        chk.dist(f"lifecycle:startup-window-events={'0' if not scn['window_events'] else '>0'}")
        seen = set()
        for mon, key, what in lifecycle_monitors(scn, obs):
            k = json.dumps(key, sort_keys=True)
            if k in seen:
                continue
            seen.add(k)
            chk.monitor_failure(mon, key, what, {"scenario": scn, "trace": obs["trace"], "logs": obs["logs"],
                                                 "connected_at": obs["connected_at"]})
    chk.obligation("corr:lifecycle", "correspondence", ok)


def search(cf):
    """Directed search after a broken tie: re-run the disagreeing schedule, its prefixes and
    random sub-schedules in settled mode, looking for a run on which a property monitor
    (Python mirrors) fails."""
    case = cf.get("case") or {}
    steps = case.get("steps")
    if not steps:
        return None
    rig = Rig()
    _SEARCH_RIG[0] = rig
    try:
        return _search(rig, [norm_step(st) for st in steps if not (st[0] == "emit" and len(st) > 1 and False)])
    finally:
        _SEARCH_RIG[0].stop()
        if not rig.stopped:
            rig.stop()


def _search(rig, steps):
    rng = vlib.Rng(0, "c17-search")
    # first: membership changes scheduled inside a broadcast (non-atomic snapshot?)
    rigbox = [rig]
    try:
        for cand in MINIMAL_INTERLEAVINGS:
            obs = run_settled(rigbox[0], rng, cand)
            bad = interleaved_monitors(cand, obs)
            if obs.get("actor_died"):
                fresh_rig(rigbox)
            if bad:
                mon, what, detail = bad[0]
                return {"monitor": mon, "key": {"monitor": mon, "mode": "interleaved"}, "what": what,
                        "case": {"steps": jsonable_steps(cand), "logs": obs["logs"], **detail}}
    finally:
        if rigbox[0] is not rig:
            rig.stopped or rig.stop()
            rig = rigbox[0]
            _SEARCH_RIG[0] = rig
    cands = [steps + DRAIN_TAIL] + [steps[:k] + DRAIN_TAIL for k in range(len(steps), 0, -max(1, len(steps) // 10))]
    for _ in range(60):
        sub = [st for st in steps if rng.random() < 0.8]
        cands.append(sub + DRAIN_TAIL)
    for cand in cands:
        if not valid_schedule(cand):
            continue
        try:
            obs = run_settled(rig, rng, cand)
        except Exception:  # noqa: BLE001
            continue
        bad = settled_py_monitors(cand, True, obs)
        if bad:
            mon, what, detail = bad[0]
            return {"monitor": mon, "key": {"monitor": mon, "mode": "settled"}, "what": what,
                    "case": {"steps": [list(st) for st in cand], "logs": obs["logs"], **detail}}
    return None


def replay(chk, rig):
    """--replay file: re-run the recorded schedule (settled) and report the monitors."""
    data = json.loads(open(chk.replay).read())
    case = data.get("case") or {}
    if "steps" not in case and data.get("correspondence_failures"):
        case = data["correspondence_failures"][0].get("case") or {}
    steps = [norm_step(st) for st in case.get("steps", [])]
    if not steps:
        chk.notes.append("replay file has no schedule; running the normal check")
        return False
    if any(st[0] == "emit" and len(st) > 1 for st in steps):
        obs = run_settled(rig, chk.rng, steps)
        chk.count(1)
        chk.sample({"replayed_steps": jsonable_steps(steps), "logs": obs["logs"], "fired": obs["fired"]})
        for mon, what, detail in interleaved_monitors(steps, obs):
            chk.monitor_failure(mon, {"monitor": mon, "mode": "interleaved"}, what,
                                {"steps": jsonable_steps(steps), "logs": obs["logs"], **detail})
        return True
    obs = run_settled(rig, chk.rng, steps, repeats=bool(case.get("repeats")), preset_events=case.get("events"))
    chk.count(1)
    chk.sample({"replayed_steps": [list(st) for st in steps], "logs": obs["logs"]})
    for mon, what, detail in settled_py_monitors(eff_steps(steps, obs), py_idle(eff_steps(steps, obs)), obs):
        chk.monitor_failure(mon, {"monitor": mon, "mode": "settled"}, what,
                            {"steps": [list(st) for st in steps], "logs": obs["logs"], **detail})
    return True


def run(chk):
    chk.rule = ("schedules of emits (14 event types), connects, disconnects, write-failure injections/recoveries "
                "and single IO-loop callback runs against a live HttpFrontend with real WebSocket clients; "
                "non-trivial = at least 2 clients, 2 emits, 2 deliveries and a disconnect or injected failure; "
                "distinct by schedule")
    chk.trusted_base = [
        "Coq 8.16.1 kernel + vm_compute (no native_compute)",
        "harness/c17.py + harness/http_live.py: schedule generator, proxy IO loop (settled runs), fault injection on handler objects, WebSocket clients, Gallina emitter",
        "tornado 6.5 (IOLoop.add_callback FIFO, WebSocket framing, write_message raising on a closed connection), TCP on loopback, pykka mailbox FIFO - trusted",
        "pydantic JSON dump of event payloads - oracle (C08 owns the payload encoding)",
    ]
    chk.assumptions = [
        "the actor-thread -> IO-loop hand-off is an atomic enqueue of a snapshot of the client set (checked on the implementation by injecting client connects/disconnects at every point where a bytecode-driven iteration over the shared set could be interrupted - CPython switches threads only between bytecodes; racing runs exercise real interleavings but only monitor T1-T3)",
        "client ids name handler objects and are not reused",
    ]
    built = chk.proof_stage(PROP_FILES, thorough_coqchk=False)
    if built and chk.tier == "thorough":
        L.coqchk_stage(chk, AREA, PROP_FILES)
    vlib.setup_impl()
    L.quiet_logs()
    chk.search_hook = search
    # (the actor and server threads are not daemons: the rig must be stopped before the
    # interpreter shuts down, so the directed search in finish() starts its own)
    rig = Rig()
    try:
        if chk.replay and replay(chk, rig):
            return
        message_stage(chk)
        rig.stop()
        lifecycle_stage(chk)     # builds and stops its own frontends
        bulk_stage(chk)          # large payloads, a burst, a slow reader (own frontend)
        rig = Rig()
        rigbox = [rig]
        try:
            settled_stage(chk, rigbox, 1000 if chk.tier == "quick" else 12000)
            racing_stage(chk, rigbox[0], 120 if chk.tier == "quick" else 1500)
        finally:
            rig = rigbox[0]
    finally:
        rig.stop()
