"""C04 - every core request terminates (bounded backend interactions)."""
import core_check

AREA = "Core"


def run(chk):
    chk.rule = ("failure-heavy runs (tracks refused / no URI / raising / without backend, flaky per-attempt "
                "scripts, consume/repeat/random/single on); every op runs under a backend-interaction "
                "budget (watchdog) and its interaction count is compared with the linear bound; "
                "non-trivial = some op made at least two change_track attempts; distinct by op sequence")
    core_check.run_core(chk, "C04", [("faults", 6), ("schedule", 2), ("tracklist", 1)], ["Property_C04.v"])
    if not chk.replay:
        # provider methods failing outside the modelled environment: every request still ends
        import core_faulty

        core_faulty.run_stage(chk, "C04", contained=False)
        # the single core thread with real actors around it: a listener that needs the core while the
        # core serves a request must never make that request wait (shared stage of the Actors area)
        import c18_shared

        n = c18_shared.core_request_returns_with_listeners(chk, prop="C04", runs=2, bound_s=8)
        chk.notes.append(f"real-actor stage core_request_returns_with_listeners: {n} runs")
