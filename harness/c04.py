"""C04 - every core request terminates (bounded backend interactions)."""
import core_check

AREA = "Core"


def run(chk):
    chk.rule = ("failure-heavy runs (tracks refused / no URI / raising / without backend, flaky per-attempt "
                "scripts, consume/repeat/random/single on); every op runs under a backend-interaction "
                "budget (watchdog) and its interaction count is compared with the linear bound; "
                "non-trivial = some op made at least two change_track attempts; distinct by op sequence")
    core_check.run_core(chk, "C04", [("faults", 6), ("schedule", 2), ("tracklist", 1)], ["Property_C04.v"])
