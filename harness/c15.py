"""C15 - cross-origin browsers cannot drive the API while CSRF protection is on.

Model: coq/Http/Origin.v.  Four correspondences tie it to /repo/src:

  corr:netloc        urllib.parse.urlsplit(s).netloc / ValueError  vs  netloc_of   (library
                     transcription the whole policy rests on; arbitrary Unicode strings)
  corr:check_origin  mopidy.http.handlers.check_origin called directly vs check_origin
  corr:config        the real http config schema's allowed_origins vs config_allow
  corr:http          a live server (real HttpServer thread, real app factory, recording
                     core) driven over raw sockets vs handle; the headers given to the
                     model are the ones the handler saw (recorded through tornado's
                     log_function setting), the oracle bit is "urlsplit raised".

Monitors T1..T5 are evaluated on every observed response twice: by the Gallina predicates
the theorems are about (inside Coq), and by short Python mirrors that use the real
urllib for the netloc (independent of the model).
"""

from __future__ import annotations

import atexit
import json
import time
import urllib.parse
from pathlib import Path

from common import vlib
from common.vlib import g_bool, g_list, g_opt, g_str, g_z

import http_live as L

AREA = "Http"
PROP_FILES = ["Property_C15.v"]
RPC_BODY = b'{"jsonrpc":"2.0","id":1,"method":"core.get_version"}'

# ----------------------------------------------------------------------------
# generators

HOSTS = ["localhost", "localhost:6680", "127.0.0.1:6680", "music.example", "music.example:6680",
         "example.com.", "[::1]:6680", "[::1]", "a", "LocalHost:6680", "MUSIC.example"]
ALLOW_CFGS = ["", "allowed.example:80", "Allowed.Example, other:8080", "localhost.evil.com\n  MUSIC.EXAMPLE\n",
              "\xc0b.example, evil.example", "null, file",
              # entries with shell-glob metacharacters: the allow-list is a SET of literal netlocs
              "[::1]:6680", "[::1]:6680, *.example, music?.example:6680", "*", "[a-c]x.example:80\n*.EXAMPLE\n?",
              "[0:0:0:0:0:0:0:1]:6680, allowed.example:80"]
SCHEMES = ["http", "https", "HTTP", "file", "ws", "chrome-extension", "ht+t.p-1", "h"]
BAD_SCHEMES = ["1http", "h*tp", "", "+http", "ht tp", "h\xe9"]
EVIL = ["evil.example", "evil.example:6680", "localhost.evil.example", "evillocalhost", "localhos",
        "localhost:66800", "localhost:668", "xn--lcalhost-9za", "example.com"]
LATIN = "\xc0\xd7\xde\xdf\xe0\xff\xaa\xb5\xa0\x85"


def _up(c):
    u = c.upper()
    return u if len(u) == 1 and ord(u) < 256 else c


def mixed_case(rng, s):
    return "".join(_up(c) if rng.random() < 0.4 else c.lower() if rng.random() < 0.3 else c for c in s)


def allow_items(cfg):
    import re

    parts = re.split(r"\s*\n\s*", cfg) if "\n" in cfg else re.split(r"\s*,\s*", cfg)
    return [p.strip() for p in parts if p.strip()]


def glob_instance(rng, item):
    """A string that the entry would match if it were read as an fnmatch pattern, but that is
    not the entry itself: '*' -> some text, '?' -> one character, '[...]' -> one member."""
    import re

    out = re.sub(r"\[([^\]]+)\]", lambda m: rng.choice([c for c in m.group(1) if c != "-"] or ["x"]), item)
    out = out.replace("*", rng.choice(["evil", "evil.example", "a.b", ""])).replace("?", rng.choice(["x", "1", "e"]))
    return out


def gen_hostport(rng, host, allow_cfg):
    """A netloc chosen relative to the request's Host and the allow-list."""
    items = allow_items(allow_cfg)
    globby = [i for i in items if any(ch in i for ch in "*?[")]
    k = rng.weighted([("same", 5), ("allowed", 4 if items else 0), ("evil", 4), ("near", 4), ("weird", 3),
                      ("glob", 6 if globby else 0)])
    if k == "glob":
        h = glob_instance(rng, rng.choice(globby).lower())
    elif k == "same" and host:
        h = host
    elif k == "allowed" and items:
        h = rng.choice(items)
    elif k == "near" and host:
        h = rng.choice([host + ".evil.example", "evil" + host, host + ".", host.rstrip(".") , host + ":80",
                        host.split(":")[0], host[:-1] or "x", host + "@evil.example", "evil.example@" + host,
                        "user:pw@" + host, host + "\\@evil.example", host + "%2e", host + ","])
    elif k == "weird":
        h = rng.choice(["[::1]:6680", "[::1", "::1]", "[x]", "[v1.a]", "[127.0.0.1]", "[::1]]", "[[::1]",
                        "[0:0:0:0:0:0:0:1]:6680", "a b", "a\tb", "a" + rng.choice(LATIN) + "b",
                        rng.choice(LATIN), "@", ":", ":80", "."])
    else:
        h = rng.choice(EVIL)
    if rng.random() < 0.45:
        h = mixed_case(rng, h)
    return h


def gen_origin(rng, host, allow_cfg, wire=True):
    """Return an Origin value (str) or None (header absent)."""
    k = rng.weighted([("absent", 2), ("empty", 1), ("null", 1.2), ("scheme_only", 1.5), ("url", 22),
                      ("noscheme", 1.5), ("badscheme", 1.2), ("junk", 1.5)])
    if k == "absent":
        return None
    if k == "empty":
        return ""
    if k == "null":
        return rng.choice(["null", "Null", "NULL", "null/", "null://x"])
    if k == "scheme_only":
        return rng.choice(["file://", "http://", "https:", "file:", "http:/", "http:///", "file:///etc/x",
                           "http://?x", "http://#f", "about:blank", "data:text/html,x", "://", "//", "/"])
    hp = gen_hostport(rng, host, allow_cfg)
    if k == "noscheme":
        return rng.choice(["//" + hp, hp, "//" + hp + "/p", "/" + hp, "///" + hp, "\\\\" + hp, ":" + hp,
                           "://" + hp, hp + "://x"])
    if k == "badscheme":
        return rng.choice(BAD_SCHEMES) + "://" + hp
    if k == "junk":
        alphabet = "ah:/?#@[].\\ \t%,;" + LATIN + ("" if wire else "\x00\x01\n\r\x0b\x1f\x7f")
        return "".join(rng.choice(alphabet) for _ in range(rng.randint(1, 14)))
    o = rng.choice(SCHEMES) + rng.choice(["://"] * 14 + [":/", ":", ":///", "://" + "/"]) + hp
    o += rng.weighted([("", 10), ("/", 2), ("/path", 1), ("?q=1", 1), ("#frag", 1), ("/?#", 0.5),
                       (" ", 0.5), ("\t/", 0.5), (";p", 0.5)])
    if rng.random() < 0.08:
        o = rng.choice([" ", "\t", " \t "]) + o
    if rng.random() < 0.06:
        i = rng.randrange(len(o) + 1)
        o = o[:i] + rng.choice(["\t", " "] if wire else ["\t", "\r", "\n", "\x00", " ", "\x1f"]) + o[i:]
    return o


CTYPES = [
    "application/json", "application/json", "application/json", "application/json; charset=utf-8",
    "application/json;charset=utf-8", "application/json ; x=y", "application/json\t;x", "application/json;",
    "Application/JSON", "APPLICATION/JSON; charset=utf-8", "application/jsonx", "xapplication/json",
    "application/json,text/plain", "text/plain, application/json", "application/json;q=1,text/plain",
    "text/plain", "text/plain; application/json", "text/plain;application/json",
    "application/x-www-form-urlencoded", "multipart/form-data; boundary=x", "", ";application/json",
    "\xa0application/json", "application/json\x85", "application/ json", "application /json",
    "application/json charset=utf-8", "application/json\xa0; charset=x", "json", "*/*",
]


def gen_ctype_headers(rng):
    """List of raw Content-Type header values (several lines allowed), or []."""
    k = rng.weighted([("one", 12), ("absent", 2), ("two", 1.5)])
    if k == "absent":
        return []
    v = rng.choice(CTYPES)
    if rng.random() < 0.15:
        v = rng.choice([" ", "\t", "  "]) + v + rng.choice(["", " ", "\t"])
    if k == "two":
        return [v, rng.choice(CTYPES)]
    return [v]


def gen_case(rng):
    kind = rng.weighted([("post", 4), ("options", 5), ("ws", 5), ("head", 0.6), ("other", 0.8)])
    csrf = rng.random() < 0.8
    allow_cfg = rng.choice(ALLOW_CFGS)
    # (tornado answers 400 to a WebSocket upgrade over HTTP/1.0: never generated)
    version = "HTTP/1.0" if (kind != "ws" and rng.random() < 0.08) else "HTTP/1.1"
    host = rng.choice(HOSTS)
    headers = []
    if not (version == "HTTP/1.0" and rng.random() < 0.6):
        headers.append(["Host", host])
    else:
        host = None
    origin = gen_origin(rng, host or "localhost", allow_cfg)
    if origin is not None:
        headers.append([rng.choice(["Origin", "origin", "ORIGIN"]), origin])
        if rng.random() < 0.04:
            headers.append(["Origin", gen_origin(rng, host or "localhost", allow_cfg) or ""])
    if kind == "ws" and rng.random() < (0.5 if origin is None else 0.1):
        headers.append(["Sec-WebSocket-Origin", gen_origin(rng, host or "localhost", allow_cfg) or ""])
    body = True
    if kind == "post":
        for v in gen_ctype_headers(rng):
            headers.append(["Content-Type", v])
        body = rng.random() < 0.85
    if rng.random() < 0.4:
        # other client-controlled headers with attacker values: the decision must not depend on
        # them (proxy-style host / address headers are as forgeable as anything else)
        onet = ""
        if origin:
            try:
                onet = urllib.parse.urlsplit(origin).netloc
            except ValueError:
                onet = ""
        vals = [v for v in (onet, onet.lower(), "evil.example", "evil.example:6680", host or "localhost", "127.0.0.1",
                            f"host={onet or 'evil.example'};proto=http", "for=127.0.0.1") if v]
        for _ in range(rng.randint(1, 3)):
            name = rng.choice(["X-Forwarded-Host", "X-Forwarded-Host", "Forwarded", "X-Forwarded-For", "X-Real-IP",
                               "X-Forwarded-Proto", "X-Forwarded-Server", "X-Original-Host", "X-Host", "X-Forwarded-Port",
                               "Referer", "Via"])
            headers.append([name, rng.choice(vals)])
    rng.shuffle(headers)
    case = {"kind": kind, "csrf": csrf, "allow_cfg": allow_cfg, "headers": headers, "body": body,
            "version": version}
    if kind == "other":
        case["method"] = rng.choice(["GET", "PUT", "DELETE", "PATCH"])
    return case


# ----------------------------------------------------------------------------
# implementation drivers


class Servers:
    def __init__(self):
        self.pool = {}
        atexit.register(self.stop_all)

    def schema_allow(self, cfg):
        from mopidy.http import Extension

        return Extension().get_config_schema()["allowed_origins"].deserialize(cfg)

    def get(self, csrf, allow_cfg):
        key = (csrf, allow_cfg)
        if key not in self.pool:
            self.pool[key] = L.LiveServer(csrf_protection=csrf, allowed_origins=self.schema_allow(allow_cfg)).start()
        return self.pool[key]

    def stop_all(self):
        for s in self.pool.values():
            try:
                s.stop()
            except Exception:  # noqa: BLE001
                pass
        self.pool.clear()


SERVERS = Servers()
_vid = [0]


def run_http_case(case):
    """Drive the live server; returns the observation dict (or None if tornado rejected)."""
    srv = SERVERS.get(case["csrf"], case["allow_cfg"])
    _vid[0] += 1
    vid = f"v{_vid[0]}"
    lines = [f"{n}: {v}".encode("latin1") for n, v in case["headers"]] + [f"X-Verif-Id: {vid}".encode()]
    before = srv.core.n_calls()
    probe_out, n_clients = {}, 0
    if case["kind"] == "post":
        st, h, body, extra = L.raw_request(srv.port, "POST", "/mopidy/rpc", lines,
                                           RPC_BODY if case["body"] else b"", version=case["version"])
    elif case["kind"] == "options":
        st, h, body, extra = L.raw_request(srv.port, "OPTIONS", "/mopidy/rpc", lines, version=case["version"])
    elif case["kind"] == "head":
        st, h, body, extra = L.raw_request(srv.port, "HEAD", "/mopidy/rpc", lines, version=case["version"])
    elif case["kind"] == "other":
        st, h, body, extra = L.raw_request(srv.port, case.get("method", "GET"), "/mopidy/rpc", lines,
                                           version=case["version"])
    else:
        n_clients = len(srv.handlers.WebSocketHandler.clients)
        st, h, body, extra = L.raw_request(srv.port, "GET", "/mopidy/ws", lines + L.ws_handshake_headers(),
                                           version=case["version"], after_upgrade=L.ws_text_frame(RPC_BODY),
                                           timeout=2.0,
                                           probe=lambda: any(hd.request.headers.get("X-Verif-Id") == vid
                                                             for hd in list(srv.handlers.WebSocketHandler.clients)),
                                           probe_out=probe_out)
    seen = None
    t0 = time.time()
    while seen is None and time.time() - t0 < 1.0:
        seen = srv.take_seen(vid)
        if seen is None:
            if st == 400 and time.time() - t0 > 0.05:
                break
            time.sleep(0.001)
    # the wrapper runs synchronously inside the handler, before the response is written
    reached = srv.core.n_calls() > before
    ac = {k: v for k, v in h.items() if k.startswith("access-control-")}
    # the four headers of set_extra_headers go together
    ex = [h.get("x-mopidy-version") is not None, h.get("cache-control") == ["no-cache"],
          h.get("accept") == ["application/json"], h.get("content-type") == ["application/json; utf-8"]]
    obs = {
        "extra": all(ex), "extra_partial": any(ex) and not all(ex),
        "registered": bool(probe_out.get("value", False)),
        "acah_value": (ac.get("access-control-allow-headers") or [None])[0],
        "status": st,
        "acao": (ac.get("access-control-allow-origin") or [None])[0],
        "acao_n": len(ac.get("access-control-allow-origin", [])),
        "acah": any(k != "access-control-allow-origin" for k in ac),
        "core": reached,
        "seen": seen["headers"] if seen else None,
        "answered": (b"verif-core" in body) or (b"verif-core" in extra),
    }
    return obs


def oracle_rejects(origin):
    """CPython's urlsplit raised ValueError on this origin (oracle bit of the model)."""
    if origin is None:
        return False
    try:
        urllib.parse.urlsplit(origin)
        return False
    except ValueError:
        return True


def model_request(case, obs):
    """Gallina request term from what the handler saw."""
    seen = obs["seen"]
    origin, host, ctype, wso = seen["Origin"], seen["Host"], seen["Content-Type"], seen["Sec-Websocket-Origin"]
    eff = origin if origin is not None else (wso if case["kind"] == "ws" else None)
    allow = sorted(SERVERS.get(case["csrf"], case["allow_cfg"]).config["http"]["allowed_origins"])
    kind = {"post": "Post", "options": "Options", "ws": "WsHandshake", "head": "Head", "other": "OtherMethod"}[case["kind"]]
    return ("(mkReq %s %s %s %s %s %s %s %s %s)" % (
        kind, g_bool(case["csrf"]), g_list([g_str(a) for a in allow]), g_opt(origin, g_str), g_opt(wso, g_str),
        g_opt(host, g_str), g_opt(ctype, g_str), g_bool(case["body"]), g_bool(oracle_rejects(eff))))


def observed_response(obs):
    return "(mkResp %s %s %s %s %s %s)" % (g_z(obs["status"]), g_opt(obs["acao"], g_str), g_bool(obs["acah"]),
                                           g_bool(obs["core"]), g_bool(obs["extra"]), g_bool(obs["registered"]))


# ----------------------------------------------------------------------------
# Python mirrors of the property predicates (real urllib for the netloc)

MON_NAMES = ["T1_post_gate", "T2_preflight_sound", "T3_ws_sound", "T4_refused_is_inert",
             "T5_protection_off_accepts_all"]


def permitted(origin, host, allow):
    try:
        n = urllib.parse.urlsplit(origin).netloc
    except ValueError:
        return False
    # the reading most favourable to the implementation: both sides compared case-insensitively
    return n == "" or (host is not None and n.lower() == host.lower()) or n.lower() in {a.lower() for a in allow}


def origin_class(o):
    if o is None:
        return "absent"
    if o == "":
        return "empty"
    try:
        n = urllib.parse.urlsplit(o).netloc
    except ValueError:
        return "urlsplit-raises"
    if n == "":
        return "no-netloc"
    if "[" in n:
        return "ipv6"
    if "@" in n:
        return "userinfo"
    if not n.isascii():
        return "non-ascii"
    return "hostport"


def py_monitors(case, obs):
    """Return list of (monitor name, what) violated on this observed response."""
    seen = obs["seen"]
    bad = []
    st, core, granted = obs["status"], obs["core"], (obs["acao"] is not None or obs["acah"])
    if st is None:
        return [("T4_refused_is_inert", "no response")] if core else []
    # (the Mopidy/JSON headers of set_extra_headers are compared with the model but are not
    # part of the property: a refusal carrying them is a broken tie, not a violation)
    if st >= 400 and (core or granted or obs.get("registered")):
        bad.append(("T4_refused_is_inert", f"status {st} but core={core} cors={granted} "
                                           f"ws-registered={obs.get('registered')}"))
    if seen is None or st == 400:
        return bad
    origin, host, ctype, wso = seen["Origin"], seen["Host"], seen["Content-Type"], seen["Sec-Websocket-Origin"]
    allow = SERVERS.get(case["csrf"], case["allow_cfg"]).config["http"]["allowed_origins"]
    csrf, kind = case["csrf"], case["kind"]
    if kind == "post" and csrf and core:
        if (ctype or "").split(";")[0].strip().lower() != "application/json":
            bad.append(("T1_post_gate", f"executed with Content-Type {ctype!r}"))
    if kind == "options" and csrf:
        if origin is None:
            if st != 403 or granted:
                bad.append(("T2_preflight_sound", f"preflight without Origin answered {st} cors={granted}"))
        elif (granted or st < 400) and not permitted(origin, host, allow):
            bad.append(("T2_preflight_sound", f"preflight accepted for Origin {origin!r} Host {host!r}"))
    if kind == "ws":
        eff = origin if origin is not None else wso
        if eff is None:
            if st != 101 or not core:
                bad.append(("T3_ws_sound", f"handshake without Origin answered {st} core={core}"))
        elif csrf and (core or st < 400) and not permitted(eff, host, allow):
            bad.append(("T3_ws_sound", f"handshake accepted for Origin {eff!r} Host {host!r}"))
    if not csrf:
        if kind == "post" and (st != 200 or core != case["body"]):
            bad.append(("T5_protection_off_accepts_all", f"post answered {st} core={core}"))
        if kind == "options" and st != 204:
            bad.append(("T5_protection_off_accepts_all", f"options answered {st}"))
        if kind == "ws" and (st != 101 or not core):
            bad.append(("T5_protection_off_accepts_all", f"handshake answered {st} core={core}"))
        if kind == "head" and st != 200:
            bad.append(("T5_protection_off_accepts_all", f"head answered {st}"))
    return bad


def mon_key(monitor, case, obs):
    seen = obs.get("seen") or {}
    o = seen.get("Origin")
    if o is None and case["kind"] == "ws":
        o = seen.get("Sec-Websocket-Origin")
    return {"monitor": monitor, "kind": case["kind"], "csrf": case["csrf"], "origin": origin_class(o)}


# ----------------------------------------------------------------------------
# stages

COQ_IMPORTS = ("From Common Require Import Res Str Cases.\nFrom Http Require Import Origin.\n")


def eval_shards(chk, name, items, ok_def, per=500):
    """items: list of Gallina case terms; ok_def: text defining `cases_ty` and `ok`.
    Returns (ok?, list of failing indices)."""
    shards = [items[i: i + per] for i in range(0, len(items), per)]
    texts = [vlib.COQ_HEADER + COQ_IMPORTS + ok_def + "Definition cases : list cases_ty :=\n "
             + g_list(sh) + ".\nEval vm_compute in mismatches ok cases.\n" for sh in shards]
    results = vlib.coq_eval_many(AREA, texts)
    bad, okall = [], True
    for si, (rc, out) in enumerate(results):
        idx = vlib.parse_nat_list(out)
        if rc != 0 or idx is None:
            okall = False
            chk.corr_failure(name, {"shard": si, "error": "coq evaluation failed"}, out[-1500:])
            continue
        bad += [si * per + i for i in idx]
    return okall and not bad, bad


def gen_any_string(rng):
    k = rng.weighted([("origin", 8), ("unicode", 2), ("ctl", 2)])
    if k == "origin":
        return gen_origin(rng, rng.choice(HOSTS), rng.choice(ALLOW_CFGS), wire=False) or ""
    if k == "unicode":
        alpha = "ah:/?#@[].\u212a\u2100\uff0f\u0130\u00df\u2044\uff1a\U0001F600\ud800"
        return rng.choice(["http://", "//", "x://", ""]) + "".join(rng.choice(alpha) for _ in range(rng.randint(1, 8)))
    return "".join(chr(rng.randrange(0, 48)) if rng.random() < 0.5 else rng.choice("htp:/x[]") for _ in range(rng.randint(1, 10)))


NETLOC_CORPUS = ["", "http://a", "//a", "http:a", "a://b/c", " http://a", "\x00\x1f http://a", "ht\ttp://a\nb",
                 "http:/\t/a", "1http://a", "h1+-.://a?b", "http://[::1]", "http://[::1", "http://::1]", "http://[x]",
                 "http://a/[", "http://a#[", "//[", "http://\u212a", "http://\uff0f", "http://a\u2100b",
                 ":a", "a:", "://a", "http://a b/ c", "HTTP://A", "\t", " ", "http://\xe9", "h\xe9://a", "\xe9http://a",
                 "a:b://c", "http://a:b@c:d/e", "//a//b", "///a", "http:////a", "http://?a", "x:\n//a"]


def netloc_stage(chk):
    n = 1500 if chk.tier == "quick" else 30000
    strings = list(NETLOC_CORPUS) + [gen_any_string(chk.rng) for _ in range(n)]
    items = []
    for s in strings:
        try:
            o = ("ok", urllib.parse.urlsplit(s).netloc)
        except ValueError:
            o = ("raise", "")
        items.append((s, o))
        chk.count(1, nontrivial_key=("netloc", s) if o[1] or o[0] == "raise" else None)
        chk.dist(f"netloc:{o[0]}:{'nonempty' if o[1] else 'empty'}")
    terms = [f"({g_str(s)}, {g_bool(o[0] == 'raise')}, {g_str(o[1])})" for s, o in items]
    ok_def = ("Definition cases_ty : Type := (str * bool * str)%type.\n"
              "Definition ok (c : cases_ty) : bool := let '(s, raised, n) := c in\n"
              "  match netloc_of s with\n"
              "  | Netloc m => negb raised && str_eqb m n\n"
              "  | MustRaise => raised\n"
              "  | MayRaise m => raised || str_eqb m n end.\n")
    ok, bad = eval_shards(chk, "netloc", terms, ok_def)
    for i in bad[:20]:
        chk.corr_failure("netloc", {"s": items[i][0], "impl": list(items[i][1])})
    # finite sweeps: str.lower / str.isspace on every code point 0..255 (the header alphabet)
    low = [(c, [ord(x) for x in chr(c).lower()]) for c in range(256)]
    sp = [(c, chr(c).isspace()) for c in range(256)]
    terms = [f"({c}, {g_list([g_z(x) for x in l])}, {g_bool(s)})" for (c, l), (_, s) in zip(low, sp)]
    ok_def = ("Definition cases_ty : Type := (Z * list Z * bool)%type.\n"
              "Definition ok (c : cases_ty) : bool := let '(c, l, s) := c in\n"
              "  str_eqb [py_lower_c c] l && Bool.eqb (py_isspace c) s.\n")
    ok2, bad2 = eval_shards(chk, "latin1-lower-isspace", terms, ok_def)
    for i in bad2[:10]:
        chk.corr_failure("latin1-lower-isspace", {"code_point": i})
    chk.count(256)
    chk.obligation("corr:netloc", "correspondence", ok)
    chk.obligation("corr:latin1-lower-isspace", "correspondence", ok2)


def check_origin_stage(chk):
    from mopidy.http import handlers
    import tornado.httputil

    n = 1500 if chk.tier == "quick" else 30000
    rng = chk.rng
    rows = []
    for _ in range(n):
        host = rng.choice(HOSTS + [None])
        cfg = rng.choice(ALLOW_CFGS)
        allow = SERVERS.schema_allow(cfg)
        origin = gen_origin(rng, host or "localhost", cfg, wire=rng.random() < 0.7)
        hdrs = tornado.httputil.HTTPHeaders()
        if host is not None:
            hdrs.add("Host", host)
        try:
            r = "T" if handlers.check_origin(origin, hdrs, allow) else "F"
        except ValueError:
            r = "V"
        except Exception as e:  # noqa: BLE001
            r = "X:" + type(e).__name__
        rows.append((origin, host, sorted(allow), r))
        chk.count(1, nontrivial_key=("co", origin, host, cfg) if origin_class(origin) not in ("absent", "empty", "no-netloc") else None)
        chk.dist(f"check_origin:{origin_class(origin)}:{r[0]}")
        # monitor: acceptance only for permitted origins (property predicate on the real function)
        if r == "T" and (origin is None or not permitted(origin, host, allow)):
            chk.monitor_failure("check_origin_sound", {"monitor": "check_origin_sound", "origin": origin_class(origin)},
                                f"check_origin accepted {origin!r} for Host {host!r}",
                                {"origin": origin, "host": host, "allow": sorted(allow)})
    code = {"T": 0, "F": 1, "V": 2}
    terms = ["(%s, %s, %s, %s, %s)" % (g_opt(o, g_str), g_opt(h, g_str), g_list([g_str(a) for a in al]),
                                      g_bool(oracle_rejects(o)), g_z(code.get(r, 9))) for o, h, al, r in rows]
    ok_def = ("Definition cases_ty : Type := (option str * option str * list str * bool * Z)%type.\n"
              "Definition ok (c : cases_ty) : bool := let '(o, h, al, orc, r) := c in\n"
              "  match check_origin orc al o h with\n"
              "  | Ok true => r =? 0 | Ok false => r =? 1 | Raise ValueError => r =? 2 | _ => false end.\n")
    ok, bad = eval_shards(chk, "check_origin", terms, ok_def)
    for i in bad[:20]:
        o, h, al, r = rows[i]
        chk.corr_failure("check_origin", {"origin": o, "host": h, "allow": al, "impl": r})
    chk.obligation("corr:check_origin", "correspondence", ok)


def config_stage(chk):
    """corr:config - the text of http/allowed_origins through the real schema (List of
    String(transformer=str.lower): decode, split, strip, decode again, strip, lower,
    frozenset / ValueError) vs parse_allowed_origins."""
    rng = chk.rng
    pool = ["Allowed.Example", "allowed.example", "LOCALHOST:6680", "a", "A", "\xc0b.example", "\xe0B.example",
            "x y", "MiXeD.Case:80", "\xd7\xdf", "null", "music.example:6680", "MUSIC.example", "[::1]:6680",
            "a\\\\b", "\\t", "\\n", "\\\\", "\\", "x\\ty", " \\t ", "\x0b", "\xa0pad\xa0", "\x85", "q\\", "\\\\n",
            "", " ", "ab\\nCD", "tab\there"]
    texts = ["", " ", ",", "\n", "a", "A,B", "A\nB", "a,,b", "a\n\nb", " a , b ", "a\\nb", "a\\\\nb", "\\t", "x,\\t", "\\n",
             "a,b\nc", "A ,\tB", "a\r\nb", "\xa0a\xa0,\x0bb", "a\\", "a\\,b"]
    for _ in range(300 if chk.tier == "quick" else 4000):
        items = [rng.choice(pool) for _ in range(rng.randint(0, 4))]
        sep = rng.choice([", ", ",", "\n", "\n   ", " ,\t", "\\n", ",\n", " \xa0, ", "\r\n"])
        texts.append(rng.choice(["", " ", "\n", "\t"]) + sep.join(items) + rng.choice(["", "\n", " ", ",", "\\n"]))
    rows = []
    for text in texts:
        try:
            got, raised = sorted(SERVERS.schema_allow(text)), False
        except ValueError:
            got, raised = [], True
        except Exception as e:  # noqa: BLE001
            got, raised = ["<" + type(e).__name__ + ">"], False
        rows.append((text, got, raised))
        chk.count(1, nontrivial_key=("cfg", text) if ("\\" in text or any(x.lower() != x for x in got) or raised or len(got) > 1) else None)
        chk.dist("config:raises" if raised else f"config:entries={min(len(got), 3)}")
        for g in got:
            if g != g.lower():
                chk.monitor_failure("allow_list_lowercased", {"monitor": "allow_list_lowercased"},
                                    "configured allow-list entry kept in upper case", {"cfg": text, "got": got})
    terms = [f"({g_str(t)}, {g_list([g_str(x) for x in got])}, {g_bool(r)})" for t, got, r in rows]
    ok_def = ("Definition cases_ty : Type := (str * list str * bool)%type.\n"
              "Definition ok (c : cases_ty) : bool := let '(text, got, raised) := c in\n"
              "  match parse_allowed_origins text with\n"
              "  | Ok vs => negb raised && forallb (fun x => mem_str x got) vs && forallb (fun x => mem_str x vs) got\n"
              "  | Raise ValueError => raised\n"
              "  | _ => false end.\n")
    ok, bad = eval_shards(chk, "config", terms, ok_def)
    for i in bad[:10]:
        chk.corr_failure("config", {"cfg": rows[i][0], "impl": rows[i][1], "impl_raised": rows[i][2]})
    chk.obligation("corr:config", "correspondence", ok)


def load_corpus():
    d = vlib.VERIF / "corpus" / "C15"
    cases = []
    for f in sorted(d.glob("*.json")):
        data = json.loads(f.read_text())
        cases += data["cases"] if isinstance(data, dict) else data
    return cases


def http_stage(chk, cases):
    rows = []
    for case in cases:
        obs = run_http_case(case)
        chk.dist(f"http:{case['kind']}:csrf={'on' if case['csrf'] else 'off'}:{obs['status']}")
        if any(n.lower().startswith(("x-forwarded", "forwarded", "x-real", "x-orig", "x-host", "via", "referer"))
               for n, _v in case["headers"]):
            chk.dist("http:with-forged-proxy-headers")
        for mon, what in py_monitors(case, obs):
            chk.monitor_failure(mon, mon_key(mon, case, obs), what, {"case": case, "observed": obs})
        if obs["acao_n"] > 1:
            chk.corr_failure("http", case, "more than one Access-Control-Allow-Origin header")
        if obs["extra_partial"]:
            chk.corr_failure("http", case, "only some of the set_extra_headers headers are present")
        if obs["acah_value"] not in (None, "Content-Type"):
            chk.corr_failure("http", case, f"Access-Control-Allow-Headers is {obs['acah_value']!r}")
        if obs["seen"] is None or obs["status"] == 400:
            # refused by tornado itself (malformed header block, unparsable multipart body):
            # no handler method ran; only T4 (refused => inert) applies
            chk.dist("http:rejected-by-tornado")
            if obs["status"] != 400:
                chk.corr_failure("http", case, f"no handler ran but status {obs['status']}")
            chk.count(1)
            continue
        seen = obs["seen"]
        o = seen["Origin"] if seen["Origin"] is not None else (seen["Sec-Websocket-Origin"] if case["kind"] == "ws" else None)
        oc = origin_class(o)
        chk.dist(f"http:origin:{oc}")
        if case["csrf"] and o is not None and case["kind"] in ("options", "ws") and obs["status"] < 400:
            n = urllib.parse.urlsplit(o).netloc.lower()
            allow_now = SERVERS.get(case["csrf"], case["allow_cfg"]).config["http"]["allowed_origins"]
            chk.dist("http:accepted-because:" + ("empty-netloc" if not n else "allow-list" if n in allow_now else
                                                  "host" if n == seen["Host"] else "?"))
        if case["csrf"] and any(ch in case["allow_cfg"] for ch in "*?["):
            chk.dist("http:allow-list-with-glob-metacharacters")
        if case["csrf"] and case["kind"] == "post" and obs["status"] == 200:
            chk.dist("http:post-executed:" + ("cors-echo" if seen["Origin"] is not None else "no-origin"))
        nontrivial = case["csrf"] and (oc not in ("absent",) or case["kind"] == "post")
        chk.count(1, nontrivial_key=(case["kind"], case["allow_cfg"], o, seen["Host"], seen["Content-Type"], case["body"])
                  if nontrivial else None)
        if obs["core"] != obs["answered"]:
            chk.corr_failure("http", case, f"core reached={obs['core']} but answer seen={obs['answered']}")
        rows.append((case, obs))
    for case, obs in rows[:5]:
        chk.sample({"kind": case["kind"], "csrf": case["csrf"], "allow": case["allow_cfg"], "seen": obs["seen"],
                    "status": obs["status"], "acao": obs["acao"], "core": obs["core"]})
    terms = [f"({model_request(c, o)}, {observed_response(o)})" for c, o in rows]
    # one Coq file per shard: Eval #0 = model vs observed response, Eval #1..5 = the Gallina
    # monitors (the predicates of the theorems) on the observed response
    per = 500
    shards = [terms[i: i + per] for i in range(0, len(terms), per)]
    body = ("Definition cases_ty : Type := (request * response)%type.\n"
            "Definition ok (c : cases_ty) : bool := let '(r, p) := c in resp_eqb (handle r) p.\n"
            "Definition mon (k : nat) (c : cases_ty) : bool := let '(r, p) := c in nth k (all_monitors r p) false.\n")
    texts = [vlib.COQ_HEADER + COQ_IMPORTS + body + "Definition cases : list cases_ty :=\n " + g_list(sh) + ".\n"
             + "Eval vm_compute in mismatches ok cases.\n"
             + "".join(f"Eval vm_compute in mismatches (mon {k}%nat) cases.\n" for k in range(len(MON_NAMES)))
             for sh in shards]
    ok = True
    for si, (rc, out) in enumerate(vlib.coq_eval_many(AREA, texts)):
        lists = vlib.parse_all_lists(out)
        if rc != 0 or len(lists) != 1 + len(MON_NAMES):
            ok = False
            chk.corr_failure("http", {"shard": si, "error": "coq evaluation failed"}, out[-1500:])
            continue
        for i in lists[0][:20]:
            ok = False
            c, o = rows[si * per + i]
            chk.corr_failure("http", c, {"observed": o})
        for k, mon in enumerate(MON_NAMES):
            for i in lists[1 + k][:20]:
                c, o = rows[si * per + i]
                chk.monitor_failure(mon, mon_key(mon, c, o), f"Gallina predicate {mon} false on the observed response",
                                    {"case": c, "observed": o})
    chk.obligation("corr:http", "correspondence", ok and not any(cf["name"] == "http" for cf in chk.corr_failures))
    return rows


def search(cf):
    """Directed search after a broken tie: mutate the disagreeing case, look for an input
    on which a property monitor fails on the real server."""
    case = cf.get("case")
    if not isinstance(case, dict) or "kind" not in case:
        return None
    rng = vlib.Rng(0, "c15-search")
    for i in range(400):
        c = json.loads(json.dumps(case))
        if i:
            host = next((v for n, v in c["headers"] if n.lower() == "host"), "localhost")
            m = rng.randrange(5)
            if m == 0:
                c["headers"] = [[n, v] for n, v in c["headers"] if n.lower() != "origin"]
                o = gen_origin(rng, host, c["allow_cfg"])
                if o is not None:
                    c["headers"].append(["Origin", o])
            elif m == 1:
                c["headers"] = [[n, v] for n, v in c["headers"] if n.lower() != "content-type"]
                c["headers"] += [["Content-Type", v] for v in gen_ctype_headers(rng)]
            elif m == 2:
                c["kind"] = rng.choice(["post", "options", "ws"])
            elif m == 3:
                c["csrf"] = True
                c["allow_cfg"] = rng.choice(ALLOW_CFGS)
            else:
                c = gen_case(rng)
        obs = run_http_case(c)
        bad = py_monitors(c, obs)
        if bad:
            mon, what = bad[0]
            return {"monitor": mon, "key": mon_key(mon, c, obs), "what": what, "case": {"case": c, "observed": obs}}
    return None


def run(chk):
    chk.rule = ("requests to /mopidy/rpc (POST, OPTIONS) and /mopidy/ws on a live server; non-trivial = CSRF "
                "protection on and (an Origin/Sec-WebSocket-Origin header present, or a POST); distinct by "
                "(kind, allow-list, origin, Host, Content-Type, body) as seen by the handler; direct "
                "check_origin calls count as non-trivial when the origin has a non-empty netloc")
    chk.trusted_base = [
        "Coq 8.16.1 kernel + vm_compute (no native_compute)",
        "harness/c15.py + harness/http_live.py: generators, raw-socket HTTP client, Gallina emitter, recording core",
        "tornado 6.5 (header parsing, routing, WebSocket handshake, error handling) - trusted, its origin selection on /ws is modelled",
        "urllib.parse.urlsplit: netloc extraction transcribed in Http/Origin.v (correspondence-checked); bracketed-host and NFKC validation is an oracle bit",
        "str.lower/str.strip on code points 0..255 transcribed (exhaustively compared)",
    ]
    chk.assumptions = [
        "header values are tornado field-values (latin-1 decoded, no control characters except TAB); str.lower is modelled on code points 0..255 only",
        "the JSON-RPC wrapper itself does not raise (recording core); python is not run with -O (the `assert origin` in options is live)",
        "the WebSocket handshake is otherwise valid (Upgrade/Connection/Key/Version present)",
    ]
    built = chk.proof_stage(PROP_FILES, thorough_coqchk=False)
    if built and chk.tier == "thorough":
        L.coqchk_stage(chk, AREA, PROP_FILES)
    vlib.setup_impl()
    L.quiet_logs()
    chk.search_hook = search
    if chk.replay:
        data = json.loads(open(chk.replay).read())
        case = (data.get("case") or {}).get("case") if isinstance(data.get("case"), dict) else None
        if case is None and data.get("correspondence_failures"):
            case = data["correspondence_failures"][0].get("case")
        if isinstance(case, dict) and "kind" in case and "headers" in case:
            http_stage(chk, [case])   # model comparison + all monitors on the recorded request
            return
        chk.notes.append("replay file has no HTTP case; running the normal check")
    netloc_stage(chk)
    check_origin_stage(chk)
    config_stage(chk)
    n = 2500 if chk.tier == "quick" else 40000
    cases = load_corpus() + [gen_case(chk.rng) for _ in range(n)]
    http_stage(chk, cases)
