"""C20 - untrusted playlist documents and media tags are handled totally.

Three stages, each a model/implementation correspondence evaluated inside Coq plus
monitors that evaluate the property predicate on the real execution:

  A  c20_parse.py   playlists.parse                      <-> Untrusted/Playlists.v
  B  c20_unwrap.py  stream.actor._unwrap_stream (+ http.download) <-> Untrusted/Unwrap.v
  C  c20_tags.py    audio.tags.convert_tags_to_track      <-> Untrusted/Tags.v
  D  c20_transcr.py the transcribed Python built-ins, each against the real one
  E  c20_download.py internal.http.download's chunk loop   <-> Untrusted/Download.v
  G  c20_proxy.py   _unwrap_stream over the real requests session (with / without [proxy]) and failing connects: monitors only
  F  c20_stream.py  StreamLibraryProvider.lookup / StreamPlaybackProvider.translate_uri <-> Untrusted/Stream.v
"""

import logging

from common import vlib

import c20_download
import c20_parse
import c20_proxy
import c20_stream
import c20_tags
import c20_transcr
import c20_unwrap

AREA = "Untrusted"
PROP_FILES = ["Property_C20.v"]


class _Collector:
    """Stand-in for Check used by the directed search: records monitor failures only."""

    def __init__(self, seed):
        self.tier = "quick"
        self.seed = seed
        self.monitor_failures = []
        self.samples = []

    def monitor_failure(self, monitor, key, what, case):
        self.monitor_failures.append({"monitor": monitor, "key": key, "what": what, "case": case})

    def __getattr__(self, _name):  # count, dist, sample, corr_failure, obligation: ignored
        return lambda *a, **k: None


def directed_search(chk):
    """After a broken tie: look for an input on which the property predicate itself fails.

    parse: byte-level neighbours of the disagreeing document; unwrap / tags: fresh random
    cases from other seeds (monitors only, no Coq)."""

    def hook(cf):
        from mopidy.internal import playlists

        known = vlib.load_findings(chk.prop)

        def unlisted(col):
            for mf in col.monitor_failures:
                if not any(vlib.finding_matches(e, mf["monitor"], mf["key"]) for e in known):
                    return mf
            return None

        col = _Collector(chk.seed)
        if cf["name"] == "parse" and "data" in cf["case"]:
            data = bytes.fromhex(cf["case"]["data"])
            rng = vlib.Rng(chk.seed, "C20-search")
            cands = [data] + [c20_parse.mutate(rng, "?", data)[1] for _ in range(300)]
            for d in cands:
                c20_parse.monitor(col, {"kind": "search", "data": d}, c20_parse.observe(playlists.parse, d))
                mf = unlisted(col)
                if mf:
                    return mf
        for seed in range(chk.seed + 1, chk.seed + 4):
            for mod in (c20_parse, c20_unwrap, c20_tags, c20_download, c20_stream):
                if cf["name"] not in mod.__name__:
                    continue
                col = _Collector(seed)
                col.rng = vlib.Rng(seed, "search")
                try:
                    _monitors_only(mod, col)
                except Exception:  # noqa: BLE001
                    continue
                mf = unlisted(col)
                if mf:
                    return mf
        return None

    return hook


def _monitors_only(mod, col):
    """Run a stage's generator + implementation + monitors without the Coq evaluation."""
    orig = vlib.coq_eval_many
    vlib.coq_eval_many = lambda *a, **k: []
    try:
        mod.run(col)
    finally:
        vlib.coq_eval_many = orig


def run(chk):
    logging.getLogger("mopidy").addHandler(logging.NullHandler())
    logging.getLogger("mopidy").propagate = False
    chk.rule = (
        "parse: byte strings (well-formed documents in 5 formats, their mutations, hot-token and random bytes); non-trivial = "
        "non-empty result, or an exception / oracle edge outcome (distinct by branch, result, oracle outcome); "
        "unwrap: random playlist graphs x clock scripts; non-trivial = at least one download happened, distinct by outcome and fetch log; "
        "download: chunk timing scripts x timeouts (finite and endless bodies); non-trivial = at least two chunks pulled; "
        "tags: typed tag sets through convert_taglist + ill-typed dicts; non-trivial = raises, has an id the UUID parser rejects, "
        "a date-time tag or >= 4 relevant keys, distinct by tag set"
    )
    chk.trusted_base = [
        "Coq 8.16.1 kernel + vm_compute (no native_compute)",
        "harness/c20*.py: generators, Gallina emitter, scripted scanner/session/clock, fake Gst.TagList, harness/fakegi",
        "oracle adapters in c20_parse.py (ElementTree -> xml term, RawConfigParser -> ini term, int(), urlparse ValueError table), "
        "c20_unwrap.py (urljoin table, playlists.parse of scripted bodies), c20_tags.py (pydantic UUID table)",
        "transcriptions of bytes.splitlines/strip/startswith, strict UTF-8 decoding, str.strip/lower, urlsplit scheme recognition, "
        "the date pattern (correspondence-checked)",
    ]
    chk.assumptions = [
        "configparser, expat/ElementTree, int(), urllib netloc validation, urljoin, requests, the scanner, time.time and pydantic's "
        "UUID parser are oracles: theorems quantify over their enumerated outcome sets, the harness supplies their actual outcomes",
        "ET.iterparse raises only ParseError, LookupError or ValueError (incl. UnicodeError); requests raises only RequestException; "
        "scanner.scan raises only ScannerError",
        "tag values have the types convert_taglist produces for GStreamer-typed input (str for text/id/date tags, int for numeric tags, "
        "non-empty lists); str values in numeric tags (pydantic lax coercion) are not modelled",
        "pydantic validates fields independently (no cross-field validators on Artist/Album/Track)",
    ]
    chk.proof_stage(PROP_FILES, thorough_coqchk=(chk.tier == "thorough"))
    chk.search_hook = directed_search(chk)
    c20_parse.run(chk)
    c20_unwrap.run(chk)
    c20_tags.run(chk)
    c20_transcr.run(chk)
    c20_download.run(chk)
    c20_stream.run(chk)
    c20_proxy.run(chk)
