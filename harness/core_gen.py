"""Generator of core-world cases (static tables + operation sequences).

Profiles bias the op mix: 'tracklist' (C01), 'schedule' (C02), 'settled' (C02/C03 agreement),
'faults' (C04/C05), 'restore' (C10).  Every random choice derives from the rng passed in.
"""

from __future__ import annotations

NTRACKS = 6


def gen_tables(rng, profile):
    if profile == "faults" and rng.random() < 0.4:
        # a mostly dead tracklist: one failure kind everywhere, at most two playable tracks
        dead = rng.choice(["refuse", "nouri", "raises", "nobackend"])
        kinds = [dead] * NTRACKS
        for _ in range(rng.choice([0, 1, 1, 2])):
            kinds[rng.randrange(NTRACKS)] = "playable"
    elif profile == "faults":
        kinds = [rng.weighted([("playable", 4), ("refuse", 2), ("nouri", 1), ("raises", 1), ("nobackend", 1)])
                 for _ in range(NTRACKS)]
    elif profile == "settledf" and rng.random() < 0.3:
        # mostly dead: one or two playable tracks among unplayable ones
        dead = rng.choice(["refuse", "nouri", "raises", "nobackend"])
        kinds = [dead] * NTRACKS
        for _ in range(rng.choice([1, 1, 2])):
            kinds[rng.randrange(NTRACKS)] = "playable"
    elif profile == "settledf":
        # settled schedules over a tracklist with some unplayable entries (C03: skipping)
        kinds = [rng.weighted([("playable", 6), ("refuse", 1.5), ("nouri", 0.5), ("raises", 0.5), ("nobackend", 0.5)])
                 for _ in range(NTRACKS)]
    elif profile in ("settled", "restore", "randompass"):
        kinds = ["playable"] * NTRACKS
        if profile == "restore" and rng.random() < 0.2:
            kinds[rng.randrange(NTRACKS)] = "refuse"
    else:
        kinds = [rng.weighted([("playable", 8), ("refuse", 1), ("nouri", 0.5), ("raises", 0.5), ("nobackend", 0.5)])
                 for _ in range(NTRACKS)]
    lens = [rng.weighted([(None, 1), (1000, 3), (5000, 2), (1, 0.5)]) for _ in range(NTRACKS)]
    if profile in ("settled", "settledf"):
        lens = [x if x is not None or rng.random() < 0.3 else 3000 for x in lens]
    if profile == "restore":
        lens = [None if rng.random() < 0.25 else (x or 3000) for x in lens]
    if profile in ("settled", "settledf"):
        lens = [1000 if x == 1 else x for x in lens]
    if profile == "faults":
        # runs of refusals and acceptances, so that a track can be refused several times in a row
        script = []
        for _ in range(rng.randint(0, 5)):
            script += [rng.random() < 0.5] * rng.randint(1, 4)
        if rng.random() < 0.1:
            script += [True] * 900   # a backend that refuses everything from some point on
    elif profile in ("settled", "settledf", "randompass"):
        script = []
    else:
        script = [rng.random() < 0.15 for _ in range(rng.randint(0, 6))]
    max_len = rng.choice([1, 2, 3, 5]) if (profile == "tracklist" and rng.random() < 0.5) else 10000
    if profile == "restore" and rng.random() < 0.15:
        max_len = rng.choice([2, 3, 5])   # sessions whose add() calls ran into the maximum length
    return kinds, lens, script, max_len


class Sim:
    """Cheap running guess of the tracklist so that most arguments are valid."""

    def __init__(self):
        self.n = 0
        self.next_tlid = 1
        self.tlids = []

    def some_tlid(self, rng, valid=0.8):
        if self.tlids and rng.random() < valid:
            return rng.choice(self.tlids)
        return rng.choice([0, -1, 1, self.next_tlid, self.next_tlid + 3, 99])


def gen_pos(rng, n, valid=0.7):
    if rng.random() < valid:
        return rng.randint(0, max(n, 0))
    return rng.choice([-1, -2, n + 1, n + 5, -n, 0])


def gen_op(rng, sim, weights):
    k = rng.weighted(weights)
    n = sim.n
    if k == "add":
        cnt = rng.weighted([(1, 4), (2, 3), (3, 2), (0, 0.5), (5, 0.5)])
        ts = [rng.randrange(NTRACKS) for _ in range(cnt)]
        if rng.random() < 0.06:
            ts.insert(rng.randint(0, len(ts)), -1)    # something that is not a Track, anywhere in the list
        pos = None if rng.random() < 0.5 else gen_pos(rng, n)
        ok = (pos is None or pos >= 0) and -1 not in ts
        if ok:
            sim.tlids += list(range(sim.next_tlid, sim.next_tlid + cnt))
            sim.next_tlid += cnt
            sim.n += cnt
        return ["add", ts, pos]
    if k == "buffering":
        return ["buffering", rng.randrange(4)]
    if k == "clear":
        sim.n, sim.tlids = 0, []
        return ["clear"]
    if k == "move":
        if n >= 1 and rng.random() < 0.75:
            s = rng.randint(0, n - 1)
            e = rng.randint(s, n)
            p = rng.randint(0, n)
        else:
            s, e, p = gen_pos(rng, n, 0.3), gen_pos(rng, n, 0.3), gen_pos(rng, n, 0.3)
        return ["move", s, e, p]
    if k in ("remove", "filter"):
        shape = rng.weighted([("tlid", 5), ("uri", 2), ("both", 1), ("empty", 0.7), ("tlid_empty", 0.7)])
        tlids = uris = None
        if shape in ("tlid", "both"):
            tlids = [sim.some_tlid(rng) for _ in range(rng.randint(1, 3))]
        if shape in ("uri", "both"):
            uris = [rng.randrange(NTRACKS) for _ in range(rng.randint(1, 2))]
        if shape == "tlid_empty":
            tlids = []
        if k == "remove" and tlids is not None and uris is None:
            sim.tlids = [t for t in sim.tlids if t not in tlids]
            sim.n = len(sim.tlids)
        elif k == "remove":
            sim.n = max(0, sim.n - 1)
        if uris is not None and rng.random() < 0.4:
            return [k, tlids, uris, rng.choice(["name", "genre", "comment"])]   # the tracks named by another field
        return [k, tlids, uris]
    if k == "shuffle":
        shape = rng.weighted([("all", 2), ("range", 4), ("edge", 2)])
        if shape == "all":
            return ["shuffle", None, None]
        if shape == "range" and n >= 2:
            s = rng.randint(0, n - 2)
            e = rng.randint(s + 1, n)
            return ["shuffle", s, e]
        return ["shuffle", rng.choice([None, 0, 1, -1, n]), rng.choice([None, 0, 1, n, n + 1, -1])]
    if k == "slice":
        return ["slice", gen_pos(rng, n, 0.6), gen_pos(rng, n, 0.6)]
    if k == "index":
        if rng.random() < 0.35:
            # by object: an entry, an impostor with an entry's tlid and URI, or something else
            return ["indexof", max(1, sim.some_tlid(rng, 0.9)), rng.randrange(NTRACKS), rng.random() < 0.4]   # a TlTrack object has tlid >= 1
        return ["index", None if rng.random() < 0.3 else sim.some_tlid(rng)]
    if k == "setmode":
        return ["setmode", rng.randrange(4), rng.random() < 0.6]
    if k == "play":
        return ["play", None if rng.random() < 0.4 else sim.some_tlid(rng, 0.85)]
    if k == "seek":
        return ["seek", rng.choice([0, 1, 500, 999, 1000, 1001, 2500, 4999, 6000, -5])]
    if k == "setvolume":
        return ["setvolume", rng.choice([0, 1, 37, 50, 99, 100, 101, -1])]
    if k == "setmute":
        return ["setmute", rng.random() < 0.5]
    if k == "tick":
        return ["tick", rng.choice([1, 10, 250, 999])]
    if k == "load":
        cov = [True] * 5 if rng.random() < 0.5 else [rng.random() < 0.6 for _ in range(5)]
        sim.n, sim.tlids = 0, []  # unknown after load; arguments fall back to guesses
        return ["load", cov]
    return [k]


WEIGHTS = {
    "tracklist": [("add", 10), ("clear", 1), ("move", 5), ("remove", 5), ("shuffle", 4), ("filter", 3),
                  ("slice", 2), ("index", 2), ("setmode", 3), ("getnext", 1), ("geteot", 1), ("getprev", 1),
                  ("play", 3), ("pause", 1), ("resume", 0.5), ("stop", 1), ("next", 2), ("previous", 1),
                  ("seek", 1), ("deliver", 5), ("atf", 1), ("tick", 0.5), ("save", 0.5), ("load", 0.5)],
    "schedule": [("add", 4), ("clear", 0.5), ("move", 1), ("remove", 2), ("shuffle", 0.5), ("setmode", 2),
                 ("play", 6), ("pause", 3), ("resume", 3), ("stop", 3), ("next", 5), ("previous", 4),
                 ("seek", 4), ("deliver", 14), ("atf", 4), ("eos", 1), ("tick", 2), ("buffering", 1.5), ("getnext", 0.5), ("geteot", 0.5),
                 ("getprev", 0.5), ("index", 0.5), ("save", 0.3), ("load", 0.3)],
    "faults": [("add", 4), ("clear", 0.3), ("remove", 1.5), ("setmode", 3), ("play", 7), ("pause", 1),
               ("resume", 1), ("stop", 2), ("next", 6), ("previous", 6), ("seek", 2), ("deliver", 10),
               ("atf", 5), ("eos", 1), ("tick", 1), ("move", 0.5), ("shuffle", 0.5)],
    "restore": [("add", 6), ("remove", 1), ("move", 1), ("setmode", 3), ("play", 5), ("pause", 2),
                ("resume", 1), ("stop", 1), ("next", 3), ("previous", 1), ("seek", 3), ("deliver", 10),
                ("tick", 3), ("setvolume", 2), ("setmute", 1), ("atf", 1)],
}


def generate_and_run(rng, profile, max_client_ops=None):
    """Generate a case op by op while running it on the implementation, so that arguments
    can refer to the tlids and positions that really exist.  Returns (case, obs, trace)."""
    import core_run

    kinds, lens, script, max_len = gen_tables(rng, profile)
    styles = [rng.choice([0, 0, 0, 1, 2]) for _ in range(NTRACKS)]   # URI spellings (scheme case, no scheme)
    case = {"kinds": kinds, "lens": lens, "script": list(script), "max_len": max_len, "styles": styles,
            "volume": rng.choice([None, 0, 40, 100]) if profile == "restore" else None,
            "mute": rng.choice([None, True, False]) if profile == "restore" else None,
            "ops": [], "profile": profile}
    if profile == "restore" and rng.random() < 0.3:
        case["via_setup"] = rng.choice([0, 25, 80])   # audio/mixer_volume configured; restart through Core._setup
    runner = core_run.Runner(case)
    sim = Sim()
    obs = []
    stopped = [False]

    def do(op):
        if stopped[0]:
            return
        case["ops"].append(op)
        o, div = runner.step(op)
        obs.append(o)
        if div:
            stopped[0] = True
        tl = runner.core.tracklist.get_tl_tracks()
        sim.tlids = [t.tlid for t in tl]
        sim.n = len(tl)
        sim.next_tlid = runner.core.tracklist._next_tlid

    def settle():
        for _ in range(12):
            if not runner.env.audio.queue:
                break
            do(["deliver"])

    try:
        if max_client_ops is None:
            max_client_ops = {"settled": 14, "settledf": 14, "restore": 16}.get(profile, 30)
        nops = rng.randint(3, max_client_ops)
        is_settled = profile in ("settled", "settledf")
        base = "schedule" if (is_settled or profile == "randompass") else profile
        if profile == "randompass":
            nops = rng.randint(0, 3)
        weights = WEIGHTS[base]
        if is_settled:
            weights = [(k, w) for k, w in weights if k not in ("deliver", "load", "save")]
        if rng.random() < 0.85:
            hi = 7 if profile != "tracklist" else 5
            # short tracklists (one or two entries) are where wrap-around and self-succession live
            cnt = rng.choice([1, 1, 2]) if rng.random() < 0.3 else rng.randint(1, hi)
            do(["add", [rng.randrange(NTRACKS) for _ in range(cnt)], None])
        if rng.random() < 0.3:
            mask = rng.randrange(16)       # every mode combination equally likely
            for which in range(4):
                if mask >> which & 1:
                    do(["setmode", which, True])
        else:
            for which in range(4):
                if rng.random() < 0.3:
                    do(["setmode", which, True])
        if profile == "schedule" and rng.random() < 0.12:
            # a session that starts with a restored play history
            do(["sethistory", [rng.randrange(NTRACKS) for _ in range(rng.choice([1, 2, 3, 4, 7]))]])
        if profile in ("schedule", "restore") and rng.random() < 0.12 and sim.n:
            # the stream ran past the length recorded for the last entry, then the session is
            # saved and restored in a new process
            do(["play", sim.tlids[-1]])
            settle()
            if rng.random() < 0.3:
                do(["pause"])
                settle()
            do(["tick", rng.choice([250, 999])])
            do(["tick", rng.choice([999, 999, 10])])
            do(["tick", 999]); do(["tick", 999]); do(["tick", 999]); do(["tick", 999])
            do(["save"])
            do(["load", [True] * 5 if rng.random() < 0.7 else [rng.random() < 0.7 for _ in range(5)]])
            for _ in range(rng.randint(0, 8)):
                do(["deliver"])
        if profile == "faults" and rng.random() < 0.3:
            if rng.random() < 0.5:
                do(["setmode", 0, True])   # consume: refused entries leave the list while the loops run
            # the backend dies under a running player: a track that was accepted is refused from
            # now on, in whatever state the player is (static script: accept what was accepted
            # so far, refuse everything afterwards)
            good = [k for k in range(NTRACKS) if kinds[k] == "playable"]
            whole_pass = len(good) >= 1 and rng.random() < 0.35
            if whole_pass:
                # ... after a whole random pass under repeat: the shuffle order is used up when the
                # backend goes away (the retry budget must not be taken from what is left of it)
                used0 = len(runner.env.attempts)
                case["script"] = case["script"][:used0] + [False] * max(0, used0 - len(case["script"]))
                runner.env.script = []
                do(["clear"])
                do(["setmode", 0, False])
                do(["add", [rng.choice(good) for _ in range(rng.randint(2, 4))], None])
                do(["setmode", 2, True])
                do(["setmode", 1, True])
                do(["play", None])
                settle()
                for _ in range(sim.n - 1):
                    do(["next"])
                    settle()
            else:
                do(["play", None if rng.random() < 0.5 else sim.some_tlid(rng, 0.9)])
                settle()
                for _ in range(rng.randint(0, 2)):
                    do(gen_op(rng, sim, weights))
                    if rng.random() < 0.7:
                        settle()
            used = len(runner.env.attempts)
            orig = case["script"]
            case["script"] = (orig[:used] + [False] * max(0, used - len(orig))) + [True] * 900
            runner.env.script = [True] * 900
            if rng.random() < 0.25:
                # ... and the session is saved and restored into a process whose backend refuses
                do(["save"])
                do(["load", [True] * 5 if rng.random() < 0.7 else [rng.random() < 0.7 for _ in range(5)]])
                settle()
            for _ in range(rng.randint(2, 5)):
                if rng.random() < 0.8:
                    do(rng.choice([["previous"], ["next"], ["atf"], ["play", None], ["seek", 6000],
                                   ["seek", 0], ["previous"], ["next"], ["play", sim.some_tlid(rng, 0.9)],
                                   ["play", sim.some_tlid(rng, 0.9)]]))
                else:
                    do(gen_op(rng, sim, weights))
                if rng.random() < 0.5:
                    settle()
        if (profile == "randompass" or (profile == "schedule" and rng.random() < 0.15)) and kinds.count("playable") >= 1:
            # one whole random pass over playable entries, started at an arbitrary entry, with
            # preloads that are abandoned before the stream switches (next / seek / stop+play /
            # play(tlid) issued while the announcement is still pending): every entry is visited
            # exactly once before the pass ends
            good = [k for k in range(NTRACKS) if kinds[k] == "playable"]
            used = len(runner.env.attempts)
            orig = case["script"]
            case["script"] = orig[:used] + [False] * max(0, used - len(orig))
            runner.env.script = []
            do(["clear"])
            settle()
            for which in (0, 2, 3):
                if runner.trace[-1]["modes"][which]:
                    do(["setmode", which, False])
            long_repeat = rng.random() < 0.4
            if long_repeat:
                do(["setmode", 2, True])
            # under repeat: a short list walked through several passes, so that the new order
            # drawn at the end of a pass sometimes begins with the entry that just played
            do(["add", [rng.choice(good) for _ in range(rng.randint(3, 4) if long_repeat else rng.randint(2, 5))], None])
            do(["setmode", 1, True])
            do(["play", sim.some_tlid(rng, 1.0) if rng.random() < 0.8 else None])
            settle()
            toggled = False
            for _ in range((5 if long_repeat else 2) * sim.n + 3):
                r = rng.random() * (0.65 if long_repeat else 1.0)
                if not toggled and not long_repeat and rng.random() < 0.12:
                    # random switched off and on again in the middle of a pass: a complete new order
                    toggled = True
                    do(["setmode", 1, False])
                    if rng.random() < 0.5:
                        do(["next"])
                        settle()
                    do(["setmode", 1, True])
                if r < 0.35:
                    do(["next"])
                elif r < 0.65:
                    do(["atf"])
                elif r < 0.80:
                    do(["atf"])
                    do(rng.choice([["next"], ["next"], ["seek", 0], ["previous"]]))
                elif r < 0.88:
                    do(["atf"])
                    do(["stop"])
                    do(["play", None])
                elif r < 0.94:
                    do(["play", sim.some_tlid(rng, 1.0)])
                else:
                    do(["stop"])
                    do(["play", None])
                settle()
                if rng.random() < 0.3:
                    do(["eos"])
                    settle()
                if runner.trace[-1]["state"] == "stopped" and runner.trace[-1]["current"] is None:
                    break
        if profile == "settled" and rng.random() < 0.15 and sim.n >= 2:
            # a change requested while paused, the player resumed, then a gapless change at the end
            # of the track: the state reported afterwards has to follow the audio layer again
            do(["play", sim.some_tlid(rng, 1.0)])
            settle()
            do(["pause"])
            settle()
            do(rng.choice([["next"], ["next"], ["previous"], ["play", sim.some_tlid(rng, 1.0)]]))
            settle()
            if rng.random() < 0.8:
                do(["resume"])
                settle()
            for _ in range(rng.choice([1, 1, 2])):
                do(["geteot"])
                do(["atf"])
                settle()
        if profile == "tracklist" and rng.random() < 0.25 and sim.n >= 2:
            # positions asked, then edits that leave the length as it was (one out, one in; a move;
            # a shuffle), then positions asked again: every answer is about the list as it is now
            for _ in range(rng.randint(1, 2)):
                do(["index", rng.choice(sim.tlids)])
            for _ in range(rng.randint(1, 2)):
                if sim.tlids:
                    do(["remove", [rng.choice(sim.tlids)], None])
                do(["add", [rng.randrange(NTRACKS)], rng.choice([None, 0, max(0, sim.n // 2)])])
            for x in rng.sample(range(1, sim.next_tlid + 1), min(4, sim.next_tlid)):
                do(["index", x])
        if profile == "faults" and kinds.count("playable") == 0 and rng.random() < 0.7 and sim.n:
            # nothing is playable: the same request issued twice (and three times) in a row - every
            # one of them has to end, whatever the first one left behind
            used_up = rng.random() < 0.3
            for which in (2, 1):
                if (used_up or rng.random() < (0.8 if which == 2 else 0.4)) and not runner.trace[-1]["modes"][which]:
                    do(["setmode", which, True])
            if used_up:
                # random + repeat: play() walks through two whole orders and leaves the order used
                # up; requests that name an entry have to end from there too
                do(["play", None])
                for _ in range(2):
                    do(["play", sim.some_tlid(rng, 1.0)])
                do(["previous"])
            for _ in range(rng.randint(2, 4)):
                op = rng.choice([["next"], ["next"], ["previous"], ["play", None], ["play", sim.some_tlid(rng, 0.9)],
                                 ["atf"], ["seek", 6000], ["seek", 0]])
                for _ in range(rng.choice([2, 2, 3])):
                    do(list(op))
                if rng.random() < 0.3:
                    settle()
        if profile == "settledf" and kinds.count("playable") <= 2 and rng.random() < 0.6:
            # a lonely playable entry among dead ones, random + repeat: every pass has to come back
            # to it, however the order falls (the retry budget must cover the rest of this pass and
            # the next pass up to the playable entry)
            good = [k for k in range(NTRACKS) if kinds[k] == "playable"]
            dead_ones = [k for k in range(NTRACKS) if kinds[k] != "playable"]
            if good and dead_ones:
                do(["clear"])
                ks = [rng.choice(dead_ones) for _ in range(rng.randint(1, 4))]
                ks.insert(rng.randint(0, len(ks)), good[0])
                do(["add", ks, None])
                for which in (1, 2):
                    if not runner.trace[-1]["modes"][which]:
                        do(["setmode", which, True])
                tl_now = runner.core.tracklist.get_tl_tracks()
                target = next((e.tlid for e in tl_now if runner.env.index_of_uri(e.track.uri) == good[0]), None)
                if target is not None:
                    do(["play", target])
                    settle()
                    for _ in range(rng.randint(2, 4)):
                        do(["geteot"])
                        do([rng.choice(["atf", "atf", "next"])])
                        settle()
        if profile == "settledf" and rng.random() < 0.35:
            # walk through a whole pass with next(): the end of a (random) pass over a list with
            # unplayable entries
            if rng.random() < 0.7 and not runner.core.tracklist.get_random():
                do(["setmode", 1, True])
            if rng.random() < 0.5 and not runner.core.tracklist.get_repeat():
                do(["setmode", 2, True])
            do(["play", None])
            settle()
            by_end_of_track = rng.random() < 0.5
            for _ in range(sim.n + 1 + (sim.n if by_end_of_track else 0)):
                if by_end_of_track:
                    do(["geteot"])
                    do(["atf"])
                else:
                    do(["getnext"])
                    do(["next"])
                settle()
        for _ in range(nops):
            op = gen_op(rng, sim, weights)
            if op[0] == "add" and op[1] and rng.random() < 0.3 \
                    and all(k >= 0 and kinds[k] != "nobackend" for k in op[1]):
                if rng.random() < 0.4 and len(op[1]) >= 2:
                    op[1][-1] = op[1][0]          # the same URI requested twice
                if rng.random() < 0.4:
                    # a URI the library resolves to several tracks, or to none
                    ok_tracks = [k for k in range(NTRACKS) if kinds[k] != "nobackend"]
                    j = rng.randrange(len(op[1]))
                    op[1][j] = [rng.choice(ok_tracks) for _ in range(rng.choice([0, 0, 2, 3]))] if ok_tracks else []
                op = op + ["uris"]
            if op[0] == "indexof" and rng.random() < 0.75:
                ents = runner.core.tracklist.get_tl_tracks()
                if ents:
                    e = rng.choice(ents)
                    op = ["indexof", e.tlid, runner.env.index_of_uri(e.track.uri), op[3]]
            if is_settled:
                if op[0] == "seek" and rng.random() < 0.85:
                    op = ["seek", rng.choice([0, 1, 500, 999, 1000])]
                if op[0] in ("remove", "clear") and rng.random() < 0.6:
                    cur = runner.core.playback.get_current_tlid()
                    others = [t for t in sim.tlids if t != cur]
                    op = ["remove", [rng.choice(others)], None] if others else ["getnext"]
                pred = {"next": "getnext", "previous": "getprev", "atf": "geteot"}.get(op[0])
                if pred and rng.random() < 0.8:
                    do([pred])
                if op[0] == "atf" and rng.random() < 0.3 and str(runner.core.playback.get_state()) == "playing":
                    # the announcement is served after a pause that was queued first
                    do(["pause"])
                    settle()
                    do(["geteot"])
                    do(["atf"])
                    settle()
                    do(["resume"])
                    settle()
                    do(["eos"])
                    settle()
                    continue
            do(op)
            if is_settled:
                settle()
        if profile == "restore":
            if rng.random() < 0.3:
                # a session that already has a long play history (around the 500-entry cap)
                n = rng.choice([3, 499, 500, 501, 620])
                do(["sethistory", [rng.randrange(NTRACKS) for _ in range(n)]])
            if rng.random() < 0.6:
                settle()
            a = runner.env.audio
            if a.uri is not None and rng.random() < 0.3:
                # boundary positions: exactly at the recorded length, one before, one after
                ln = runner.env.lengths[runner.env.index_of_uri(a.uri)]
                if ln is not None and ln - a.pos > 0 and a.state == "playing":
                    do(["tick", ln - a.pos + rng.choice([0, 0, -1, 1])])
            if a.uri is not None and rng.random() < 0.25:
                # the position moves while the player is paused (seek), then the session is saved
                ln = runner.env.lengths[runner.env.index_of_uri(a.uri)] or 3000
                settle()
                if a.state == "playing":
                    do(["pause"])
                    settle()
                for _ in range(rng.choice([1, 1, 2])):
                    do(["seek", rng.choice([0, 1, ln // 2, ln - 1, ln])])
                    settle()
            cov = [True] * 5 if rng.random() < 0.6 else [rng.random() < 0.6 for _ in range(5)]
            do(["save"])
            do(["load", cov, True] if rng.random() < 0.15 else ["load", cov])   # third element: the file cannot be deleted
            settle()
            if rng.random() < 0.2:
                # the restored session is saved and restored once more (what came from the first
                # state file has to survive the second restart as well)
                for _ in range(rng.randint(0, 2)):
                    do(gen_op(rng, sim, weights))
                settle()
                do(["save"])
                do(["load", [True] * 5 if rng.random() < 0.7 else cov])
                settle()
            if sim.n >= max_len and sim.tlids:
                do(["remove", [rng.choice(sim.tlids)], None])   # make room: the restored list was full
            do(["add", [rng.randrange(NTRACKS) for _ in range(rng.randint(1, 3))], None])
            for _ in range(rng.randint(0, 4)):
                do(gen_op(rng, sim, weights))
        return case, obs, runner.trace
    finally:
        runner.close()
