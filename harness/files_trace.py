"""strace runner + fail-closed translator for the Files area (C11, C19).

`run_action(spec, inject=None)` executes harness/files_child.py under

    strace -f -xx -s <big> -e trace=<TRACE_SET> [-e inject=<name>:<what>:when=<n>]

and returns the system calls of the forked child between the two marker calls, translated
to the kernel operations of coq/Files/AtomicFile.v (`kop`).  The translator keeps only
*successful* calls that can change a regular file or a directory entry below the watched
directory; anything it does not understand that touches the watched directory (or a
descriptor opened on it) raises TranslateError: it never guesses.

Op tuples (all paths are absolute bytes):
  ("open", fd, path, creat, excl, trunc) ("write", fd, data) ("pwrite", fd, off, data)
  ("seek", fd, off) ("trunc", fd, length) ("fsync", fd) ("rename", a, b) ("unlink", p)
  ("close", fd)
"""
from __future__ import annotations

import json
import os
import re
import shutil
import subprocess
import tempfile
from pathlib import Path

from common import vlib
from common.vlib import g_bool, g_list, g_z


def g_bytes(b):
    """bytes -> Gallina `bytes`; long strings are packed 6 bytes per Z word (AtomicFile.unpack)."""
    if len(b) < 48:
        return g_list([g_z(x) for x in b])
    words = [str(int.from_bytes(b[i:i + 6], "little")) for i in range(0, len(b), 6)]
    return f"(unpack {len(b)} [" + "; ".join(words) + "])"

TRACE_SET = ("openat,open,creat,write,pwrite64,writev,pwritev,pwritev2,lseek,ftruncate,truncate,"
             "rename,renameat,renameat2,unlink,unlinkat,link,linkat,symlink,symlinkat,"
             "fsync,fdatasync,close,dup,dup2,dup3,sendfile,copy_file_range")
CHILD = Path(__file__).resolve().parent / "files_child.py"
MARK = b"/nonexistent-verif/"


class TranslateError(Exception):
    pass


# ------------------------------------------------------------------ parsing

_LINE = re.compile(r"^(\d+)\s+(.*)$")
_CALL = re.compile(r"^([a-z_0-9]+)\((.*)\)\s+=\s+(\?|-?\d+|0x[0-9a-f]+)(.*)$", re.S)


def _split_args(s):
    """Split a strace argument list at top-level commas; strings are "\\x..", quoted."""
    args, cur, depth, in_str, i = [], [], 0, False, 0
    while i < len(s):
        c = s[i]
        if in_str:
            cur.append(c)
            if c == "\\":
                cur.append(s[i + 1])
                i += 1
            elif c == '"':
                in_str = False
        elif c == '"':
            in_str = True
            cur.append(c)
        elif c in "([{":
            depth += 1
            cur.append(c)
        elif c in ")]}":
            depth -= 1
            cur.append(c)
        elif c == "," and depth == 0:
            args.append("".join(cur).strip())
            cur = []
        else:
            cur.append(c)
        i += 1
    if cur or args:
        args.append("".join(cur).strip())
    return args


def _str_arg(a):
    """Decode a -xx string argument ("\\x41\\x42"); None if it is not one or is truncated."""
    m = re.fullmatch(r'"((?:\\x[0-9a-f]{2})*)"', a)
    if not m:
        return None
    return bytes(int(h, 16) for h in re.findall(r"\\x([0-9a-f]{2})", m.group(1)))


def parse_log(text):
    """-> list of dict(pid, name, args, ret, tail, raw) / dict(pid, special=...)"""
    out = []
    for raw in text.splitlines():
        m = _LINE.match(raw)
        if not m:
            raise TranslateError(f"unparseable line: {raw[:120]!r}")
        pid, rest = int(m.group(1)), m.group(2)
        if rest.startswith("+++") or rest.startswith("---"):
            out.append({"pid": pid, "special": rest})
            continue
        if "<unfinished" in rest or "resumed>" in rest:
            out.append({"pid": pid, "special": "split", "raw": rest[:120]})
            continue
        c = _CALL.match(rest)
        if not c:
            raise TranslateError(f"unparseable call: {rest[:120]!r}")
        out.append({"pid": pid, "name": c.group(1), "args": _split_args(c.group(2)),
                    "ret": c.group(3), "tail": c.group(4), "raw": rest[:160]})
    return out


def _is_mark(ev, which):
    if ev.get("name") != "unlink" or not ev["args"]:
        return False
    return _str_arg(ev["args"][0]) == MARK + which


# ------------------------------------------------------------------ translation


def translate(text, watch_dir, snap=None):
    """Translate the marked section of the forked child.

    Returns dict(ops=[...], sites=[...], injected=idx|None, killed=bool, complete=bool)
    where sites[i] = (syscall name, ordinal of that call among the child's calls of the
    same name since its first traced call) for ops[i]; `attempts` lists every call that
    touched the watched directory, successful or not, in order, each with its site and
    the index in ops it has (or would have had).
    """
    watch = os.fsencode(str(watch_dir)).rstrip(b"/")
    events = parse_log(text)
    pids = []
    for ev in events:
        if ev["pid"] not in pids:
            pids.append(ev["pid"])
    child = None
    for ev in events:
        if _is_mark(ev, b"BEGIN"):
            child = ev["pid"]
            break
    if child is None:
        raise TranslateError("BEGIN marker not found")
    counts = {}
    inside = False
    ops, sites, attempts = [], [], []
    wfd, rofd, dirfd = set(), set(), {}
    fdpath, fdoff = {}, {}     # for sendfile/copy_file_range: where the descriptor writes next
    killed = False
    complete = False
    injected = None

    def inwatch(p):
        return p is not None and (p == watch or p.startswith(watch + b"/"))

    def resolve(dirarg, p):
        if p is None:
            raise TranslateError("truncated or non-literal path argument")
        if p.startswith(b"/"):
            return os.path.normpath(p)
        if dirarg == "AT_FDCWD":
            return os.path.normpath(b"/" + p)
        try:
            d = int(dirarg)
        except ValueError:
            raise TranslateError(f"unknown dirfd {dirarg}") from None
        if d in dirfd:
            return os.path.normpath(dirfd[d] + b"/" + p)
        return None  # relative to a directory we do not watch

    for ev in events:
        if ev["pid"] != child:
            continue
        if "special" in ev:
            if ev["special"] == "split" and inside:
                raise TranslateError(f"interleaved call inside the action: {ev.get('raw')}")
            if "killed by" in ev["special"]:
                killed = True
            continue
        name, args, ret, tail = ev["name"], ev["args"], ev["ret"], ev["tail"]
        counts[name] = counts.get(name, 0) + 1
        site = (name, counts[name])
        if _is_mark(ev, b"BEGIN"):
            inside = True
            continue
        if _is_mark(ev, b"END"):
            inside = False
            complete = True
            continue
        if not inside:
            continue
        ok = ret not in ("?",) and not ret.startswith("-")
        was_injected = "(INJECTED)" in tail or ret == "?"
        op = None
        touches = False
        if name in ("openat", "open", "creat"):
            if name == "openat":
                p = resolve(args[0], _str_arg(args[1]))
                flags = args[2]
            elif name == "open":
                p = resolve("AT_FDCWD", _str_arg(args[0]))
                flags = args[1]
            else:
                p = resolve("AT_FDCWD", _str_arg(args[0]))
                flags = "O_WRONLY|O_CREAT|O_TRUNC"
            if inwatch(p):
                touches = True
                fl = set(flags.split("|"))
                known = {"O_RDONLY", "O_WRONLY", "O_RDWR", "O_CREAT", "O_EXCL", "O_TRUNC", "O_NOFOLLOW",
                         "O_CLOEXEC", "O_DIRECTORY", "O_NONBLOCK", "O_LARGEFILE", "O_NOCTTY", "O_NOATIME"}
                if fl - known:
                    raise TranslateError(f"unsupported open flags {sorted(fl - known)} on {p!r}")
                writing = bool(fl & {"O_WRONLY", "O_RDWR"})
                if ok:
                    fd = int(ret)
                    for s in (wfd, rofd):
                        s.discard(fd)
                    dirfd.pop(fd, None)
                    if "O_DIRECTORY" in fl:
                        dirfd[fd] = p
                    elif writing or "O_CREAT" in fl or "O_TRUNC" in fl:
                        wfd.add(fd)
                        fdpath[fd], fdoff[fd] = p, 0
                        op = ("open", fd, p, "O_CREAT" in fl, "O_EXCL" in fl, "O_TRUNC" in fl)
                    else:
                        rofd.add(fd)
                if not (writing or "O_CREAT" in fl or "O_TRUNC" in fl):
                    touches = False  # read-only opens are not fault-injection sites
        elif name in ("write", "pwrite64", "lseek", "ftruncate", "fsync", "fdatasync", "close",
                      "writev", "pwritev", "pwritev2", "dup", "dup2", "dup3", "sendfile", "copy_file_range"):
            try:
                fd = int(args[0])
            except ValueError:
                raise TranslateError(f"non-numeric descriptor in {ev['raw']!r}") from None
            if name in ("sendfile", "copy_file_range"):
                # in-kernel copy (shutil.copyfile): sendfile(out, in, offset, count) /
                # copy_file_range(in, off_in, out, off_out, len, flags).  strace cannot show the
                # bytes; they are recovered from the file as it is found afterwards (the
                # descriptor is written sequentially from its tracked offset; anything else
                # is refused).
                if name == "sendfile":
                    out_fd, in_fd, off_ok = fd, int(args[1]) if re.fullmatch(r"\d+", args[1]) else -1, True
                else:
                    out_fd = int(args[2]) if re.fullmatch(r"\d+", args[2]) else -1
                    in_fd, off_ok = fd, args[3] == "NULL"
                if out_fd in wfd:
                    touches = True
                    if in_fd in wfd or not off_ok or snap is None:
                        raise TranslateError(f"unsupported in-kernel copy on a watched descriptor: {ev['raw']!r}")
                    if ok and int(ret) > 0:
                        rel = fdpath[out_fd][len(watch) + 1:]
                        pos, n = fdoff[out_fd], int(ret)
                        data = (snap.get(rel) or b"")[pos:pos + n]
                        if len(data) != n:
                            raise TranslateError(f"cannot recover the {n} bytes copied by {name} into {rel!r}")
                        fdoff[out_fd] = pos + n
                        op = ("write", out_fd, data)
                    fd = out_fd
                elif in_fd in wfd and out_fd in wfd:
                    raise TranslateError(f"unsupported call on a watched descriptor: {ev['raw']!r}")
            elif fd in wfd:
                touches = True
                if name in ("writev", "pwritev", "pwritev2", "dup", "dup2", "dup3"):
                    raise TranslateError(f"unsupported call on a watched descriptor: {ev['raw']!r}")
                if name == "write":
                    data = _str_arg(args[1])
                    if data is None:
                        raise TranslateError("write data truncated by strace")
                    if ok:
                        op = ("write", fd, data[: int(ret)])
                        fdoff[fd] = fdoff.get(fd, 0) + int(ret)
                elif name == "pwrite64":
                    data = _str_arg(args[1])
                    if data is None:
                        raise TranslateError("pwrite data truncated by strace")
                    if ok:
                        op = ("pwrite", fd, int(args[3]), data[: int(ret)])
                elif name == "lseek":
                    touches = False
                    if ok and not (args[1] == "0" and args[2] == "SEEK_CUR"):
                        op = ("seek", fd, int(ret))
                        fdoff[fd] = int(ret)
                elif name == "ftruncate":
                    if ok:
                        op = ("trunc", fd, int(args[1]))
                elif name in ("fsync", "fdatasync"):
                    if ok:
                        op = ("fsync", fd)
                elif name == "close":
                    if ok:
                        op = ("close", fd)
                        wfd.discard(fd)
            elif name == "close" and ok:
                rofd.discard(fd)
                dirfd.pop(fd, None)
            elif name in ("dup", "dup2", "dup3") and fd in dirfd:
                raise TranslateError(f"dup of a watched directory descriptor: {ev['raw']!r}")
        elif name in ("rename", "renameat", "renameat2"):
            if name == "rename":
                a, b = resolve("AT_FDCWD", _str_arg(args[0])), resolve("AT_FDCWD", _str_arg(args[1]))
            else:
                a, b = resolve(args[0], _str_arg(args[1])), resolve(args[2], _str_arg(args[3]))
                if name == "renameat2" and args[4] not in ("0", "0x0"):
                    if inwatch(a) or inwatch(b):
                        raise TranslateError(f"unsupported renameat2 flags {args[4]}")
            if (inwatch(a) or inwatch(b)) and not (inwatch(a) and inwatch(b)):
                # into / out of the watched directory: a FAILED attempt (EXDEV: another file
                # system) changes nothing; a successful one moves content the trace never saw
                if ok:
                    raise TranslateError(f"rename across the watched directory: {a!r} -> {b!r}")
            elif inwatch(a) and inwatch(b):
                touches = True
                if ok:
                    op = ("rename", a, b)
        elif name in ("unlink", "unlinkat"):
            if name == "unlink":
                p = resolve("AT_FDCWD", _str_arg(args[0]))
            else:
                p = resolve(args[0], _str_arg(args[1]))
                if inwatch(p) and args[2] not in ("0", "0x0"):
                    raise TranslateError(f"unsupported unlinkat flags {args[2]}")
            if inwatch(p):
                touches = True
                if ok:
                    op = ("unlink", p)
        elif name in ("link", "linkat", "symlink", "symlinkat", "truncate"):
            strs = [_str_arg(a) for a in args]
            if any(inwatch(os.path.normpath(s)) for s in strs if s and s.startswith(b"/")) or any(
                    s is not None and not s.startswith(b"/") for s in strs):
                raise TranslateError(f"unsupported call touching the watched directory: {ev['raw']!r}")
        else:
            raise TranslateError(f"unexpected traced call {name}")
        if touches:
            attempts.append({"site": site, "index": len(ops), "ok": ok, "kind": name})
            if was_injected and injected is None:
                injected = len(ops)
        if op is not None:
            ops.append(op)
            sites.append(site)
    return {"ops": ops, "sites": sites, "attempts": attempts, "injected": injected,
            "killed": killed, "complete": complete}


# ------------------------------------------------------------------ running


def snapshot(directory):
    """{name(bytes, relative) : content}; directories as (b'<dir>')."""
    out = {}
    d = os.fsencode(str(directory))
    for name in sorted(os.listdir(d)):
        p = os.path.join(d, name)
        if os.path.islink(p):
            out[name] = b"<symlink>" + os.readlink(p)
        elif os.path.isdir(p):
            out[name] = b"<dir>"
        else:
            with open(p, "rb") as fh:
                out[name] = fh.read()
    return out


def run_action(spec, inject=None, timeout=120):
    """Run the child under strace.  `inject` = (syscall, ordinal, "kill" | errno-name).
    Returns dict(trace=translate(...) or None, error=str|None, status={exit,signal},
    snapshot={...}, log=str)."""
    work = Path(tempfile.mkdtemp(prefix="verif-trace-"))
    try:
        spec_file = work / "spec.json"
        log = work / "strace.log"
        st = ["-o", str(log), "-xx", "-s", "8000000", "-e", f"trace={TRACE_SET}"]
        if inject is not None:
            # one injection (name, ordinal, what) or a list of them (fault COMBINATIONS; strace keeps
            # one injection per system call name, so the names must differ)
            for name, ordinal, what in ([inject] if isinstance(inject[0], str) else list(inject)):
                how = "signal=KILL" if what == "kill" else f"error={what}"
                st += ["-e", f"inject={name}:{how}:when={ordinal}"]
        spec_file.write_text(json.dumps(dict(spec, strace=st)))
        cmd = [vlib.PY, "-B", str(CHILD), str(spec_file)]
        env = vlib.impl_env()
        env["VERIF_EXPECT_SRC"] = str((vlib.REPO / "src").resolve())
        p = subprocess.run(cmd, env=env, capture_output=True, text=True, timeout=timeout, check=False)
        status = None
        for line in p.stdout.splitlines():
            if line.startswith("{"):
                status = json.loads(line)
        text = log.read_text(errors="replace") if log.exists() else ""
        res = {"status": status, "stderr": p.stderr[-2000:], "snapshot": snapshot(spec["dir"]),
               "trace": None, "error": None}
        if status is None or status.get("error"):
            res["error"] = f"child driver failed: rc={p.returncode} {status} {p.stderr[-800:]}"
            return res
        try:
            res["trace"] = translate(text, spec["dir"], res["snapshot"])
        except TranslateError as e:
            res["error"] = f"translate: {e}"
        return res
    finally:
        shutil.rmtree(work, ignore_errors=True)


# ------------------------------------------------------------------ Gallina


def g_kop(op):
    k = op[0]
    if k == "open":
        return f"KOpen {g_z(op[1])} {g_bytes(op[2])} {g_bool(op[3])} {g_bool(op[4])} {g_bool(op[5])}"
    if k == "write":
        return f"KWrite {g_z(op[1])} {g_bytes(op[2])}"
    if k == "pwrite":
        return f"KPwrite {g_z(op[1])} {g_z(op[2])} {g_bytes(op[3])}"
    if k == "seek":
        return f"KSeek {g_z(op[1])} {g_z(op[2])}"
    if k == "trunc":
        return f"KTruncate {g_z(op[1])} {g_z(op[2])}"
    if k == "fsync":
        return f"KFsync {g_z(op[1])}"
    if k == "rename":
        return f"KRename {g_bytes(op[1])} {g_bytes(op[2])}"
    if k == "unlink":
        return f"KUnlink {g_bytes(op[1])}"
    if k == "close":
        return f"KClose {g_z(op[1])}"
    raise ValueError(k)


def g_kops(ops):
    return g_list([g_kop(o) for o in ops])


def op_paths(ops):
    ps = []
    for o in ops:
        if o[0] == "open":
            ps.append(o[2])
        elif o[0] == "rename":
            ps += [o[1], o[2]]
        elif o[0] == "unlink":
            ps.append(o[1])
    return ps


def describe(ops, limit=12):
    """Short canonical description of a trace for evidence/replay (no tmp names, no data)."""
    out = []
    for o in ops[:limit]:
        if o[0] in ("write", "pwrite"):
            out.append(f"{o[0]}[{len(o[-1])}]")
        else:
            out.append(o[0])
    return out + (["..."] if len(ops) > limit else [])
