"""C09 implementation-side monitors: the theorem predicates of coq/Routing/Property_C09.v evaluated
in Python on what the real controllers did (result + provider call log).

Everything here is computed from the *case specification* (which backend registered which scheme,
which answer each backend was scripted to give) and never from the Coq model, so a monitor
failure is a statement about the implementation: "on this input the property does not hold".

  duplicate_scheme_refused   T7
  routing_exact              T2  (set of provider calls = the calls the scheme tables dictate)
  keys_exact                 T1  (lookup / get_images keys = requested URIs)
  unknown_scheme_empty       T3
  faults_contained           T5a (an ordinary backend/mixer fault never makes the core call raise)
  per_uri_answer             T1/T4/T5b (each URI's value is exactly its own backend's contribution,
                                 nothing when that backend's answer is bad)
  bad_answer_discarded       T5b for the single-backend and aggregate requests
  noninterference            T4  (two runs differing only in one backend's answers)
  mixer_isolated             T6
"""

from __future__ import annotations

import copy

import c09_gen as G
from c09_impl import QUERY_METHODS, scheme_of
from common import vlib

FLAG_OF = {"lookup": "lib", "get_images": "lib", "search": "lib", "get_distinct": "lib", "refresh": "lib",
           "browse": "browse", "as_list": "playlists", "get_items": "playlists", "pl_lookup": "playlists",
           "create": "playlists", "save": "playlists", "delete": "playlists", "pl_refresh": "playlists"}
MIXER_OPS = {"get_volume", "set_volume", "get_mute", "set_mute"}
SEARCH_OK = {"good": "good", "good2": "good2", "str": "good", "empty": "empty"}
DISTINCT_Q_OK = {"none", "good", "good2", "empty"}
FIELD_CLS = {"artist": "str", "track_no": "int", "track": "str", "track_name": "str"}
_noninterference_rng = None


def providers(backends, flag):
    return [i for i, b in enumerate(backends) if b.get("info_ok", True) and b[flag] and b["schemes"]]


def input_valid(op):
    n = op["name"]
    ok_uri = lambda u: scheme_of(u) != ""  # noqa: E731
    if n in ("lookup", "get_images"):
        return all(ok_uri(u) for u in op["uris"])
    if n == "search":
        return (op["uris"] is None or all(ok_uri(u) for u in op["uris"])) and op["query"] in SEARCH_OK
    if n == "browse":
        return op["uri"] is None or not op["uri"].strip() or ok_uri(op["uri"])
    if n == "get_distinct":
        return op["field"] in FIELD_CLS and op["query"] in DISTINCT_Q_OK
    if n == "refresh":
        return op["uri"] is None or ok_uri(op["uri"])
    if n in ("get_items", "delete"):
        return ok_uri(op["uri"])
    if n == "set_volume":
        return 0 <= op["volume"] <= 100
    return True


def canon_calls(calls):
    seen, out = set(), []
    for c in calls:
        tok = repr(c)
        if c[1] in QUERY_METHODS:
            if tok in seen:
                continue
            seen.add(tok)
        out.append(c)
    return sorted(out, key=repr)


def grouped(backends, flag, uris):
    out = {}
    for u in uris:
        i = G.owner_index(backends, flag, scheme_of(u))
        if i is not None:
            out.setdefault(i, []).append(u)
    return out


def expected_calls(case):
    """The provider calls the routing rule dictates, or None where the rule leaves freedom (create)."""
    backends, op = case["backends"], case["op"]
    n = op["name"]
    if not input_valid(op):
        return []
    own = lambda flag, u: G.owner_index(backends, flag, scheme_of(u))  # noqa: E731
    if n in ("lookup", "get_images"):
        key = "lookup_many" if n == "lookup" else "get_images"
        return [[i, key, {"uris": us}] for i, us in grouped(backends, "lib", op["uris"]).items()]
    if n == "search":
        q = SEARCH_OK[op["query"]]
        if q == "empty":
            return []
        if op["uris"]:
            return [[i, "search", {"query": q, "uris": us, "exact": op["exact"]}]
                    for i, us in grouped(backends, "lib", op["uris"]).items()]
        return [[i, "search", {"query": q, "uris": None, "exact": op["exact"]}] for i in providers(backends, "lib")]
    if n == "browse":
        if op["uri"] is None:
            return [[i, "root_directory", {}] for i in providers(backends, "browse")]
        if not op["uri"].strip():
            return []
        i = own("browse", op["uri"])
        return [] if i is None else [[i, "browse", {"uri": op["uri"]}]]
    if n == "get_distinct":
        f = "track" if op["field"] == "track_name" else op["field"]
        return [[i, "get_distinct", {"field": f, "query": op["query"]}] for i in providers(backends, "lib")]
    if n == "refresh":
        if op["uri"] is None:
            return [[i, "refresh", {"uri": None}] for i in providers(backends, "lib")]
        i = own("lib", op["uri"])
        return [] if i is None else [[i, "refresh", {"uri": op["uri"]}]]
    if n == "as_list":
        return [[i, "as_list", {}] for i in providers(backends, "playlists")]
    if n in ("get_items", "pl_lookup", "delete"):
        i = own("playlists", op["uri"])
        return [] if i is None else [[i, n, {"uri": op["uri"]}]]
    if n == "save":
        if op["uri"] is None:
            return []
        i = own("playlists", op["uri"])
        return [] if i is None else [[i, "save", {"playlist": [op["uri"], op["pname"]]}]]
    if n == "pl_refresh":
        if op["scheme"] is None:
            return [[i, "pl_refresh", {}] for i in providers(backends, "playlists")]
        i = G.owner_index(backends, "playlists", op["scheme"])
        return [] if i is None else [[i, "pl_refresh", {}]]
    if n == "create":
        i = None if op["scheme"] is None else G.owner_index(backends, "playlists", op["scheme"])
        return None if i is None else [[i, "create", {"name": op["pname"]}]]
    if n in ("construct", "get_uri_schemes", "core_schemes"):
        return []
    if n in MIXER_OPS:
        if case.get("mixer") is None:
            return []
        args = {"get_volume": [], "get_mute": [], "set_volume": [["int", op.get("volume")]],
                "set_mute": [["bool", op.get("mute")]]}[n]
        return [[-1, n, args]]
    raise ValueError(n)


def answer_of(case, b, key):
    if b < 0:
        return (case.get("mixer") or {}).get(key, ["none"])
    return case["backends"][b]["answers"].get(key, ["none"])


def good_list(resp, cls):
    """The entries an acceptable sequence answer contributes, or None if the answer is bad."""
    if resp[0] == "list" and all(e != "junk" and e[0] == cls for e in resp[1]):
        return [list(e) for e in resp[1]]
    if resp[0] == "map" and not resp[1]:
        return []  # an empty dict is an empty collection for validation.check_instances
    return None


def good_map(resp, cls, asked):
    if resp[0] == "echo":  # answers exactly what it was asked, with entries of its own class
        return {u: [[resp[1], i, True] for i in resp[2]] for u in asked} if resp[1] == cls else None
    if resp[0] != "map":
        return None
    out = {}
    for u, mv in resp[1]:
        if u not in asked or mv == "bad" or any(e == "junk" or e[0] != cls for e in mv):
            return None
        out[u] = [list(e) for e in mv]
    return out


def check_case(chk, case, obs, I, salt=0, two_run=True, runner=None):
    backends, op = case["backends"], case["op"]
    name = op["name"]

    def fail(monitor, key, what):
        chk.monitor_failure(monitor, key, what, {"case": case, "observed": {"outcome": obs["outcome"],
                                                                              "log": obs["log"]}})

    # ---- T7 duplicate_scheme_refused
    seen, dup_between, dup_any = {}, False, False
    for i, b in enumerate(backends):
        if not b.get("info_ok", True):
            continue
        for s in b["schemes"]:
            if s in seen:
                dup_any = True
                dup_between = dup_between or seen[s] != i
            seen.setdefault(s, i)
    if obs.get("stage") == "construct":
        if not dup_any or obs["outcome"] != ["raise", "assertion"]:
            fail("duplicate_scheme_refused", {"call": "Backends", "duplicate": dup_any},
                 f"start-up raised {obs['outcome']} (duplicate scheme present: {dup_any})")
        return
    if dup_between:
        fail("duplicate_scheme_refused", {"call": "Backends", "duplicate": True},
             "two backends claim the same scheme and start-up succeeded")
        return
    if dup_any:
        fail("duplicate_scheme_refused", {"call": "Backends", "duplicate": "within-one-backend"},
             "a scheme listed twice was accepted")
        return

    if name == "raw":
        raw_monitor(chk, case, obs, fail)
        return
    valid = input_valid(op)
    outcome = obs["outcome"]
    called = [(b, key, answer_of(case, b, key)) for b, key, _ in obs["log"]]
    base_hit = any(r == ["raise", "base"] for _, _, r in called)

    # ---- T2 routing_exact
    exp = expected_calls(case)
    if exp is not None:
        if canon_calls(exp) != obs["log"]:
            fail("routing_exact", {"call": name}, f"provider calls {obs['log']} but the scheme tables dictate "
                                                  f"{canon_calls(exp)}")
    else:  # create without a matching scheme: any sequence of playlists providers
        allowed = set(providers(backends, "playlists"))
        if any(b not in allowed or key != "create" or a != {"name": op["pname"]} for b, key, a in obs["log"]):
            fail("routing_exact", {"call": name}, f"create reached a non-provider: {obs['log']}")

    # ---- events: only validated answers are ever broadcast
    events_monitor(case, obs, called, fail)

    # ---- T5a / T6 faults_contained: no ordinary fault makes the core call raise
    if outcome[0] == "raise":
        if valid and not base_hit:
            raised_by = sorted({r[1] for _, _, r in called if r[0] == "raise"})
            mon = "mixer_isolated" if name in MIXER_OPS else "faults_contained"
            fail(mon, {"call": name, "raised": outcome[1]},
                 f"core.{name} raised {outcome[1]} (backend faults among the called providers: {raised_by})")
        return
    value = outcome[1]

    # ---- T1 keys_exact, T3 unknown_scheme_empty, per-URI answers (T4/T5b) for the dict-valued requests
    if name in ("lookup", "get_images"):
        if value[0] != "map":
            fail("keys_exact", {"call": name}, f"result is not a dict: {value}")
            return
        got = {k: v for k, v in value[1]}
        if sorted(got) != sorted(set(op["uris"])):
            extra = sorted(set(got) - set(op["uris"]))
            missing = sorted(set(op["uris"]) - set(got))
            fail("keys_exact", {"call": name, "extra": bool(extra), "missing": bool(missing)},
                 f"result keys differ from the requested URIs: extra={extra} missing={missing}")
        cls = "track" if name == "lookup" else "image"
        key = "lookup_many" if name == "lookup" else "get_images"
        groups = grouped(backends, "lib", op["uris"])
        for u in dict.fromkeys(op["uris"]):
            i = G.owner_index(backends, "lib", scheme_of(u))
            if i is None:
                if got.get(u) != []:
                    fail("unknown_scheme_empty", {"call": name}, f"{u!r} has no backend but maps to {got.get(u)}")
                continue
            gm = good_map(answer_of(case, i, key), cls, groups[i])
            if gm is None:
                want = []
                why = "own backend's answer is bad"
            else:
                want = [e for e in gm.get(u, []) if name == "get_images" or e[2]]
                why = "own backend's answer"
            if got.get(u) != want:
                bad = gm is None
                fail("per_uri_answer", {"call": name, "own_answer_bad": bad},
                     f"{u!r} maps to {got.get(u)}, expected {want} ({why}, backend {i})")
    # ---- aggregate requests: union of the good answers of the called providers, nothing else
    elif name in ("search", "as_list", "get_distinct") or (name == "browse" and op["uri"] is None):
        key, cls = {"search": ("search", "search"), "as_list": ("as_list", "ref"),
                    "get_distinct": ("get_distinct", FIELD_CLS.get(op.get("field"), "str")),
                    "browse": ("root_directory", "ref")}[name]
        want, leaks = [], []
        for b in dict.fromkeys(b for b, k, _ in obs["log"] if k == key):
            r = answer_of(case, b, key)
            if key in ("search", "root_directory"):
                contrib = [[cls, r[2], True]] if r[0] == "val" and r[1] == cls else []
            else:
                contrib = good_list(r, cls) or []
                if r[0] == "map" and r[1]:
                    leaks.append(b)
            want += contrib
        if name in ("get_distinct", "browse"):
            want = [list(x) for x in dict.fromkeys(tuple(e) for e in want)]
        got = value[1] if value[0] == "list" else None
        if got is None or sorted(got, key=repr) != sorted(want, key=repr):
            dict_leak = bool(leaks) and got is not None and any(e != "junk" and e[0] == "uristr" for e in got)
            fail("bad_answer_discarded", {"call": name, "dict_keys_leak": dict_leak},
                 f"core.{name} returned {got}, but the acceptable answers of the called providers are {want}")
    # ---- single-backend requests
    elif name in ("browse", "get_items", "pl_lookup", "save", "delete", "create"):
        calls = [(b, k) for b, k, _ in obs["log"]]
        if not calls:
            empty = {"browse": ["list", []], "get_items": ["none"], "pl_lookup": ["none"], "save": ["none"],
                     "delete": ["bool", False], "create": ["none"]}[name]
            if value != empty:
                fail("unknown_scheme_empty", {"call": name}, f"no backend was asked but core.{name} returned {value}")
        else:
            want = ["none"]
            for b, k in calls:  # create may ask several; the first acceptable answer wins
                r = answer_of(case, b, k)
                want = single_expected(name, r)
                if name != "create" or want != ["none"]:
                    break
            if value != want:
                r = answer_of(case, calls[-1][0], calls[-1][1])
                fail("bad_answer_discarded", {"call": name, "answer": answer_class(name, r)},
                     f"core.{name} returned {value} for the backend answer {r}; expected {want}")
    elif name in ("get_uri_schemes", "core_schemes"):
        flag = "playlists" if name == "get_uri_schemes" else None
        want = sorted(s for b in backends if b.get("info_ok", True) and (flag is None or b[flag]) for s in b["schemes"])
        if value != ["strs", want]:
            fail("scheme_listing", {"call": name}, f"core.{name} returned {value}, registered: {want}")
    # ---- T6 mixer_isolated
    elif name in MIXER_OPS:
        if case.get("mixer") is None or not obs["log"]:
            want = ["none"] if name.startswith("get") else ["bool", False]
        else:
            r = answer_of(case, -1, name)
            want = mixer_expected(name, r)
        if value != want:
            fail("mixer_isolated", {"call": name}, f"core.mixer.{name} returned {value}, expected {want}")

    if two_run and name not in MIXER_OPS and len(backends) >= 2:
        noninterference(chk, case, obs, I, salt, runner)


def events_monitor(case, obs, called, fail):
    """Core events (recorded at mopidy.listener.send) against the validated result of the call:
    an event may only carry the value the call returns after validation, and a discarded
    backend answer (wrong type, exception, None) is never broadcast."""
    op, outcome = case["op"], obs["outcome"]
    name = op["name"]
    events = obs.get("events")
    if events is None:
        return
    value = outcome[1] if outcome[0] == "ok" else None
    if name in ("create", "save"):
        want = [["playlist_changed", {"playlist": value}]] if value and value[0] == "val" and value[1] == "playlist" else []
    elif name == "delete":
        if value in (["bool", True], ["bool", False]):
            want = [["playlist_deleted", {"uri": ["str", op["uri"]]}]] if value[1] else []
        elif value is None:
            want = []
        else:
            return  # a non-bool answer handed through: the recorded finding bad_answer_discarded {delete}
    elif name == "pl_refresh":
        if outcome[0] != "ok":
            return
        loaded = any(key == "pl_refresh" and r[0] != "raise" for _, key, r in called)
        want = [["playlists_loaded", {}]] if loaded else []
    else:
        want = []
    if events != want:
        bad_payload = any(isinstance(v, list) and v and v[0] == "wrong" for _, kw in events for v in kw.values())
        fail("events_validated", {"call": name, "unvalidated_payload": bad_payload},
             f"core.{name} emitted {events}, but its validated result {outcome} warrants {want}")


def raw_monitor(chk, case, obs, fail):
    """Requests with raw arguments: a rejected argument means no provider was touched, and the
    core only ever forwards URIs the caller supplied."""
    import c09_validation as V

    op, outcome = case["op"], obs["outcome"]
    called = [answer_of(case, b, key) for b, key, _ in obs["log"]]
    if outcome[0] == "raise" and obs["log"]:
        provoked = any(r[0] == "raise" and r[1] == outcome[1] for r in called)
        if not provoked:
            fail("invalid_args_no_calls", {"call": op["raw"], "raised": outcome[1]},
                 f"core.{op['raw']} raised {outcome[1]} for its arguments after providers had been called: {obs['log']}")
    supplied = set()
    for a in op["args"]:
        supplied |= set(V.spec_strings(a, []))
    for b, key, a in obs["log"]:
        if b < 0 or not isinstance(a, dict):
            continue
        sent = (a.get("uris") or []) + ([a["uri"]] if a.get("uri") else [])
        alien = [u for u in sent if u not in supplied]
        if alien:
            fail("forwarded_uris_are_callers", {"call": op["raw"]}, f"provider {b}.{key} was handed {alien}")


def single_expected(name, r):
    if name in ("browse", "get_items"):
        if name == "get_items" and r[0] == "none":
            return ["none"]
        gl = good_list(r, "ref") if r[0] != "raise" else None
        if gl is None:
            return ["list", []] if name == "browse" else ["none"]
        return ["list", gl]
    if name in ("pl_lookup", "save", "create"):
        return ["val", "playlist", r[2]] if r[0] == "val" and r[1] == "playlist" else ["none"]
    if name == "delete":
        if r[0] == "bool":
            return ["bool", bool(r[1])]
        if r[0] == "none":
            return ["bool", True]  # pre-2.2 backends return None: treated as success
        return ["bool", False]
    raise ValueError(name)


def answer_class(name, r):
    if r[0] in ("raise", "none"):
        return r[0]
    if name == "delete" and r[0] != "bool":
        return "wrong-type"
    return r[0]


def mixer_expected(name, r):
    if name == "get_volume":
        if r[0] == "int" and 0 <= r[1] <= 100:
            return ["int", r[1]]
        if r[0] == "bool":  # isinstance(True, int): Python's own notion of an integer
            return ["bool", bool(r[1])]
        return ["none"]
    if name == "get_mute":
        return ["bool", bool(r[1])] if r[0] == "bool" else ["none"]
    return ["bool", bool(r[1])] if r[0] == "bool" else ["bool", False]


def noninterference(chk, case, obs, I, salt, runner=None):
    """T4: change only backend j's answers; everything not owned by j must stay the same."""
    global _noninterference_rng
    if _noninterference_rng is None:
        _noninterference_rng = vlib.Rng(chk.seed, "C09-noninterference")
    rng = _noninterference_rng
    backends, op = case["backends"], case["op"]
    name = op["name"]
    j = rng.randrange(len(backends))
    other = copy.deepcopy(case)
    uris = op.get("uris") or ([op["uri"]] if op.get("uri") else [])
    flag = FLAG_OF.get(name, "lib")
    own = [u for u in uris if G.owner_index(backends, flag, scheme_of(u)) == j]
    for m in list(other["backends"][j]["answers"]) or ["lookup_many"]:
        if runner is not None and m == "root_directory":
            continue  # real Backend subclasses: the root directory decides has_library_browse()
        r = G.gen_resp(rng, m, j, own, uris)
        if runner is not None and r == ["raise", "base"]:
            r = ["raise", "exception"]  # a BaseException inside a pykka actor stops the actor system
        other["backends"][j]["answers"][m] = r
    obs2 = (runner or I.run_case)(other, salt=salt + 1)
    # the second run is itself a case: the containment monitors apply to it
    check_case(chk, other, obs2, I, salt=salt + 1, two_run=False)
    if obs["outcome"][0] != "ok" or obs2["outcome"][0] != "ok":
        return

    def fail(what):
        chk.monitor_failure("noninterference", {"call": name}, what,
                            {"case": case, "changed_backend": j, "other_answers": other["backends"][j]["answers"],
                             "observed": [obs["outcome"], obs2["outcome"]]})

    v1, v2 = obs["outcome"][1], obs2["outcome"][1]
    if name == "create":
        return  # sequential by design: the first backend that accepts wins (see docs/C09.md)
    log1 = [c for c in obs["log"] if c[0] != j]
    log2 = [c for c in obs2["log"] if c[0] != j]
    if log1 != log2:
        fail(f"calls to the other backends changed: {log1} vs {log2}")
    if v1[0] == "map" and v2[0] == "map":
        d1, d2 = dict((k, v) for k, v in v1[1]), dict((k, v) for k, v in v2[1])
        for u in set(d1) | set(d2):
            if G.owner_index(backends, flag, scheme_of(u)) != j and d1.get(u) != d2.get(u):
                fail(f"{u!r} (not owned by backend {j}) changed from {d1.get(u)} to {d2.get(u)}")
    elif v1[0] == "list" and v2[0] == "list":
        mine = lambda e: e != "junk" and isinstance(e[1], int) and e[1] // 1000 == j + 1  # noqa: E731
        if any(b == j for b, _, _ in obs["log"] + obs2["log"]):
            r1 = sorted((e for e in v1[1] if not mine(e)), key=repr)
            r2 = sorted((e for e in v2[1] if not mine(e)), key=repr)
            if any(e != "junk" and e[0] == "uristr" for e in v1[1] + v2[1]):
                return  # the dict-keys leak (known finding of bad_answer_discarded) carries no provenance tag
        else:
            r1, r2 = v1[1], v2[1]
        if r1 != r2:
            fail(f"contributions of the other backends changed: {r1} vs {r2}")
    elif not any(b == j for b, _, _ in obs["log"] + obs2["log"]) and v1 != v2:
        fail(f"backend {j} was not asked, yet the result changed from {v1} to {v2}")


def _fails_same(case, monitor, key, I):
    probe = vlib.Check("C09", "Routing")
    try:
        obs = I.run_case(copy.deepcopy(case), salt=0)
        check_case(probe, case, obs, I, salt=0, two_run=(monitor == "noninterference"))
    except Exception:  # noqa: BLE001
        return None
    for mf in probe.monitor_failures:
        if mf["monitor"] == monitor and mf["key"] == key:
            return mf
    return None


def shrink_case(case, monitor, key, I):
    """Delta-debug a failing case: fewer request URIs, fewer scripted answers, fewer backends."""
    cur = copy.deepcopy(case)
    if isinstance(cur["op"].get("uris"), list) and len(cur["op"]["uris"]) > 1:
        def fails(us):
            c = copy.deepcopy(cur)
            c["op"]["uris"] = us
            return _fails_same(c, monitor, key, I) is not None
        cur["op"]["uris"] = vlib.shrink_list(cur["op"]["uris"], fails, max_steps=60)
    while len(cur["backends"]) > 1:  # indices must stay stable: only drop from the end
        c = copy.deepcopy(cur)
        c["backends"].pop()
        if _fails_same(c, monitor, key, I) is None:
            break
        cur = c
    for b in cur["backends"]:
        for m in list(b["answers"]):
            c = copy.deepcopy(cur)
            saved = b["answers"].pop(m)
            if _fails_same(cur, monitor, key, I) is None:
                b["answers"][m] = saved
            del c
    if cur.get("mixer") is not None:
        c = copy.deepcopy(cur)
        c["mixer"] = None
        if _fails_same(c, monitor, key, I) is not None:
            cur = c
    return cur


def finish(chk, I=None):
    """Shrink the smallest failing case of every unlisted (monitor, key) group."""
    global _noninterference_rng
    _noninterference_rng = None
    if I is None or not chk.monitor_failures:
        return
    findings = vlib.load_findings(chk.prop)
    groups = {}
    for mf in chk.monitor_failures:
        if any(vlib.finding_matches(e, mf["monitor"], mf["key"]) for e in findings):
            continue
        case = mf["case"].get("case") if isinstance(mf["case"], dict) else None
        if not case or "backends" not in case:
            continue
        k = (mf["monitor"], repr(sorted(mf["key"].items())))
        size = len(repr(case))
        if k not in groups or size < groups[k][0]:
            groups[k] = (size, mf, case)
    for _size, mf, case in list(groups.values())[:6]:
        small = shrink_case(case, mf["monitor"], mf["key"], I)
        again = _fails_same(small, mf["monitor"], mf["key"], I)
        if again is not None and len(repr(small)) < len(repr(case)):
            again = dict(again)
            again["what"] = again["what"] + " [shrunk]"
            chk.monitor_failures.append(again)
