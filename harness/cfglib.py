"""Shared pieces of the Config-area harnesses (C12, C13 types, C14).

* a Python AST for config types mirroring Config/Types.v `ty`, convertible to a real
  mopidy ConfigValue (to_impl), from a real one (from_impl) and to a Gallina term (g_ty)
* recording of the oracles (int, float, expand_path, pathlib str, resolver, transformers)
  while the implementation runs, emitted as the tables of Config/Tables.v
* type-directed conversion of implementation values to Gallina `val`
* raw-value generators per type
"""

from __future__ import annotations

import builtins
import contextlib
import fractions
import math
import re
import socket as real_socket

from common import vlib
from common.vlib import g_bool, g_list, g_opt


def g_z(n):
    """Z literal; big numbers in hexadecimal (Coq parses long decimal literals in super-linear time)."""
    n = int(n)
    body = hex(abs(n)) if abs(n) >= 10**15 else str(abs(n))
    return f"(-{body})" if n < 0 else body

# ----------------------------------------------------------------------------- ty AST
# ("String", opt, choices|None, tr|None)   tr = "lower" | ("oracle", id, pyfunc)
# ("Secret", opt, tr) ("Integer", opt, mn, mx, choices) ("Float", opt, mn, mx)
# ("Boolean", opt) ("Pair", opt, optpair, sep, ta, tb) ("List", opt, unique, sub)
# ("LogColor",) ("LogLevel",) ("Hostname", opt) ("Path", opt) ("Deprecated",)


class Interner:
    """Strings become `Definition sN : str := [...]` once per generated file."""

    def __init__(self):
        self.ids = {}
        self.defs = []

    def s(self, text):
        if len(text) <= 1:
            return vlib.g_str(text)
        i = self.ids.get(text)
        if i is None:
            i = len(self.ids)
            self.ids[text] = i
            self.defs.append(f"Definition s{i} : str := {vlib.g_str(text)}.")
        return f"s{i}"

    def header(self):
        return "\n".join(self.defs) + "\n"


def _tr_is_lower(fn):
    try:
        return all(fn(x) == x.lower() for x in ("AbC", "x.Y", "É", "zz9"))
    except Exception:  # noqa: BLE001
        return False


_TR_IDS = {}


def from_impl(obj):
    """Introspect a real ConfigValue into the AST (raises on unknown classes)."""
    from mopidy.config import types as T

    opt = not getattr(obj, "_required", True)
    cls = type(obj)

    def tr_of(o):
        fn = getattr(o, "_transformer", None)
        if not fn:
            return None
        if _tr_is_lower(fn):
            return "lower"
        tid = _TR_IDS.setdefault(id(fn), len(_TR_IDS) + 1)
        return ("oracle", tid, fn)

    if cls is T.Deprecated:
        return ("Deprecated",)
    if cls is T.Secret:
        return ("Secret", opt, tr_of(obj))
    if cls is T.String:
        ch = obj._choices
        return ("String", opt, None if ch is None else tuple(ch), tr_of(obj))
    if cls in (T.Integer, T.Port):
        ch = obj._choices
        return ("Integer", opt, obj._minimum, obj._maximum, None if ch is None else tuple(ch))
    if cls is T.Float:
        return ("Float", opt, obj._minimum, obj._maximum)
    if cls is T.Boolean:
        return ("Boolean", opt)
    if cls is T.Pair:
        return ("Pair", opt, bool(obj._optional_pair), obj._separator,
                from_impl(obj._subtypes[0]), from_impl(obj._subtypes[1]))
    if cls is T.List:
        return ("List", opt, bool(obj._unique), from_impl(getattr(obj, "_subtype", T.String())))
    if cls is T.LogColor:
        return ("LogColor",)
    if cls is T.LogLevel:
        return ("LogLevel",)
    if cls is T.Hostname:
        return ("Hostname", opt)
    if cls is T.Path:
        return ("Path", opt)
    raise TypeError(f"unmodelled config type {cls.__name__}")


def to_impl(ty):
    from mopidy.config import types as T

    k = ty[0]
    if k == "String":
        return T.String(optional=ty[1], choices=None if ty[2] is None else list(ty[2]), transformer=_tr_fn(ty[3]))
    if k == "Secret":
        return T.Secret(optional=ty[1], transformer=_tr_fn(ty[2]))
    if k == "Integer":
        if ty[2] == 0 and ty[3] == 65535:
            return T.Port(choices=None if ty[4] is None else list(ty[4]), optional=ty[1])
        return T.Integer(minimum=ty[2], maximum=ty[3], choices=None if ty[4] is None else list(ty[4]), optional=ty[1])
    if k == "Float":
        return T.Float(minimum=ty[2], maximum=ty[3], optional=ty[1])
    if k == "Boolean":
        return T.Boolean(optional=ty[1])
    if k == "Pair":
        return T.Pair(optional=ty[1], optional_pair=ty[2], separator=ty[3], subtypes=(to_impl(ty[4]), to_impl(ty[5])))
    if k == "List":
        return T.List(optional=ty[1], unique=ty[2], subtype=to_impl(ty[3]))
    if k == "LogColor":
        return T.LogColor()
    if k == "LogLevel":
        return T.LogLevel()
    if k == "Hostname":
        return T.Hostname(optional=ty[1])
    if k == "Path":
        return T.Path(optional=ty[1])
    if k == "Deprecated":
        return T.Deprecated()
    raise TypeError(k)


# transformer callables the generators use, by oracle id (the model only sees their recorded table)
ORACLE_TRS = {
    7: lambda x: x.upper()[:5],
    8: lambda x: x.strip('"'),        # quote-stripping: '""' is set but transforms to the empty string
}


def _tr_fn(tr):
    if tr is None:
        return None
    if tr == "lower":
        return lambda x: x.lower()
    return tr[2]


def g_fl(x):
    if x is None:
        return None
    x = float(x) if not isinstance(x, (int, fractions.Fraction)) else x
    if isinstance(x, float):
        if math.isnan(x):
            return "FNan"
        if math.isinf(x):
            return "FPInf" if x > 0 else "FNInf"
    fr = fractions.Fraction(x)
    return f"(FFin {g_z(fr.numerator)} {g_z(fr.denominator)})"


def g_tr(tr):
    if tr is None:
        return "None"
    if tr == "lower":
        return "(Some TrLower)"
    return f"(Some (TrOracle {tr[1]}))"


def g_ty(ty, I):
    k = ty[0]
    if k == "String":
        ch = "None" if ty[2] is None else f"(Some {g_list([I.s(c) for c in ty[2]])})"
        return f"(TString {g_bool(ty[1])} {ch} {g_tr(ty[3])})"
    if k == "Secret":
        return f"(TSecret {g_bool(ty[1])} {g_tr(ty[2])})"
    if k == "Integer":
        ch = "None" if ty[4] is None else f"(Some {g_list([g_z(c) for c in ty[4]])})"
        return f"(TInteger {g_bool(ty[1])} {g_opt(ty[2], g_z)} {g_opt(ty[3], g_z)} {ch})"
    if k == "Float":
        return f"(TFloat {g_bool(ty[1])} {g_opt(ty[2], g_fl)} {g_opt(ty[3], g_fl)})"
    if k == "Boolean":
        return f"(TBoolean {g_bool(ty[1])})"
    if k == "Pair":
        return f"(TPair {g_bool(ty[1])} {g_bool(ty[2])} {I.s(ty[3])} {g_ty(ty[4], I)} {g_ty(ty[5], I)})"
    if k == "List":
        return f"(TList {g_bool(ty[1])} {g_bool(ty[2])} {g_ty(ty[3], I)})"
    if k in ("LogColor", "LogLevel", "Deprecated"):
        return "T" + k
    if k in ("Hostname", "Path"):
        return f"(T{k} {g_bool(ty[1])})"
    raise TypeError(k)


def ty_optional(ty):
    return bool(ty[1]) if ty[0] not in ("LogColor", "LogLevel", "Deprecated") else False


def ty_kinds(ty, acc=None):
    acc = set() if acc is None else acc
    acc.add(ty[0])
    for x in ty[1:]:
        if isinstance(x, tuple) and x and isinstance(x[0], str) and x[0][:1].isupper() and x[0] != "oracle":
            ty_kinds(x, acc)
    return acc


# ----------------------------------------------------------------------------- values


def g_val(ty, v, I):
    from mopidy.config import types as T

    if v is None:
        return "VNone"
    if isinstance(v, T.DeprecatedValue):
        return "VDeprecated"
    if isinstance(v, T._ExpandedPath):
        return f"(VPath {I.s(v.original)} {I.s(str(v))})"
    if isinstance(v, T._TransformedValue):
        return f"(VTStr {I.s(v.original)} {I.s(str(v))})"
    if isinstance(v, str):
        return f"(VStr {I.s(v)})"
    if isinstance(v, bool):
        return f"(VBool {g_bool(v)})"
    if isinstance(v, int):
        return f"(VInt {g_z(v)})"
    if isinstance(v, float):
        return f"(VFloat {g_fl(v)})"
    if isinstance(v, tuple) and ty[0] == "Pair" and len(v) == 2:
        return f"(VPair {g_val(ty[4], v[0], I)} {g_val(ty[5], v[1], I)})"
    if isinstance(v, tuple):
        sub = ty[3] if ty[0] == "List" else ty
        return f"(VTuple {g_list([g_val(sub, x, I) for x in v])})"
    if isinstance(v, frozenset):
        sub = ty[3] if ty[0] == "List" else ty
        return f"(VSet {g_list(sorted(g_val(sub, x, I) for x in v))})"
    raise TypeError(f"value of unmodelled Python type {type(v).__name__}")


def canon_val(v):
    """JSON-able canonical form of an implementation value (for replay files/samples)."""
    from mopidy.config import types as T

    if v is None or isinstance(v, (bool, int, str)) and not isinstance(v, T._TransformedValue):
        return v
    if isinstance(v, T.DeprecatedValue):
        return {"deprecated": True}
    if isinstance(v, T._TransformedValue):
        return {"orig": v.original, "str": str(v)}
    if isinstance(v, float):
        return {"float": repr(v)}
    if isinstance(v, tuple):
        return [canon_val(x) for x in v]
    if isinstance(v, frozenset):
        return {"set": sorted((canon_val(x) for x in v), key=repr)}
    return {"py": type(v).__name__}


# ----------------------------------------------------------------------------- oracles

RESOLVABLE = {"localhost", "example.com", "music.local", "my-host", "mopidy.example.org"}


class Recorder:
    """Patches the oracles' call sites in mopidy.config.types and records the answers."""

    def __init__(self):
        self.t_int, self.t_float, self.t_expand = {}, {}, {}
        self.t_pathstr, self.t_resolve, self.t_transform = {}, {}, {}
        self.strings = set()
        self.unexpected = []  # oracle outcomes outside the modelled alphabet

    def note(self, *texts):
        for t in texts:
            if isinstance(t, bytes):
                t = t.decode(errors="surrogateescape")
            self.strings.add(t)

    @contextlib.contextmanager
    def active(self):
        from mopidy.config import types as T
        from mopidy.internal import path as P

        rec = self
        real_expand, real_sock = P.expand_path, P.get_unix_socket_path

        def rec_int(x, *a):
            if a or not isinstance(x, str):
                return builtins.int(x, *a)
            try:
                r = builtins.int(x)
            except ValueError:
                rec.t_int[x] = "IValueError"
                raise
            rec.t_int[x] = f"(IOk {g_z(r)})"
            return r

        def rec_float(x):
            if not isinstance(x, str):
                return builtins.float(x)
            try:
                r = builtins.float(x)
            except ValueError:
                rec.t_float[x] = "FValueError"
                raise
            rec.t_float[x] = f"(FOk {g_fl(r)})"
            return r

        def rec_expand(p):
            key = p.decode(errors="surrogateescape") if isinstance(p, bytes) else p
            try:
                r = real_expand(p)
            except ValueError:
                if isinstance(key, str):
                    rec.t_expand[key] = ("XValueError",)
                raise
            except RuntimeError:
                if isinstance(key, str):
                    rec.t_expand[key] = ("XRuntimeError",)
                raise
            except BaseException as e:  # noqa: BLE001
                rec.unexpected.append(("expand_path", repr(key)[:80], type(e).__name__))
                raise
            if isinstance(key, str):
                rec.t_expand[key] = ("XOk", str(r))
            return r

        def rec_sock(s):
            r = real_sock(s)
            if r is not None and isinstance(s, str) and s.startswith("unix:"):
                # the oracle is pathlib alone (str(pathlib.Path(rest))), NOT whatever
                # get_unix_socket_path returns: the function's own logic is in the model
                import pathlib as _pl

                rest = s[5:].split("\n", 1)[0]
                rec.t_pathstr[rest] = str(_pl.Path(rest))
            return r

        class FakeSocket:
            def __getattr__(self, name):
                return getattr(real_socket, name)

            @staticmethod
            def getaddrinfo(host, port, *a, **k):
                try:
                    r = real_socket.getaddrinfo(host, port, flags=real_socket.AI_NUMERICHOST)
                except OSError:
                    if host in RESOLVABLE:
                        rec.t_resolve[host] = "ROk"
                        return [(2, 1, 6, "", ("192.0.2.1", 0))]
                    rec.t_resolve[host] = "ROSError"
                    raise
                except ValueError:
                    rec.t_resolve[host] = "RValueError"
                    raise
                except BaseException as e:  # noqa: BLE001
                    rec.unexpected.append(("getaddrinfo", repr(host)[:80], type(e).__name__))
                    raise
                rec.t_resolve[host] = "ROk"
                return r

        saved = (T.__dict__.get("int"), T.__dict__.get("float"), T.socket)
        T.int, T.float, T.socket = rec_int, rec_float, FakeSocket()
        P.expand_path, P.get_unix_socket_path = rec_expand, rec_sock
        try:
            yield self
        finally:
            P.expand_path, P.get_unix_socket_path = real_expand, real_sock
            T.socket = saved[2]
            for name, old in (("int", saved[0]), ("float", saved[1])):
                if old is None:
                    T.__dict__.pop(name, None)
                else:
                    setattr(T, name, old)

    def wrap_transformers(self, ty):
        """Return the AST with ("oracle", id, fn) transformers wrapped to record."""
        rec = self

        def wrap(tr):
            if tr is None or tr == "lower":
                return tr
            _, tid, fn = tr

            def recorded(x, _fn=fn, _tid=tid):
                r = _fn(x)
                rec.t_transform[(_tid, x)] = r
                return r

            return ("oracle", tid, recorded)

        k = ty[0]
        if k == "String":
            return (k, ty[1], ty[2], wrap(ty[3]))
        if k == "Secret":
            return (k, ty[1], wrap(ty[2]))
        if k == "Pair":
            return (*ty[:4], self.wrap_transformers(ty[4]), self.wrap_transformers(ty[5]))
        if k == "List":
            return (*ty[:3], self.wrap_transformers(ty[3]))
        return ty

    def g_tables(self, I):
        chars = sorted({c for s in self.strings for c in s if ord(c) >= 128}
                       | {c for s in list(self.t_int) + list(self.t_expand) + list(self.t_resolve) for c in s if ord(c) >= 128})
        lower = [f"({ord(c)}, {I.s(c.lower())})" for c in chars]

        def tab(d, emit=lambda v: v):
            return g_list([f"({I.s(k)}, {emit(v)})" for k, v in d.items()])

        def g_x(v):
            return f"(XOk {I.s(v[1])})" if v[0] == "XOk" else v[0]

        tt = g_list([f"({tid}, {I.s(x)}, {I.s(r)})" for (tid, x), r in self.t_transform.items()])
        return (f"(mk_tables {tab(self.t_int)} {tab(self.t_float)} {tab(self.t_expand, g_x)} "
                f"{tab(self.t_pathstr, I.s)} {tab(self.t_resolve)} {g_list(lower)} {tt})")


def has_final_sigma_hazard(s):
    return "\u03a3" in s


# ----------------------------------------------------------------------------- generators

WS = [" ", "\t", "\n", "\r", "\x0b", "\x0c", "\x1c", "\x1f", "\x85", "\xa0", "\u2003", "\u3000", "\u200b"]
NOISE = ["", " ", "x", "\\", "\\n", "\\t", "\\\\", "\n", "\t", ",", "|", "a,b", "a|b", "é", "\U0001F600", "\udcff",
         "\u212a", "İ", "\x00", "a\x00b", "$HOME", "~nosuchuser/x", "~", "nan", "١٢٣", "9" * 30, "unix:", "none",
         "a\nb", " ,, ", "\\\\n", "=", ";", "#", "%(x)s"]


def gen_noise(rng):
    k = rng.weighted([("pool", 5), ("mix", 3), ("ws", 1)])
    if k == "pool":
        return rng.choice(NOISE)
    if k == "ws":
        return "".join(rng.choice(WS) for _ in range(rng.randint(1, 3)))
    return "".join(rng.choice(NOISE + WS + ["a", "b", "1", "-"]) for _ in range(rng.randint(1, 5)))


INT_POOL = ["9007199254740993", "9007199254740992", "-9007199254740993", "9223372036854775807", "18446744073709551617",
            "1000000000000000001", "10.0", "0", "1", "-1", "5", "100", "101", "999", "1000", "65535", "65536", "3600000", "3600001", "10000",
            " 7 ", "+3", "-0", "1_000", "١٢٣", "٣", "9" * 25, "9" * 4300, "9" * 4301, "1.0", "1e3", "0x10", "",
            " ", "12a", "\\n5", "5\\n", "５"]
FLOAT_POOL = ["0", "0.0", "1.5", "-1.5", "1e3", "1e-3", "nan", "NaN", "-nan", "inf", "-inf", "Infinity",
              "1e999", "-1e999", "1e-999", " 2.5 ", "1_0.5", "٣.٥", ".5", "5.", "", "x", "1,5", "0.1", "100",
              "0.30000000000000004", "1e308", "2.5e-5"]
BOOL_POOL = ["1", "yes", "true", "on", "0", "no", "false", "off", "TRUE", "Yes", "oN", "OFF", "", " true", "t",
             "2", "tru\u0435", "\u212a", "o\u017f\u017f"]
STR_POOL = ["abc", "Hello World", "  padded  ", "x", "a\\nb", "a\\tb", "c:\\\\new", "C:\\\\\\\\new\\\\\\\\tunes",
            "\\\\\\\\\\\\\\\\nas\\\\\\\\share", "q\\\\\\\\\\\\t", "http", "https", "socks4",
            "socks5", ".m3u", ".m3u8", "latin-1", "ÅÉ", "MiXeD", "\\\\", "%(levelname)s", "a;b", "#c", "a=b",
            "\U0001F600", "x" * 40, "İstanbul", "\u212aelvin", "Top 40 #1 hits", "a\t#b", "#lead", "C# minor", "x #", "a #b ;c", '""', '"quoted"', '"', "ABC", "Abc", "Hello, World", "a, b"]
PATH_POOL = ["/tmp", "/tmp/x/../y", "~", "~/music", "~root/x", "~nosuchuser/x", "~nosuchuser", "$XDG_CACHE_DIR/m",
             "$XDG_CONFIG_DIR", "$XDG_DATA_DIR/a b", "$XDG_MUSIC_DIR", "$HOME/x", "rel/path", ".", "..", "",
             " /tmp ", "a\x00b", "/tmp/\udcff", "/tmp/é", "x" * 300, "/a\\nb", "$", "~~", "//x", "/tmp/", "~/$X",
             "@LOOP@", "@LOOP@/x", "@LINK@", "@DIR@/f"]
HOST_POOL = ["127.0.0.1", "::1", "0.0.0.0", "localhost", "example.com", "nosuch.invalid", "a..b", "x" * 70, "é.com",
             "\udcff", "a\x00b", "", " ", "my-host", "1", "256.1.1.1", "unix:/tmp/s", "unix:", "unix:rel/s",
             "unix:~nosuchuser/s", "unix:$XDG_DATA_DIR/s", "unix:$HOME", "unix:a\x00b", "unix:/a\nb", "UNIX:/x", "unix:/tmp/a\\\\nb", "unix:/tmp/c\\\\d", "unix:/tmp/mopidy%2520http.socket", "unix:/tmp/a%20b", "unix:/tmp/100%", "unix:/tmp/%25", "unix:~/s%2Fx",
             " unix:/x", "unix:@LOOP@", "::", "1.2.3", "host name"]
LEVEL_POOL = ["critical", "error", "warning", "info", "debug", "trace", "all", "INFO", "Debug", "", "warn", "10",
              " info", "\u212a", "notset"]
COLOR_POOL = ["black", "red", "green", "yellow", "blue", "magenta", "cyan", "white", "RED", "Blue", "blac\u212a",
              "", "orange", "red ", "grey"]


class Scratch:
    """Scratch directory with a symlink loop, used as path values (@LOOP@ etc.)."""

    def __init__(self):
        import os
        import tempfile

        self.dir = tempfile.mkdtemp(prefix="verif-cfg-")
        os.symlink("loop", os.path.join(self.dir, "loop"))
        os.mkdir(os.path.join(self.dir, "d"))
        os.symlink("d", os.path.join(self.dir, "link"))
        self.cwd = os.getcwd()
        os.chdir(self.dir)

    def subst(self, s):
        return (s.replace("@LOOP@", self.dir + "/loop").replace("@LINK@", self.dir + "/link")
                .replace("@DIR@", self.dir + "/d"))

    def close(self):
        import os
        import shutil

        os.chdir(self.cwd)
        shutil.rmtree(self.dir, ignore_errors=True)


def gen_raw(ty, rng, depth=0):
    """A raw config value for `ty`: mostly plausible, sometimes noise."""
    if rng.random() < 0.12:
        return gen_noise(rng)
    k = ty[0]
    if k in ("String", "Secret"):
        if k == "String" and ty[2] and rng.random() < 0.6:
            c = rng.choice(list(ty[2]))
            return c if rng.random() < 0.8 else c.upper()
        return rng.choice(STR_POOL + [""])
    if k == "Integer":
        if rng.random() < 0.4:
            pts = [x for x in (ty[2], ty[3]) if x is not None] + list(ty[4] or [])
            if pts:
                return str(rng.choice(pts) + rng.choice([-1, 0, 0, 1]))
        return rng.choice(INT_POOL)
    if k == "Float":
        if rng.random() < 0.3:
            pts = [x for x in (ty[2], ty[3]) if x is not None]
            if pts:
                return repr(float(rng.choice(pts)) + rng.choice([-0.5, 0.0, 0.0, 0.5]))
        return rng.choice(FLOAT_POOL)
    if k == "Boolean":
        return rng.choice(BOOL_POOL)
    if k == "Pair":
        a, b = gen_raw(ty[4], rng, depth + 1), gen_raw(ty[5], rng, depth + 1)
        if ty[2] and rng.random() < 0.3:
            b = a.swapcase() if rng.random() < 0.7 else a     # halves spelled differently / identically
        r = rng.random()
        if r < 0.7:
            return a + ty[3] + b
        if r < 0.85:
            return a
        return a + ty[3] + b + ty[3] + a
    if k == "List":
        n = rng.choice([0, 1, 1, 2, 3, 4])
        items = [gen_raw(ty[3], rng, depth + 1) for _ in range(n)]
        if rng.random() < 0.3 and items:
            items.append(items[0])
        style = rng.weighted([("nl", 3), ("comma", 3), ("mixed", 1)])
        if style == "nl":
            return "\n" + "\n".join("  " + i for i in items)
        if style == "comma":
            return rng.choice([", ", ",", " , "]).join(items)
        return ", ".join(items) + "\n" + ",".join(items)
    if k == "LogColor":
        return rng.choice(COLOR_POOL)
    if k == "LogLevel":
        return rng.choice(LEVEL_POOL)
    if k == "Hostname":
        return rng.choice(HOST_POOL)
    if k == "Path":
        return rng.choice(PATH_POOL)
    if k == "Deprecated":
        return rng.choice(STR_POOL + [""])
    raise TypeError(k)


def gen_ty(rng, depth=0):
    """A random config type (compositions up to depth 2)."""
    opt = rng.random() < 0.5
    kinds = [("String", 4), ("Secret", 1.5), ("Integer", 3), ("Float", 2.5), ("Boolean", 2), ("LogColor", 0.7),
             ("LogLevel", 0.7), ("Hostname", 2), ("Path", 2.5), ("Deprecated", 0.5)]
    if depth < 2:
        kinds += [("Pair", 2.5), ("List", 3)]
    k = rng.weighted(kinds)
    if k == "String":
        ch = None
        if rng.random() < 0.3:
            ch = tuple(rng.sample(["http", "https", "a", ".m3u", "x y", "é", ""], rng.randint(0, 3)))
        tr = rng.weighted([(None, 4), ("lower", 2), ("upper", 1)])
        if tr == "upper":
            tr = ("oracle", 7, ORACLE_TRS[7])
        return ("String", opt, ch, tr)
    if k == "Secret":
        tr = rng.weighted([(None, 4), ("lower", 1), ("stripq", 1)])
        return ("Secret", opt, ("oracle", 8, ORACLE_TRS[8]) if tr == "stripq" else tr)
    if k == "Integer":
        if rng.random() < 0.25:
            return ("Integer", opt, 0, 65535, None)
        mn = rng.choice([None, None, -1, 0, 1, 1000])
        mx = rng.choice([None, None, 4, 100, 3600000])
        ch = rng.choice([None, None, None, (1, 5, 100), ()])
        return ("Integer", opt, mn, mx, ch)
    if k == "Float":
        return ("Float", opt, rng.choice([None, 0, 0.0, -1.5, 0.1]), rng.choice([None, 1, 1.0, 100.5, 1e308]))
    if k in ("Boolean", "Hostname", "Path"):
        return (k, opt)
    if k == "Pair":
        return ("Pair", opt, rng.random() < 0.4, rng.choice(["|", "|", ":", "::", "=", "->", "", "\\", "n"]),
                gen_ty(rng, depth + 1), gen_ty(rng, depth + 1))
    if k == "List":
        return ("List", opt, rng.random() < 0.4, gen_ty(rng, depth + 1))
    return (k,)
