"""C09: cases and observations as Gallina terms of Routing.Model / Routing.Obs."""

from __future__ import annotations

from c09_impl import scheme_of
from common.vlib import g_bool, g_list, g_nat, g_opt, g_str, g_z


class Unencodable(Exception):
    pass


ENC_BASE = 1114113


def enc(s):
    """Front.enc: strings as numbers (base-1114113 positional, digits ord(c)+1)."""
    acc = 0
    for c in s:
        acc = acc * ENC_BASE + ord(c) + 1
    return acc


class Interner:
    """URIs and scheme names -> numbers by Front.enc (injective, no table); playlist names -> small ints."""

    def __init__(self):
        self.uris = {}
        self.names = {}

    def scheme(self, s):
        return enc(s)

    def uri(self, u):
        if not isinstance(u, str):
            raise Unencodable(f"non-string URI {u!r}")
        self.uris.setdefault(u, True)
        return f"({g_z(enc(scheme_of(u)))}, {g_z(enc(u))})"

    def name(self, n):
        if n not in self.names:
            self.names[n] = len(self.names) + 1
        return g_z(self.names[n])


KIND = {"exception": "KException", "validation": "KValidation", "type": "KType", "lookup": "KLookup",
        "assertion": "KAssertion", "notimpl": "KNotImpl", "base": "KBase"}
CLS = {"track": "CTrack", "image": "CImage", "ref": "CRef", "search": "CSearch", "playlist": "CPlaylist",
       "str": "CStr", "int": "CInt"}
METH = {"lookup_many": "MLookupMany", "get_images": "MGetImages", "search": "MSearch", "browse": "MBrowse",
        "root_directory": "MRoot", "get_distinct": "MDistinct", "refresh": "MRefresh", "as_list": "PAsList",
        "get_items": "PGetItems", "pl_lookup": "PLookup", "create": "PCreate", "save": "PSave",
        "delete": "PDelete", "pl_refresh": "PRefresh", "get_volume": "XGetVolume", "set_volume": "XSetVolume",
        "get_mute": "XGetMute", "set_mute": "XSetMute"}
SQUERY = {"empty": "SQEmpty", "good": "SQGood", "good2": "SQGood2", "str": "SQStr", "bad": "SQBad",
          "blank": "SQBlank"}
FIELD = {"artist": "FStr", "track_no": "FInt", "track": "FTrack", "track_name": "FTrackName", "bogus": "FBogus"}


def entry(e, it):
    if e == "junk":
        return "EJunk"
    if e[0] == "uristr":
        return f"(EUriStr {it.uri(e[1])})"
    cls, ident, has_uri = e
    return f"(EObj {CLS[cls]} {g_z(ident)} {g_bool(has_uri)})"


def entries(l, it):
    return g_list([entry(e, it) for e in l])


def resp(r, it):
    tag = r[0]
    if tag == "raise":
        return f"(RRaise {KIND[r[1]]})"
    if tag == "none":
        return "RNone"
    if tag == "wrong":
        return "RWrong"
    if tag == "map":
        items = [f"({it.uri(u)}, {'MBad' if mv == 'bad' else '(MList ' + entries(mv, it) + ')'})" for u, mv in r[1]]
        return f"(RMap {g_list(items)})"
    if tag == "list":
        return f"(RList {entries(r[1], it)})"
    if tag == "val":
        return f"(RVal {CLS[r[1]]} {g_z(r[2])})"
    if tag == "bool":
        return f"(RBool {g_bool(r[1])})"
    if tag == "int":
        return f"(RInt {g_z(r[1])})"
    raise Unencodable(repr(r))


def script(answers, it):
    fixed = g_list([f"({METH[m]}, {resp(r, it)})" for m, r in sorted(answers.items()) if r[0] != "echo"])
    echoes = [f"({METH[m]}, {CLS[r[1]]}, {g_list([g_z(i) for i in r[2]])})"
              for m, r in sorted(answers.items()) if r[0] == "echo"]
    if not echoes:
        return f"(script {fixed})"
    return f"(escript {g_list(echoes)} {fixed})"


def backend(spec, it):
    if spec.get("_real_class"):  # a mopidy.backend.Backend subclass: flags = inherited has_*() of the providers set
        r = spec["answers"].get("root_directory")
        lib = "None" if not spec["lib"] else ("(Some None)" if not spec["browse"] else f"(Some (Some {g_z(r[2])}))")
        return ("(backend_of " + g_list([g_z(it.scheme(s)) for s in spec["schemes"]])
                + f" (mkPv {lib} {g_bool(spec['playback'])} {g_bool(spec['playlists'])}) "
                + script(spec["answers"], it) + ")")
    return ("(mkB " + g_list([g_z(it.scheme(s)) for s in spec["schemes"]]) + " "
            + " ".join(g_bool(spec[k]) for k in ("info_ok", "lib", "browse", "playback", "playlists"))
            + " " + script(spec["answers"], it) + ")")


def squery(tok):
    if tok not in SQUERY:
        raise Unencodable(f"query {tok!r}")
    return SQUERY[tok]


def opt_squery(tok):
    return "None" if tok == "none" else f"(Some {squery(tok)})"


def uris(l, it):
    return g_list([it.uri(u) for u in l])


def opt_uris(l, it):
    return "None" if l is None else f"(Some {uris(l, it)})"


def op_term(op, it):
    n = op["name"]
    if n == "construct":
        return "OConstruct"
    if n == "lookup":
        return f"(OLookup {uris(op['uris'], it)})"
    if n == "get_images":
        return f"(OImages {uris(op['uris'], it)})"
    if n == "search":
        return f"(OSearch {squery(op['query'])} {opt_uris(op['uris'], it)} {g_bool(op['exact'])})"
    if n == "browse":
        u = op["uri"]
        if u is None:
            return "(OBrowse BNone)"
        if not u.strip():
            return "(OBrowse BBlank)"
        return f"(OBrowse (BUri {it.uri(u)}))"
    if n == "get_distinct":
        return f"(ODistinct {FIELD.get(op['field'], 'FBogus')} {opt_squery(op['query'])})"
    if n == "refresh":
        return f"(ORefresh {g_opt(op['uri'], it.uri)})"
    if n == "get_uri_schemes":
        return "OSchemes"
    if n == "core_schemes":
        return "OCoreSchemes"
    if n == "as_list":
        return "OAsList"
    if n == "get_items":
        return f"(OGetItems {it.uri(op['uri'])})"
    if n == "pl_lookup":
        return f"(OPlLookup {it.uri(op['uri'])})"
    if n == "create":
        return f"(OCreate {it.name(op['pname'])} {g_opt(op['scheme'], lambda s: g_z(it.scheme(s)))})"
    if n == "save":
        return f"(OSave {g_opt(op['uri'], it.uri)} {it.name(op['pname'])})"
    if n == "delete":
        return f"(ODelete {it.uri(op['uri'])})"
    if n == "pl_refresh":
        return f"(OPlRefresh {g_opt(op['scheme'], lambda s: g_z(it.scheme(s)))})"
    if n == "get_volume":
        return "OGetVolume"
    if n == "set_volume":
        return f"(OSetVolume {g_z(op['volume'])})"
    if n == "get_mute":
        return "OGetMute"
    if n == "set_mute":
        return f"(OSetMute {g_bool(op['mute'])})"
    raise Unencodable(n)


def arg_term(key, a, it):
    if key in ("lookup_many", "get_images"):
        return f"(AUris {uris(a['uris'], it)})"
    if key == "search":
        return f"(ASearch {squery(a['query'])} {opt_uris(a['uris'], it)} {g_bool(a['exact'])})"
    if key in ("browse", "get_items", "pl_lookup", "delete"):
        return f"(AUri {it.uri(a['uri'])})"
    if key == "refresh":
        return f"(AOptUri {g_opt(a['uri'], it.uri)})"
    if key == "get_distinct":
        if a["field"] not in FIELD:
            raise Unencodable(f"field {a['field']!r}")
        return f"(ADistinct {FIELD[a['field']]} {opt_squery(a['query'])})"
    if key == "create":
        return f"(AName {it.name(a['name'])})"
    if key == "save":
        pl = a["playlist"]
        if not isinstance(pl, list):
            raise Unencodable(f"playlist {pl!r}")
        return f"(APlaylist {it.uri(pl[0])} {it.name(pl[1])})"
    if key in ("root_directory", "as_list", "pl_refresh", "get_volume", "get_mute"):
        return "AUnit"
    if key == "set_volume":
        (v,) = a
        if v[0] != "int":
            raise Unencodable(f"volume {v!r}")
        return f"(AInt {g_z(v[1])})"
    if key == "set_mute":
        (v,) = a
        if v[0] != "bool":
            raise Unencodable(f"mute {v!r}")
        return f"(ABool {g_bool(v[1])})"
    raise Unencodable(key)


def log_term(log, it):
    out = []
    for b, key, a in log:
        who = "Mx" if b < 0 else f"(Bk {g_nat(b)})"
        out.append(f"({who}, {METH[key]}, {arg_term(key, a, it)})")
    return g_list(out)


def value_term(v, it):
    tag = v[0]
    if tag == "none":
        return "VNone"
    if tag == "bool":
        return f"(VBool {g_bool(v[1])})"
    if tag == "int":
        return f"(VInt {g_z(v[1])})"
    if tag == "val":
        return f"(VVal {CLS[v[1]]} {g_z(v[2])})"
    if tag == "list":
        return f"(VList {entries(v[1], it)})"
    if tag == "map":
        return "(VMap " + g_list([f"({it.uri(k)}, {entries(x, it)})" for k, x in v[1]]) + ")"
    if tag == "strs":
        return "(VSchemes " + g_list([g_z(it.scheme(s)) for s in v[1]]) + ")"
    if tag == "raw":
        return "VRaw"
    raise Unencodable(f"result {v!r}")


ORDERED = {"browse", "get_items"}


def case_term(case, obs):
    if case["op"]["name"] == "raw":
        return raw_case_term(case, obs)
    it = Interner()
    bs = g_list([backend(spec, it) for spec in case["backends"]])
    mx = "None" if case.get("mixer") is None else f"(Some {script(case['mixer'], it)})"
    op = op_term(case["op"], it)
    out = obs["outcome"]
    outcome = f"(Raise {KIND[out[1]]})" if out[0] == "raise" else f"(Ok {value_term(out[1], it)})"
    ordered = case["op"]["name"] in ORDERED and case["op"].get("uri") is not None
    log = log_term(obs["log"], it)
    texts = g_list([f"({g_str(u)}, {g_str(scheme_of(u))})" for u in it.uris])
    return f"(mkCase {bs} {mx} {op} {g_bool(ordered)} {texts} ({log}, {outcome}))"


RAW_CTOR = {"lookup": "RLookup", "get_images": "RImages", "browse": "RBrowse", "refresh": "RRefresh",
            "get_items": "RGetItems", "delete": "RDelete", "set_volume": "RSetVolume", "set_mute": "RSetMute"}


def raw_op_term(op):
    import c09_validation as V

    a = [V.spec_term(x) for x in op["args"]]
    raw = op["raw"]
    if raw == "search":
        return f"(RSearch {squery(op['query'])} {a[0]} {a[1]})"
    if raw == "get_distinct":
        return f"(RDistinct {a[0]} {opt_squery(op['query'])})"
    return f"({RAW_CTOR[raw]} {a[0]})"


def raw_case_term(case, obs):
    import c09_validation as V

    it = Interner()
    bs = g_list([backend(spec, it) for spec in case["backends"]])
    mx = "None" if case.get("mixer") is None else f"(Some {script(case['mixer'], it)})"
    out = obs["outcome"]
    outcome = f"(Raise {KIND[out[1]]})" if out[0] == "raise" else f"(Ok {value_term(out[1], it)})"
    a0 = case["op"]["args"][0]
    ordered = case["op"]["raw"] in ("browse", "get_items") and a0[0] == "str"
    log = log_term(obs["log"], it)
    strings = list(it.uris)
    for x in case["op"]["args"]:
        V.spec_strings(x, strings)
    texts = []
    for u in dict.fromkeys(strings):
        try:
            texts.append(f"({g_str(u)}, {g_str(scheme_of(u))}, {g_z(enc(u))})")
        except ValueError:
            continue
    return (f"(mkRCase {bs} {mx} {raw_op_term(case['op'])} {g_bool(ordered)} {g_list(texts)} ({log}, {outcome}))")


def events_term(case, obs):
    """The events recorded at mopidy.listener.send as a list of Spec.event."""
    it = Interner()
    out = []
    for name, kw in obs.get("events") or []:
        pl = kw.get("playlist")
        if name == "playlist_changed" and pl and pl[0] == "val" and pl[1] == "playlist":
            out.append(f"(EvPlaylistChanged {g_z(pl[2])})")
        elif name == "playlist_deleted" and kw.get("uri", [None])[0] == "str":
            out.append(f"(EvPlaylistDeleted {it.uri(kw['uri'][1])})")
        elif name == "playlists_loaded" and not kw:
            out.append("EvPlaylistsLoaded")
        else:
            out.append("EvOther")
    return g_list(out)
