"""C18 - the actor system cannot deadlock and always shuts down cleanly.

Stages
  1. proof stage: coq/Actors (WaitFor, Shutdown, Edges_gen for the pinned tree, proofs,
     Property_C18.v) + assumption audit.
  2. translator: harness/c18_edges.py regenerates the call-site list from the CURRENT
     $VERIF_REPO sources; coqc re-proves `rank_ok_b edges mopidy_rank = true`,
     `upward_is_tell_b` and the no-deadlock corollary against the fresh list (temp dir).
  3. dynamic wait-for tie: real pykka actors under concurrent clients with
     ThreadingFuture.get instrumented; every observed (waiter, awaited) pair must be a
     generated edge (evaluated in Coq with `unexplained`), every run must finish, the
     end-of-track callback must be refused on the audio thread and served by the core
     thread from a foreign thread.
  4. shutdown correspondence: the real RootCommand.run with scripted start-up failures and
     main-loop exits vs Shutdown.model_obs, compared inside Coq; the theorem's monitor
     predicate (monitor_ok_b) evaluated on the real observations.
"""

from __future__ import annotations

import itertools
import json
import os
import shutil
import subprocess
import tempfile
from concurrent.futures import ThreadPoolExecutor
from pathlib import Path

import c18_edges
from common import vlib
from common.vlib import g_bool, g_list, g_z

AREA = "Actors"
PROP_FILES = ["Property_C18.v"]
HERE = Path(__file__).resolve().parent

COMP_CODE = {"Main": 0, "Frontend": 1, "GstThread": 2, "Core": 3, "Backend": 4, "Mixer": 5, "Audio": 6, "Unknown": 7}
RANK = {"Main": 5, "Frontend": 4, "GstThread": 4, "Core": 3, "Backend": 2, "Mixer": 2, "Audio": 1, "Unknown": None}
OK, DECL, OTHER, DIES, INTR, LATE = 0, 1, 2, 3, 4, 5
OUTCOME_NAME = {0: "ok", 1: "declared-error", 2: "other-error", 3: "dies-in-on_start", 4: "interrupt",
                5: "interrupt-after-start"}
LOOP_NAME = {0: "quit", 1: "keyboard-interrupt", 2: "exception"}
EXPECTED_DYNAMIC = [("Frontend", "Core"), ("Core", "Backend"), ("Core", "Mixer"), ("Core", "Audio"),
                    ("Backend", "Audio"), ("Mixer", "Audio"), ("GstThread", "Core"), ("Main", "Frontend")]


def edge_ok(src, dst):
    a, b = RANK.get(src), RANK.get(dst)
    return a is not None and b is not None and b < a


# ---------------------------------------------------------------------------------------
# subprocess workers


def run_worker(mode, indexed_cases, per_case_timeout):
    """Run cases in c18_rt.py; returns {idx: result}; a hang yields {"hang": ...} for that idx."""
    results = {}
    todo = list(indexed_cases)
    hangs = 0
    while todo:
        tmp = Path(tempfile.mkdtemp(prefix="verif-c18w-"))
        try:
            (tmp / "cases.json").write_text(json.dumps(todo))
            out = tmp / "out.jsonl"
            try:
                env = vlib.impl_env()
                env["TMPDIR"] = str(tmp)  # scratch dirs of a killed worker disappear with ours
                p = subprocess.run([vlib.PY, "-B", str(HERE / "c18_rt.py"), mode, str(tmp / "cases.json"), str(out)],
                                   env=env, capture_output=True, text=True,
                                   timeout=per_case_timeout * len(todo) + 120, check=False)
                rc, err = p.returncode, p.stderr[-1500:]
            except subprocess.TimeoutExpired:
                rc, err = 124, "worker timeout"
            done = set()
            hang = None
            if out.exists():
                for line in out.read_text().splitlines():
                    try:
                        rec = json.loads(line)
                    except ValueError:
                        continue
                    if "hang" in rec:
                        hang = rec
                    else:
                        results[rec["idx"]] = rec["res"]
                        done.add(rec["idx"])
            rest = [(i, c) for i, c in todo if i not in done]
            if not rest:
                break
            # the first unfinished case is the one that hung / crashed the worker
            i0, _c0 = rest[0]
            results[i0] = {"hang": hang or {"hang": "worker died", "rc": rc, "stderr": err}}
            todo = rest[1:]
            hangs += 1
            if hangs >= 2:  # circuit breaker: do not sit through a timeout per case
                for i, _c in todo:
                    results[i] = {"skipped": True}
                break
        finally:
            shutil.rmtree(tmp, ignore_errors=True)
    return results


def run_parallel(mode, cases, per_case_timeout, jobs=12, chunk=None):
    indexed = list(enumerate(cases))
    if not indexed:
        return {}
    chunk = chunk or max(1, min(400, (len(indexed) + jobs - 1) // jobs))
    chunks = [indexed[i:i + chunk] for i in range(0, len(indexed), chunk)]
    results = {}
    with ThreadPoolExecutor(max_workers=jobs) as ex:
        for r in ex.map(lambda ch: run_worker(mode, ch, per_case_timeout), chunks):
            results.update(r)
    return results


# ---------------------------------------------------------------------------------------
# stage 2+3: translator, fresh re-proof, dynamic wait-for tie


def site_case(s):
    return {"waiter": s[0], "awaited": s[1], "kind": s[2], "file": s[3], "line": s[4], "construct": s[5]}


def waitfor_stage(chk):
    tr = c18_edges.translate(str(vlib.REPO))
    text = tr.to_coq()
    committed = (vlib.COQ / AREA / "Edges_gen.v")
    fresh_same = committed.exists() and committed.read_text() == text
    chk.notes.append(f"translator: {len(tr.files)} files, {len(tr.sites)} sites, {len(tr.edges())} blocking, "
                     f"pairs={['%s>%s' % p for p in tr.edge_pairs()]}; committed Edges_gen.v "
                     f"{'identical' if fresh_same else 'differs (line shifts or new sites)'}")
    for n in tr.notes:
        chk.notes.append("translator note: " + n)
    chk.dist("sites_blocking", len(tr.edges()))
    chk.dist("sites_tell", len(tr.sites) - len(tr.edges()))
    # property predicate on the translated code: every blocking site strictly descends
    for s in tr.edges():
        chk.count(1, nontrivial_key=("site", s[3], s[4], s[0], s[1]))
        if not edge_ok(s[0], s[1]):
            chk.monitor_failure(
                "rank_order", {"waiter": s[0], "awaited": s[1], "file": s[3], "construct": s[5]},
                f"blocking call {s[0]} -> {s[1]} at {s[3]}:{s[4]} ({s[5]}) does not go strictly downwards",
                {**site_case(s), "translator_notes": tr.notes[:6]})
    for s in tr.edges()[:2]:
        chk.sample(site_case(s))
    # coverage: every textual candidate must have been translated or exempted for a known reason
    chk.dist("candidates", len(tr.candidates))
    for rel, line, name, disp in tr.candidates:
        known = disp[0] in ("site", "tell", "expanded") or (disp[0] == "exempt" and disp[1] in
                                                            c18_edges.KNOWN_EXEMPTIONS)
        if not known:
            chk.corr_failure("translator-coverage", {"file": rel, "line": line, "construct": name,
                                                     "disposition": list(disp)},
                             "a textual blocking-call candidate is outside the translated set")
    # the end-of-track callback must wait for the core without any bound
    for s in tr.callback_sites():
        if s[2] != "Blocking":
            chk.monitor_failure(
                "callback_wait_unbounded", {"file": s[3], "construct": s[5]},
                f"the GStreamer-thread -> core callback at {s[3]}:{s[4]} ({s[5]}) gives up after a timeout: the "
                "calling thread can resume before the core has served the end-of-track callback",
                site_case(s))

    # dynamic runs
    n_runs = 6 if chk.tier == "quick" else 40
    cases = []
    for i in range(n_runs):
        cases.append({"seed": chk.rng.randint(1, 10**6), "clients": chk.rng.choice([2, 4, 6, 8]),
                      "ops": 60 if chk.tier == "quick" else chk.rng.choice([60, 120, 200]),
                      "backends": chk.rng.choice([1, 2, 3]), "frontends": chk.rng.choice([1, 2]),
                      "sync_atf": int(i % 2 == 1), "deadline": 30,
                      "hold": 1.3 if (chk.tier == "quick" or i % 4) else 3.2})
    results = run_parallel("waitfor", cases, per_case_timeout=40, jobs=min(12, n_runs), chunk=1)
    observed = {}
    run_ok = True
    for i, case in enumerate(cases):
        r = results.get(i, {"hang": {"hang": "no result"}})
        if r.get("skipped"):
            continue
        chk.count(1, nontrivial_key=("waitfor", case["seed"], case["clients"]))
        chk.dist(f"waitfor_clients={case['clients']}")
        if "hang" in r:
            chk.monitor_failure("no_deadlock", {"mode": "waitfor"},
                                "concurrent run of the real actors did not finish (watchdog)",
                                {"case": case, "detail": r["hang"]})
            continue
        if "harness_error" in r:
            run_ok = False
            chk.corr_failure("waitfor-run", case, r["harness_error"] + r.get("tb", ""))
            continue
        for k, n in r["edges"].items():
            a, b = k.split("->")
            observed[(a, b)] = observed.get((a, b), 0) + n
        if r["errors"]:
            run_ok = False
            chk.corr_failure("waitfor-run", case, "; ".join(r["errors"]))
        if r["own_thread_calls"] != 0:
            chk.monitor_failure("about_to_finish_own_thread", {"thread": "audio"},
                                "Audio._on_about_to_finish ran the core callback on the audio actor's own thread",
                                {"case": case, "calls": r["own_thread_calls"]})
        if r["foreign_calls"] != 1 or r["foreign_done_when_returned"] != 1 or r["callback_threads"] != ["Core"]:
            chk.monitor_failure("about_to_finish_served_by_core", {"thread": "foreign"},
                                "end-of-track callback from a streaming thread was not served exactly once by the "
                                "core thread with the caller blocked until it finished",
                                {"case": case, "calls": r["foreign_calls"], "done_when_returned":
                                 r["foreign_done_when_returned"], "threads": r["callback_threads"]})
        b = r.get("busy_core") or {}
        if b.get("caller_returned_before_release") or b.get("served_when_caller_returned") != 1 \
                or b.get("order") != ["core-busy", "callback-issued", "core-released", "core-served",
                                      "caller-returned"]:
            chk.monitor_failure(
                "about_to_finish_caller_blocks_while_core_busy", {"thread": "foreign", "core": "busy"},
                "with the core thread busy the streaming thread returned from the end-of-track callback before "
                "the core had served it",
                {"schedule": f"client keeps the core actor inside a backend browse for {case.get('hold', 1.3)} s; "
                             "a foreign (streaming) thread fires about-to-finish meanwhile; the core is released "
                             "only afterwards", "observed": b, "case": case})
        if r["left"] != 0:
            chk.monitor_failure("waitfor_left_running", {"mode": "waitfor"}, "actors left after orderly stop",
                                {"case": case, "left": r["left"]})
        if i < 2:
            chk.sample({"waitfor_case": case, "edges": r["edges"], "events": r["events"],
                        "callback_total": r["callback_total"]})
    edge_pairs = set(tr.edge_pairs())
    for (a, b), n in sorted(observed.items()):
        chk.dist(f"observed {a}->{b}", n)
        if not edge_ok(a, b):
            chk.monitor_failure("rank_order_dynamic", {"waiter": a, "awaited": b},
                                f"a running {a} thread blocked on a future of {b} ({n} times): not strictly downwards",
                                {"waiter": a, "awaited": b, "count": n})
        elif (a, b) not in edge_pairs:
            run_ok = False
            chk.corr_failure("waitfor-edges", {"waiter": a, "awaited": b, "count": n},
                             "observed wait-for edge is not among the translated edges")
    missing = [p for p in EXPECTED_DYNAMIC if p not in observed]
    chk.obligation("dynamic-coverage", "audit", not missing or not results,
                   f"edges never exercised by the dynamic runs: {missing}")

    # fresh Coq check (the theorem re-proved against the regenerated list)
    obs_term = g_list([f"({g_z(COMP_CODE.get(a, 7))}, {g_z(COMP_CODE.get(b, 7))})" for (a, b) in sorted(observed)])
    check_v = (
        "From Coq Require Import ZArith List Bool String Relations.\n"
        "From Actors Require Import WaitFor Proofs_WaitFor.\n"
        "From Fresh Require Import Edges_gen.\n"
        "Import ListNotations.\n"
        "Eval vm_compute in (map pair_code (bad_edges edges mopidy_rank)).\n"
        "Eval vm_compute in (map pair_code (filter (fun s => upward mopidy_rank s && site_blocking s) sites)).\n"
        "Eval vm_compute in (map s_line (bounded_callback_sites sites)).\n"
        "Eval vm_compute in (unaccounted candidates sites).\n"
        f"Eval vm_compute in (unexplained edges {obs_term}%Z).\n"
        "Theorem fresh_mopidy_edges_ranked : rank_ok_b edges mopidy_rank = true.\n"
        "Proof. vm_compute. reflexivity. Qed.\n"
        "Theorem fresh_upward_is_tell : upward_is_tell_b sites mopidy_rank = true.\n"
        "Proof. vm_compute. reflexivity. Qed.\n"
        "Theorem fresh_mopidy_no_deadlock :\n"
        "  forall (comp_of : actor -> comp) (code_of : actor -> hid -> list instr),\n"
        "    (forall a h t h', In (ICall t h') (code_of a h) ->\n"
        "                      edge_in_b edges (comp_of a) (comp_of t) = true) ->\n"
        "    forall sched s, run code_of init sched = Some s ->\n"
        "      (forall a, ~ clos_trans actor (waits s) a a) /\\\n"
        "      (forall a, busy s a ->\n"
        "                 exists b, can_move code_of s b /\\ clos_refl_trans actor (waits s) a b) /\\\n"
        "      ~ deadlocked code_of s.\n"
        "Proof. intros comp_of code_of. apply (ranked_no_cycle_lemma edges mopidy_rank).\n"
        "  exact fresh_mopidy_edges_ranked. Qed.\n"
        "Print Assumptions fresh_mopidy_no_deadlock.\n"
        "Theorem fresh_candidates_accounted : candidates_accounted_b candidates sites = true.\n"
        "Proof. vm_compute. reflexivity. Qed.\n"
        "Theorem fresh_callback_unbounded : callback_unbounded_b sites = true.\n"
        "Proof. vm_compute. reflexivity. Qed.\n"
    )
    tmp = Path(tempfile.mkdtemp(prefix="verif-c18fresh-"))
    try:
        (tmp / "Edges_gen.v").write_text(text)
        (tmp / "Check.v").write_text(check_v)
        flags = [*vlib.area_flags(AREA), "-Q", str(tmp), "Fresh"]
        rc1, out1, _ = vlib._run(["coqc", *flags, str(tmp / "Edges_gen.v")], 300)
        rc2, out2, _ = (1, "", 0) if rc1 != 0 else vlib._run(["coqc", *flags, str(tmp / "Check.v")], 600)
    finally:
        shutil.rmtree(tmp, ignore_errors=True)
    chk.checker_cmds.append("coqc Fresh/Edges_gen.v Fresh/Check.v (regenerated from $VERIF_REPO; "
                            "rank_ok_b / upward_is_tell_b / no-deadlock corollary re-proved)")
    lists = vlib.parse_all_lists(out2)
    closed = "Closed under the global context" in out2
    chk.obligation("theorem:fresh_mopidy_edges_ranked", "theorem", rc1 == 0 and closed,
                   "" if closed else (out1 + out2)[-1500:])
    if len(lists) >= 5:
        bad, upblock, bounded_cb, unacc, unexpl = lists[0], lists[1], lists[2], lists[3], lists[4]
        chk.obligation("fresh:candidates_accounted", "theorem", not unacc,
                       f"candidate blocking calls outside the translated set at lines {unacc}")
        chk.obligation("fresh:bad_edges_empty", "theorem", not bad, f"pair codes {bad}")
        chk.obligation("fresh:upward_is_tell", "theorem", not upblock, f"pair codes {upblock}")
        chk.obligation("fresh:callback_unbounded", "theorem", not bounded_cb and rc2 == 0,
                       f"bounded callback waits at lines {bounded_cb}")
        chk.obligation("corr:waitfor-edges", "correspondence", run_ok and not unexpl,
                       f"unexplained observed pair codes {unexpl}")
    else:
        chk.obligation("corr:waitfor-edges", "correspondence", False, "Coq evaluation of the fresh edges failed: "
                       + (out1 + out2)[-800:])
    chk.axioms["fresh_mopidy_no_deadlock"] = "closed" if closed else "?"


# ---------------------------------------------------------------------------------------
# stage 3b: the abstract semantics vs real pykka on scripted Tell/Call programs


def gen_program(rng):
    """Ranked program: actor i only calls actors j > i; every message triggers a handler with a
    smaller id than the sending handler, so every run terminates; tells go anywhere."""
    n = rng.randint(2, 5)
    hmax = rng.randint(1, 3)
    table = []
    for a in range(n):
        for h in range(1, hmax + 1):
            instrs = []
            for _ in range(rng.randint(0, 3)):
                if a < n - 1 and rng.random() < 0.6:
                    instrs.append(["call", rng.randint(a + 1, n - 1), rng.randint(0, h - 1)])
                else:
                    instrs.append(["tell", rng.randint(0, n - 1), rng.randint(0, h - 1)])
            if instrs:
                table.append([a, h, instrs])
    inject = [[rng.randint(0, n - 1), rng.randint(0, hmax)] for _ in range(rng.randint(1, 6))]
    order = list(range(n))
    rng.shuffle(order)
    return {"n": n, "table": table, "inject": inject, "order": order}


DEADLOCK_SHAPES = [
    {"n": 1, "table": [[0, 1, [["call", 0, 0]]]], "inject": [[0, 1]], "order": [0], "ask_timeout": 0.4},
    {"n": 2, "table": [[0, 1, [["call", 1, 1]]], [1, 1, [["call", 0, 0]]]], "inject": [[0, 1]], "order": [1, 0],
     "ask_timeout": 0.4},
    {"n": 3, "table": [[0, 2, [["tell", 2, 0], ["call", 1, 1]]], [1, 1, [["call", 2, 1]]], [2, 1, [["call", 0, 0]]]],
     "inject": [[0, 2]], "order": [2, 0, 1], "ask_timeout": 0.4},
]


def g_sim_case(c, r):
    def g_instr(i):
        return f"({'ICall' if i[0] == 'call' else 'ITell'} {i[1]} {i[2]})"
    table = g_list([f"({a}, {h}, {g_list([g_instr(i) for i in instrs])})" for a, h, instrs in c["table"]])
    inject = g_list([f"({a}, {h})" for a, h in c["inject"]])
    order = g_list([str(a) for a in c["order"]])
    counts = g_list([f"({a}, {h}, {g_z(k)}%Z)" for a, h, k in r["counts"]])
    return (f"(mkSim {c['n']} {table} {inject} {order} {counts} {g_z(r['total'])}%Z {g_bool(r['deadlock'])})")


def pykka_stage(chk):
    n = 150 if chk.tier == "quick" else 1500
    cases = [dict(c) for c in DEADLOCK_SHAPES] + [gen_program(chk.rng) for _ in range(n)]
    results = run_parallel("pykka", cases, per_case_timeout=35)
    rows, ok = [], True
    for i, c in enumerate(cases):
        r = results.get(i)
        if r is None or r.get("skipped"):
            continue
        expect_deadlock = "ask_timeout" in c
        if "hang" in r or "harness_error" in r or not r.get("quiet", False):
            if not expect_deadlock:
                chk.monitor_failure("no_deadlock", {"mode": "pykka"},
                                    "a ranked Tell/Call program on real pykka actors did not finish",
                                    {"case": c, "detail": r})
            else:
                ok = False
                chk.corr_failure("pykka-semantics", c, f"deadlock shape did not report: {r}")
            continue
        if r["deadlock"] and not expect_deadlock:
            chk.monitor_failure("no_deadlock", {"mode": "pykka"},
                                "a ranked Tell/Call program on real pykka actors blocked", {"case": c, "detail": r})
            continue
        rows.append((c, r))
        chk.count(1, nontrivial_key=("pykka", json.dumps(c, sort_keys=True)) if r["total"] > len(c["inject"]) else None)
        chk.dist("pykka_deadlock_shape" if expect_deadlock else f"pykka_actors={c['n']}")
    if rows:
        chk.sample({"pykka_case": rows[-1][0], "observed": rows[-1][1]})
    shards = [rows[i:i + 250] for i in range(0, len(rows), 250)]
    texts = ["From Coq Require Import ZArith List Bool.\nImport ListNotations.\n"
             "From Common Require Import Cases.\nFrom Actors Require Import WaitFor Sim.\n"
             "Open Scope nat_scope.\n"
             "Definition cases : list sim_case :=\n " + g_list([g_sim_case(c, r) for c, r in sh]) + ".\n"
             "Eval vm_compute in mismatches sim_ok cases.\n" for sh in shards]
    for sh, (rc, out) in zip(shards, vlib.coq_eval_many(AREA, texts)):
        bad = vlib.parse_nat_list(out)
        if rc != 0 or bad is None:
            ok = False
            chk.corr_failure("pykka-semantics", {"shard": "coq evaluation failed"}, out[-1500:])
            continue
        for i in bad:
            ok = False
            chk.corr_failure("pykka-semantics", {"case": sh[i][0], "observed": sh[i][1]})
    chk.obligation("corr:pykka-semantics", "correspondence", ok and bool(rows))


# ---------------------------------------------------------------------------------------
# stage 3c: listener.send / XListener.send / Listener.on_event vs Dispatch.v

N_EVENTS = 7  # codes of c18_rt.DISPATCH_EVENTS; 4 = unknown event name, 5 = wrong arguments


def gen_dispatch(rng):
    listeners = []
    for _ in range(rng.randint(1, 4)):
        custom = int(rng.random() < 0.3)
        pool = list(range(N_EVENTS)) if custom else [0, 1, 2, 3, 6]
        raise_on = sorted(rng.sample(pool, rng.choice([0, 0, 1, 2])))
        dies_at = [rng.randrange(N_EVENTS)] if rng.random() < 0.2 else []
        listeners.append([custom, raise_on, dies_at])
    events = [rng.randrange(N_EVENTS) for _ in range(rng.randint(3, 10))]
    return {"listeners": listeners, "events": events}


def beh_table(custom, raise_on):
    out = []
    for code in range(N_EVENTS):
        if code in raise_on:
            out.append(1)
        elif custom:
            out.append(0)
        else:
            out.append({4: 2, 5: 1}.get(code, 0))
    return out


def dispatch_stage(chk):
    n = 120 if chk.tier == "quick" else 1500
    corpus = [
        {"listeners": [[0, [1], []], [1, [2], []], [0, [], [3]], [0, [], []]], "events": [0, 1, 2, 3, 4, 5, 6, 0]},
        {"listeners": [[0, [], []]], "events": [4, 5, 4, 0]},
        {"listeners": [[1, [0], []], [0, [0], []]], "events": [0, 0, 1]},
    ]
    cases = corpus + [gen_dispatch(chk.rng) for _ in range(n)]
    results = run_parallel("dispatch", cases, per_case_timeout=35)
    rows, ok = [], True
    for i, c in enumerate(cases):
        r = results.get(i)
        if r is None or r.get("skipped"):
            continue
        if "hang" in r or "harness_error" in r:
            ok = False
            chk.corr_failure("dispatch", c, str(r)[:800])
            continue
        rows.append((c, r))
        race = any(d for _, _, d in c["listeners"])
        chk.count(1, nontrivial_key=("dispatch", json.dumps(c, sort_keys=True)))
        chk.dist("dispatch_with_race" if race else "dispatch_no_race")
        # property-side monitor (isolation): without the stop-during-send race every send returns
        # and every listener that is still alive has handled every event it has a working handler for
        if not race:
            if any(x != 0 for x in r["sender"]):
                chk.monitor_failure("listener_send_returns", {"race": False},
                                    "listener.send raised in the sender although no listener stopped during the send",
                                    {"case": c, "observed": r})
            for (custom, raise_on, _d), (alive, handled) in zip(c["listeners"], r["final"]):
                beh = beh_table(custom, raise_on)
                if not custom:
                    want = [e for e in c["events"] if beh[e] == 0]
                    if not alive or handled != want:
                        chk.monitor_failure("listener_isolation", {"custom": False},
                                            "a listener with the default on_event died or missed/reordered events "
                                            "because of its own or another listener's failures",
                                            {"case": c, "observed": r, "expected_handled": want})
    if rows:
        chk.sample({"dispatch_case": rows[0][0], "observed": rows[0][1]})
    shards = [rows[i:i + 300] for i in range(0, len(rows), 300)]

    def g_dcase(c, r):
        ls = g_list([f"({g_bool(cu)}, {g_list([g_z(x) + '%Z' for x in beh_table(cu, ro)])}, "
                     f"{g_list([str(d) for d in di])})" for cu, ro, di in c["listeners"]])
        fin = g_list([f"({g_bool(a)}, {g_list([str(x) for x in h])})" for a, h in r["final"]])
        return (f"(mkDCase {ls} {g_list([str(e) for e in c['events']])} "
                f"{g_list([g_z(x) + '%Z' for x in r['sender']])} {fin})")

    texts = ["From Coq Require Import ZArith List Bool.\nImport ListNotations.\n"
             "From Common Require Import Cases.\nFrom Actors Require Import Dispatch.\nOpen Scope nat_scope.\n"
             "Definition cases : list dcase :=\n " + g_list([g_dcase(c, r) for c, r in sh]) + ".\n"
             "Eval vm_compute in mismatches dispatch_ok cases.\n" for sh in shards]
    for sh, (rc, out) in zip(shards, vlib.coq_eval_many(AREA, texts)):
        bad = vlib.parse_nat_list(out)
        if rc != 0 or bad is None:
            ok = False
            chk.corr_failure("dispatch", {"shard": "coq evaluation failed"}, out[-1500:])
            continue
        for i in bad:
            ok = False
            chk.corr_failure("dispatch", {"case": sh[i][0], "observed": sh[i][1]})
    chk.obligation("corr:dispatch", "correspondence", ok and bool(rows))


# ---------------------------------------------------------------------------------------
# stage 4: shutdown correspondence


def canon(case):
    """Outcomes after the first interrupt are never consulted: normalise them to OK."""
    c = dict(case)
    cut = (c["hm"] and c["om"] in (INTR, LATE)) or c["oa"] in (DECL, OTHER, INTR, LATE) \
        or (c["oa"] == DIES and c["early"])
    obs = []
    for o in c["obs"]:
        obs.append(OK if cut else o)
        cut = cut or o in (INTR, LATE)
    c["obs"] = obs
    if cut:
        c["oc"] = OK
    cut = cut or c["oc"] != OK
    ofs = []
    for o in c["ofs"]:
        ofs.append(OK if cut else o)
        cut = cut or o in (INTR, LATE)
    c["ofs"] = ofs
    if not c["hm"]:
        c["om"] = OK
    if c["oa"] != DIES:
        c["early"] = 0
    return c


def case_key(c):
    return (c["hm"], c["om"], c["oa"], c["early"], tuple(c["obs"]), c["oc"], tuple(c["ofs"]), c["ol"], c["restore"])


def mk_case(hm=1, om=OK, oa=OK, early=0, obs=(), oc=OK, ofs=(), ol=0, restore=1):
    return {"hm": hm, "om": om, "oa": oa, "early": early, "obs": list(obs), "oc": oc, "ofs": list(ofs),
            "ol": ol, "restore": restore}


def corpus_cases():
    cs = [
        mk_case(obs=[OK, OK], ofs=[OK, OK]),
        mk_case(hm=0, obs=[OK], ofs=[OK]),
        mk_case(om=DIES, obs=[DECL, DIES, OK], ofs=[OTHER, DIES, OK], ol=1),
        mk_case(om=DECL, obs=[OK], ofs=[OK], ol=2),
        mk_case(om=INTR, obs=[OK], ofs=[OK]),
        mk_case(oa=DECL, obs=[OK], ofs=[OK]),
        mk_case(oa=OTHER, obs=[OK], ofs=[OK]),
        mk_case(oa=DIES, early=1, obs=[OK], ofs=[OK]),
        mk_case(oa=DIES, early=0, obs=[OK], ofs=[OK]),
        mk_case(oa=INTR, obs=[OK], ofs=[OK]),
        mk_case(obs=[OK, INTR, OK], ofs=[OK]),
        mk_case(obs=[OK], oc=DECL, ofs=[OK]),
        mk_case(obs=[OK], oc=OTHER, ofs=[OK]),
        mk_case(obs=[OK], oc=DIES, ofs=[OK]),
        mk_case(obs=[OK], oc=INTR, ofs=[OK]),
        mk_case(obs=[OK], ofs=[OK, INTR, OK]),
        mk_case(obs=[], ofs=[], restore=0),
        mk_case(obs=[DIES, DIES], ofs=[DIES, DIES], restore=1, ol=1),
        mk_case(obs=[OK], oc=LATE, ofs=[OK]),
        mk_case(om=LATE, obs=[OK], ofs=[OK]),
        mk_case(oa=LATE, obs=[OK], ofs=[OK]),
        mk_case(obs=[OK, LATE, OK], ofs=[OK]),
        mk_case(obs=[OK], ofs=[OK, LATE, OK]),
    ]
    d = vlib.VERIF / "corpus" / "C18"
    if d.is_dir():
        for f in sorted(d.glob("*.json")):
            try:
                obj = json.loads(f.read_text())
                for c in obj if isinstance(obj, list) else [obj]:
                    cs.append(mk_case(**{k: c[k] for k in c if k in mk_case.__code__.co_varnames}))
            except (ValueError, TypeError, KeyError):
                continue
    return cs


def random_case(rng):
    nb, nf = rng.randint(0, 3), rng.randint(0, 3)
    w = [(OK, 5), (DECL, 1.2), (OTHER, 1.2), (DIES, 1.2), (INTR, 0.4), (LATE, 0.4)]
    wa = [(OK, 14), (DECL, 1), (OTHER, 1), (DIES, 1.5), (INTR, 0.5), (LATE, 1)]
    return mk_case(hm=int(rng.random() < 0.8), om=rng.weighted(w), oa=rng.weighted(wa), early=rng.randint(0, 1),
                   obs=[rng.weighted(w) for _ in range(nb)], oc=rng.weighted(wa),
                   ofs=[rng.weighted(w) for _ in range(nf)], ol=rng.randint(0, 2), restore=int(rng.random() < 0.7))


def exhaustive_cases():
    """Every outcome assignment to mixer, <=2 backends, <=2 frontends (n <= 5 components, so
    in particular all 2^n failure subsets for each failure kind), every loop exit, restore on/off."""
    out = []
    for nb in range(3):
        for nf in range(3):
            for hm in (0, 1):
                for om in (range(6) if hm else [OK]):
                    for obs in itertools.product(range(6), repeat=nb):
                        for ofs in itertools.product(range(6), repeat=nf):
                            for ol in range(3):
                                for restore in (0, 1):
                                    out.append(mk_case(hm=hm, om=om, obs=obs, ofs=ofs, ol=ol, restore=restore))
    # audio and core outcomes too (one backend, one frontend)
    for oa in range(6):
        for early in ((0, 1) if oa == DIES else (0,)):
            for oc in range(6):
                for om in (OK, DIES, LATE):
                    for ob in range(6):
                        for of in range(6):
                            for ol in (0, 1):
                                out.append(mk_case(om=om, oa=oa, early=early, obs=[ob], oc=oc, ofs=[of], ol=ol))
    return out


def g_case(c, r):
    o = (f"(mkOracle {g_bool(c['hm'])} (outcome_of_code {c['om']}) (outcome_of_code {c['oa']}) {g_bool(c['early'])} "
         f"(map outcome_of_code {g_list([g_z(x) for x in c['obs']])}) (outcome_of_code {c['oc']}) "
         f"(map outcome_of_code {g_list([g_z(x) for x in c['ofs']])}) (loop_of_code {c['ol']}) {g_bool(c['restore'])})")
    b = (f"(mkObs {g_z(r['status'])} {g_list([g_z(x) for x in r['stops']])} {g_z(r['saves'])} {g_z(r['left'])} "
         f"{g_list([g_z(x) for x in r['starts']])} {g_list([g_z(x) for x in r['died']])})")
    return f"({o}, {b})"


CASES_HEADER = (
    vlib.COQ_HEADER
    + "From Common Require Import Cases.\nFrom Actors Require Import Shutdown.\n"
)
CASES_FOOTER = (
    "Definition corr (c : oracle * obs) : bool := obs_eqb (model_obs (fst c)) (snd c).\n"
    "Definition m_order (c : oracle * obs) : bool := stop_order_ok_b (map cls_of_code (ob_stops (snd c))).\n"
    "Definition m_saves (c : oracle * obs) : bool :=\n"
    "  (ob_saves (snd c) =? (if o_restore (fst c) && core_running (fst c) then 1 else 0)).\n"
    "Definition m_left (c : oracle * obs) : bool := (ob_left (snd c) =? 0).\n"
    "Definition m_status (c : oracle * obs) : bool := (ob_status (snd c) =? 0) || (ob_status (snd c) =? 1).\n"
    "Definition m_balance (c : oracle * obs) : bool := balance_ok_b (snd c).\n"
    "Definition m_all (c : oracle * obs) : bool := monitor_ok_b (fst c) (snd c).\n"
    "Eval vm_compute in mismatches corr cases.\n"
    "Eval vm_compute in mismatches m_order cases.\n"
    "Eval vm_compute in mismatches m_saves cases.\n"
    "Eval vm_compute in mismatches m_left cases.\n"
    "Eval vm_compute in mismatches m_status cases.\n"
    "Eval vm_compute in mismatches m_balance cases.\n"
    "Eval vm_compute in mismatches m_all cases.\n"
)


def describe(c):
    def names(l):
        return [OUTCOME_NAME[x] for x in l]
    return {"mixer": ("none" if not c["hm"] else OUTCOME_NAME[c["om"]]), "audio": OUTCOME_NAME[c["oa"]],
            "audio_dead_before_proxy": bool(c["early"]), "backends": names(c["obs"]), "core": OUTCOME_NAME[c["oc"]],
            "frontends": names(c["ofs"]), "main_loop": LOOP_NAME[c["ol"]], "restore_state": bool(c["restore"]),
            "oracle": c}


def shape(c):
    """Coarse call shape used as known-finding key: which kinds of outcome occur."""
    kinds = sorted({OUTCOME_NAME[x] for x in ([c["om"]] if c["hm"] else []) + c["obs"] + c["ofs"]} - {"ok"})
    return {"failures": "+".join(kinds) or "none", "audio": OUTCOME_NAME[c["oa"]], "core": OUTCOME_NAME[c["oc"]],
            "loop": LOOP_NAME[c["ol"]]}


def evaluate_shutdown(chk, cases, results, label):
    """Compare model and implementation inside Coq; evaluate the monitors. Returns corr_ok."""
    rows = []
    corr_ok = True
    for i, c in enumerate(cases):
        r = results.get(i)
        if r is not None and r.get("skipped"):
            chk.dist("skipped_after_hangs")
            continue
        if r is None or "hang" in r:
            chk.monitor_failure("shutdown_hang", {**shape(c)},
                                "RootCommand.run did not return (watchdog): a component never stopped",
                                {"case": describe(c), "detail": (r or {}).get("hang")})
            continue
        if "harness_error" in r:
            corr_ok = False
            chk.corr_failure(f"shutdown-{label}", describe(c), r["harness_error"] + r.get("tb", ""))
            continue
        rows.append((c, r))
        # implementation-only monitors
        if r["threads_left"]:
            chk.monitor_failure("threads_left", shape(c), "threads still alive after RootCommand.run returned",
                                {"case": describe(c), "threads": r["threads_left"]})
        if r["escaped"] is not None:
            chk.monitor_failure("exit_status", {**shape(c), "escaped": r["escaped"]},
                                f"RootCommand.run raised {r['escaped']} instead of returning an exit status",
                                {"case": describe(c), "observed": r})
        if (r["saves"] >= 1) != bool(r["state_file"]):
            chk.monitor_failure("state_saved", {**shape(c), "file": r["state_file"]},
                                "state save count and presence of state.json.gz disagree",
                                {"case": describe(c), "observed": r})
    shards = [rows[i:i + 500] for i in range(0, len(rows), 500)]
    texts = [CASES_HEADER + "Definition cases : list (oracle * obs) :=\n " + g_list([g_case(c, r) for c, r in sh])
             + ".\n" + CASES_FOOTER for sh in shards]
    outs = vlib.coq_eval_many(AREA, texts)
    mon_names = ["stop_order", "state_saved", "registry_empty", "exit_status", "start_stop_balance"]
    for sh, (rc, out) in zip(shards, outs):
        lists = vlib.parse_all_lists(out)
        if rc != 0 or len(lists) != 7:
            corr_ok = False
            chk.corr_failure(f"shutdown-{label}", {"shard": "coq evaluation failed"}, out[-1500:])
            continue
        for i in lists[0]:
            corr_ok = False
            c, r = sh[i]
            chk.corr_failure(f"shutdown-{label}", {"case": describe(c), "observed": r})
        flagged = set()
        for k, name in enumerate(mon_names):
            for i in lists[1 + k]:
                c, r = sh[i]
                flagged.add(i)
                what = {
                    "stop_order": "actors did not stop in the order frontends, core, backends, audio, mixer",
                    "state_saved": "state was not saved exactly once iff restore_state is on and a core actor was "
                                   "running at shutdown",
                    "registry_empty": "actors were still registered when RootCommand.run returned",
                    "exit_status": "RootCommand.run did not return an exit status in {0, 1}",
                    "start_stop_balance": "a registered actor neither died in on_start nor was stopped exactly once",
                }[name]
                chk.monitor_failure(name, shape(c), what, {"case": describe(c), "observed": r})
        for i in lists[6]:
            if i not in flagged:
                c, r = sh[i]
                chk.monitor_failure("monitor_ok_b", shape(c), "monitor_ok_b false", {"case": describe(c), "observed": r})
    return corr_ok


def shutdown_stage(chk):
    cases = [canon(c) for c in corpus_cases()]
    n_rand = 900 if chk.tier == "quick" else 6000
    cases += [canon(random_case(chk.rng)) for _ in range(n_rand)]
    if chk.tier == "thorough":
        cases += [canon(c) for c in exhaustive_cases()]
        chk.exhaustive = True
        chk.notes.append("thorough: every outcome assignment to mixer, <=2 backends, <=2 frontends x loop exit x restore")
    seen, uniq = set(), []
    for c in cases:
        k = case_key(c)
        if k not in seen:
            seen.add(k)
            uniq.append(c)
    cases = uniq
    results = run_parallel("shutdown", cases, per_case_timeout=40)
    for i, c in enumerate(cases):
        nfail = sum(1 for x in ([c["om"]] if c["hm"] else []) + c["obs"] + c["ofs"] + [c["oa"], c["oc"]] if x != OK)
        r = results.get(i) or {}
        if r.get("skipped"):
            continue
        chk.count(1, nontrivial_key=case_key(c) if (nfail >= 1 and r.get("stops")) else None)
        chk.dist(f"failures={min(nfail, 4)}{'+' if nfail >= 4 else ''}")
        chk.dist(f"loop={LOOP_NAME[c['ol']]}")
        allo = c["obs"] + c["ofs"] + [c["om"], c["oa"], c["oc"]]
        if INTR in allo or LATE in allo:
            chk.dist("interrupt_during_startup")
        if i in (0, 2):
            chk.sample({"shutdown_case": describe(c), "observed": {k: r.get(k) for k in
                                                                   ("status", "stops", "saves", "left", "loop")}})
    corr_ok = evaluate_shutdown(chk, cases, results, "run")
    chk.obligation("corr:shutdown-run", "correspondence", corr_ok)

    def search(cf):
        case = (cf.get("case") or {}).get("case", {}).get("oracle")
        if not case:
            return None
        variants = []
        for ol in range(3):
            for restore in (0, 1):
                v = dict(case, ol=ol, restore=restore)
                variants.append(v)
                for j in range(len(case["ofs"])):
                    variants.append(dict(v, ofs=case["ofs"][:j] + [OK] + case["ofs"][j + 1:]))
                for j in range(len(case["obs"])):
                    variants.append(dict(v, obs=case["obs"][:j] + [OK] + case["obs"][j + 1:]))
        variants = [canon(v) for v in variants][:120]
        sub = vlib.Check(chk.prop, chk.area, tier=chk.tier, seed=chk.seed)
        evaluate_shutdown(sub, variants, run_parallel("shutdown", variants, 40), "search")
        return sub.monitor_failures[0] if sub.monitor_failures else None

    chk.search_hook = search


def replay_stage(chk):
    obj = json.loads(Path(chk.replay).read_text())
    case = obj.get("case", {})
    oracle = (case.get("case") or {}).get("oracle") or case.get("oracle")
    if oracle:
        cases = [canon(mk_case(**oracle))]
        evaluate_shutdown(chk, cases, run_parallel("shutdown", cases, 40), "replay")
        chk.count(1, nontrivial_key=case_key(cases[0]))
        chk.obligation("corr:shutdown-run", "correspondence", not chk.corr_failures)
    else:
        waitfor_stage(chk)


def run(chk):
    chk.rule = ("one evaluation = one blocking call site of the translated sources, one concurrent run of the real "
                "actor stack, or one execution of the real RootCommand.run; non-trivial = a blocking site, a "
                "concurrent run, or a shutdown case with >=1 start-up failure/interrupt and >=1 actor actually "
                "stopped; distinct by (file,line,pair) / (seed,clients) / oracle tuple")
    chk.trusted_base = [
        "Coq 8.16.1 kernel + vm_compute (no native_compute)",
        "harness/c18_edges.py: AST translator (file/class -> waiter component, receiver expression -> awaited "
        "component); fail-closed to Unknown; cross-checked by the instrumented dynamic runs",
        "harness/c18_rt.py: scripted GStreamer elements, scripted mixer/backend/frontend classes with scripted "
        "failures, scripted GLib.MainLoop, pykka instrumentation (ActorRef.ask, ThreadingFuture.get, Actor._stop)",
        "pykka 4.4.2 semantics (mailbox FIFO, future, registry, stop) modelled in WaitFor.v/Shutdown.v, not verified",
    ]
    chk.assumptions = [
        "real thread schedules are sampled (watchdog-bounded runs); the theorems cover every schedule of the "
        "abstract actor semantics only",
        "handlers terminate and do not block on anything but futures of the modelled components (locks, sockets, "
        "GStreamer internals are outside the model)",
        "no KeyboardInterrupt arrives while the finally block of RootCommand.run is executing; stop() of every "
        "component returns (on_stop hooks terminate)",
        "extension code (third-party backends/frontends) is represented by its component class only",
    ]
    chk.proof_stage(PROP_FILES, thorough_coqchk=(chk.tier == "thorough"))
    if chk.replay:
        replay_stage(chk)
        return
    waitfor_stage(chk)
    pykka_stage(chk)
    dispatch_stage(chk)
    shutdown_stage(chk)
    import c18_shared

    c18_shared.no_component_left_running(chk, prop="C18")
    c18_shared.saved_session_survives_interrupted_start(chk, prop="C18")
    c18_shared.shutdown_with_misbehaving_components(chk, prop="C18")
    c18_shared.state_saved_after_failed_restore(chk, prop="C18")
    c18_shared.stops_complete_per_instance(chk, prop="C18")
