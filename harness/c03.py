"""C03 - track selection follows the documented modes and its own predictions."""
import core_check

AREA = "Core"


def run(chk):
    chk.rule = ("settled runs (playable tracks; a second family with some unplayable entries) in which get_next/previous/eot_tlid is asked right "
                "before next()/previous()/about-to-finish and compared with the track that is current "
                "after the notifications settled (all 16 mode combinations, duplicates, every position), "
                "plus arbitrary schedules for the consume-off frame rule and whole random passes (once per pass); non-trivial = at least two "
                "track_playback_started events; distinct by op sequence")
    core_check.run_core(chk, "C03", [("settled", 5), ("settledf", 2), ("schedule", 2), ("randompass", 2), ("faults", 1)], ["Property_C03.v"])
    if not chk.replay:
        # provider methods failing outside the modelled environment (monitor-only, real Core)
        import core_faulty

        core_faulty.run_stage(chk, "C03", runtime_faults=False)
