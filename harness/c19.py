"""C19 - playlists saved to disk read back identically and are replaced atomically.

1. text layer: translator.dump_items / load_items vs Files/M3u.v (dump_items, load_items)
   on generated item lists (line-safe stream + malformed stream) and hand-written files.
2. provider layer: sequences of create/save(+rename)/lookup/get_items/as_list/delete on the
   real M3UPlaylistsProvider (.m3u8, and .m3u with several encodings) vs the model's
   `run_case`, observation and directory after every step; monitors = the property clauses
   evaluated on the real run (round trip, name, listed once, delete exact).
3. atomic replace: the real `save`/`create` under strace -> crash_atomic_b / protocol_shape_b
   in Coq; SIGKILL and errno injection at every file-system call -> directory vs kernel
   model (byte for byte) and vs the property.
"""
from __future__ import annotations

import io
import json
import os
import shutil
import tempfile
import urllib.parse
from concurrent.futures import ThreadPoolExecutor
from pathlib import Path

import files_trace as ft
from common import vlib
from common.vlib import g_bool, g_list, g_opt, g_str, g_z
from files_trace import g_bytes

AREA = "Files"
PROP_FILES = ["Property_C19.v"]
CORPUS = vlib.VERIF / "corpus" / "C19"
COQ_IMPORTS = (vlib.COQ_HEADER + "From Common Require Import Str Res Cases.\n"
               "From Files Require Import AtomicFile M3u.\n")

# ---------------------------------------------------------------------------- generators

# the same text in different Unicode normalisation forms (precomposed / decomposed /
# singleton equivalents): DIFFERENT names, hence different playlists
NORMALIZATION_PAIRS = [("caf\u00e9", "cafe\u0301"), ("\u00c5ngstr\u00f6m", "A\u030angstro\u0308m"), ("\u212b", "\u00c5"),
                       ("\u2126 mega", "\u03a9 mega"), ("\ud55c\uae00", "\u1112\u1161\u11ab\u1100\u1173\u11af"),
                       ("\u1e69", "s\u0323\u0307"), ("\u00f1o", "n\u0303o")]
# compatibility characters that turn into '/', '.', '..', '\\', blanks or ASCII under NFKC/NFKD
COMPAT_NAMES = ["a\uff0fb", "\u2024\u2024", "\uff0e\uff0e\uff0fup", "\uff3cback", "\ufe52dot", "\u3000wide space\u3000",
                "\u00a0nbsp\u00a0", "\ufb01ligature", "\uff11\uff12", "x\u2025y", "\u2024hidden", "\u2215div", "a\u2044b"]
ENCODING_SPELLINGS = ["utf8", "utf_8", "UTF-8", "Utf8", "utf-8-sig", "utf-16", "utf-16-le", "utf_16_be", "utf-32", "U8",
                      "iso8859-15", "ISO-8859-1", "latin_1", "cp437", "koi8-r", "mac-roman", "us-ascii"]
NAME_ATOMS = ["My", "Playlist", "Vol", "2", ".", ".", " ", "/", "|", "ä", "☃", "é", "x", "Mix", "-", "_", "#", "?", "%",
              "&", "m3u", "m3u8", ",", "Ω", " ", "日本", "a", "B"]
NAME_FIXED = ["My.Playlist", "Vol. 2", "a/b", ".hidden", "x.", "ä ö", "☃", " lead", "trail ", "a.b.c", "plain",
              "q?x#y", "100%", "a|b", "..", ".", "x.m3u", "x.m3u8", "ünï.cödé", "/abs", "a//b", "..|..|etc",
              "tab\there", "Best of 80's", "v1.0.2 final", " ", " . ", " .. "] + [x for pair in NORMALIZATION_PAIRS for x in pair] + COMPAT_NAMES
URI_FIXED = ["dummy:a", "dummy:track:1", "file:///music/a%20b.mp3", "http://example.com/s?x=1&y=2#frag",
             "spotify:track:6rqhFgbbKwnb9MLmUQDhG6", "local:track:ä/ö.flac", "yt:https://youtu.be/x", "x-y+z.1:opaque",
             "file:///x y", "HTTP://UPPER/", "a:", "dummy:with,comma", "dummy:☃", "mms://h/p", "file:///m3u/#EXTINF"]
URI_BAD = ["relative/path.mp3", "noscheme", " dummy:lead", "dummy:trail ", "#dummy:x", "dum\nmy:x", "dummy:x\r", "",
           "http://[bad", "1abc:x", ":x", "/abs/file.mp3", "dummy:x\ny:z", "du\tmmy:x", "\x01dummy:x", "é:x", "-a:b",
           # local paths (no scheme): joined with base_dir, normalised, percent-encoded
           "a/../b.mp3", "../up.mp3", "./x/./y.mp3", "//double/root.mp3", "///triple.mp3", "dir/", "é/ü ö.flac",
           "a b/c%d.mp3", "x/..", "..", "/", "a//b", ".hidden", "name.with.dots.mp3", "a?b#c.mp3", "../../../etc/passwd",
           "trailing.", "日本/曲.ogg", "~user/x", "a/b/../../../c"]
TNAME_FIXED = [None, None, "Song", "T, 1", "a,b,c", "Ω mega", "#hash", "x" * 300, "日本語", "a:b", "dots..."]
TNAME_BAD = ["", " lead", "trail ", "two\nlines", "cr\rx", " em", "x ", "\t"]


def gen_name(rng):
    k = rng.random()
    if k < 0.45:
        return rng.choice(NAME_FIXED)
    if k < 0.5:
        return "L" * rng.choice([120, 250, 300])
    return "".join(rng.choice(NAME_ATOMS) for _ in range(rng.randint(1, 6)))


def gen_item(rng, safe):
    if safe or rng.random() < 0.7:
        u = rng.choice(URI_FIXED) if rng.random() < 0.7 else rng.choice(["dummy:", "file:///", "x:"]) + gen_name(rng).strip().replace("\n", "")
        if not u.strip() == u or not u:
            u = "dummy:z"
    else:
        u = rng.choice(URI_BAD)
    if safe or rng.random() < 0.7:
        n = rng.choice(TNAME_FIXED) if rng.random() < 0.8 else (gen_name(rng).rstrip() or None)
    else:
        n = rng.choice(TNAME_BAD)
    return (u, n)


def gen_items(rng, safe):
    k = rng.weighted([(0, 1), (1, 2), (3, 4), (8, 2), (50, 0.3)])
    return [gen_item(rng, safe) for _ in range(rng.randint(0, k))]


def py_line_safe(it):
    """Python mirror of M3u.line_safe_b (hypothesis of C19_dump_load_inverse)."""
    u, n = it
    if "\n" in u or "\r" in u or u.strip() != u or not u or u.startswith("#"):
        return False
    try:
        if not urllib.parse.urlsplit(u).scheme:
            return False
    except ValueError:
        return False
    if n is not None and (n == "" or "\n" in n or "\r" in n or n.rstrip() != n):
        return False
    return True


def g_item(it):
    return f"({g_str(it[0])}, {g_opt(it[1], g_str)})"


def g_items(items):
    return g_list([g_item(i) for i in items])


# ---------------------------------------------------------------------------- oracle tables


def line_tables(texts, base_dir):
    """raises / locals tables for every stripped non-comment line of the given texts."""
    from mopidy.m3u import translator

    raises, local = [], {}
    seen = set()
    for text in texts:
        for raw in io.StringIO(text, newline=None):
            line = raw.strip()
            if not line or line.startswith("#") or line in seen:
                continue
            seen.add(line)
            try:
                scheme = urllib.parse.urlsplit(line).scheme
            except ValueError:
                raises.append(line)
                continue
            if not scheme:
                try:
                    p = Path(base_dir) / line
                    local[line] = (translator.path_to_uri(p, scheme="file"), translator.name_from_path(p))
                except Exception:  # noqa: BLE001 - e.g. embedded NUL: leave without oracle
                    raises.append(line)
    g_r = g_list([g_str(x) for x in raises])
    g_l = g_list([f"({g_str(k)}, ({g_str(v[0])}, {g_opt(v[1], g_str)}))" for k, v in local.items()])
    return g_r, g_l


# ---------------------------------------------------------------------------- 1. text layer

HAND_TEXTS = [
    "", "\n\n", "#EXTM3U\n", "#EXTM3U\n#EXTINF:-1,A\ndummy:a\n", "#EXTINF:-1,A\r\ndummy:a\r\ndummy:b\r",
    "#EXTINF:123,Name, with comma\ndummy:a\n#EXTINF\ndummy:b\n", "# comment\n  dummy:a  \n\t\n#EXTINF:-1,\ndummy:b",
    "#EXTINF:-1,N\n#EXTINF:-1,M\ndummy:a\ndummy:b\n", "song.mp3\n#EXTINF:-1,Given\nsub/dir/song2.mp3\n/abs/x.ogg\n",
    "#EXTINF:-1,N\n# other\n\ndummy:a\n", "dummy:a\x0bdummy:b\x1cdummy:c\n", "﻿#EXTM3U\ndummy:a\n",
    "#EXTINF:-1 no comma\ndummy:a\n", "http://[::1]/x\nhttp://[bad/x\n",
    "a/../b.mp3\n../up.mp3\n//double/root.mp3\n///triple\n/\n..\n./x/./y\n#EXTINF:-1,Named\nrel dir/é.flac\n.hidden\ntrailing.\n",
]


def text_stage(chk):
    from mopidy.m3u import translator
    from mopidy.models import Ref

    n = 1200 if chk.tier == "quick" else 15000
    base_dir = "/verif-base"
    cases = []  # (items, text, loaded|"raise:X", safe)
    for i in range(n):
        safe = chk.rng.random() < 0.6
        items = gen_items(chk.rng, safe)
        buf = io.StringIO()
        refs = [Ref.track(uri=u, name=nm) for u, nm in items]
        translator.dump_items(refs, buf)
        text = buf.getvalue()
        cases.append((items, text))
    for t in HAND_TEXTS:
        cases.append((None, t))
    for f in sorted(CORPUS.glob("text_*.json")) if CORPUS.exists() else []:
        cases.append((None, json.loads(f.read_text())["text"]))
    rows = []
    for items, text in cases:
        try:
            got = translator.load_items(io.StringIO(text, newline=None), Path(base_dir))
            loaded = [(r.uri, r.name) for r in got]
        except Exception as e:  # noqa: BLE001
            loaded = "raise:" + type(e).__name__
        all_safe = items is not None and all(py_line_safe(it) for it in items)
        chk.count(1, nontrivial_key=text if (items and len(items) > 0) or items is None else None)
        chk.dist("text:" + ("hand" if items is None else "safe" if all_safe else "unsafe"))
        if items is not None:
            chk.dist(f"text:items<={[0, 1, 3, 8, 50][sum(len(items) > b for b in [0, 1, 3, 8])]}")
        if all_safe and loaded != items:
            chk.monitor_failure("dump_load_inverse", {"call": "load_items(dump_items(items))"},
                                "line-safe items do not read back identically",
                                {"items": items, "text": text, "loaded": loaded})
        rows.append((items, text, loaded, all_safe))
    for items, text, loaded, s in rows[:2]:
        chk.sample({"items": items, "text": text, "loaded": loaded})
    shards = [rows[i:i + 150] for i in range(0, len(rows), 150)]
    texts = []
    for shard in shards:
        g_r, g_l = line_tables([t for _, t, _, _ in shard], base_dir)
        its = []
        for items, text, loaded, s in shard:
            lo = "None" if isinstance(loaded, str) else f"(Some {g_items(loaded)})"
            its.append(f"({g_opt(items, g_items)}, {g_str(text)}, {lo}, {g_bool(s)})")
        texts.append(
            COQ_IMPORTS
            + f"Definition raises : list str := {g_r}.\nDefinition locals : list (str * item) := {g_l}.\n"
            + f"Definition basedir : str := {g_str(base_dir)}.\n"
            + "Definition cases : list (option (list item) * str * option (list item) * bool) :=\n " + g_list(its) + ".\n"
            + "Definition ok (c : option (list item) * str * option (list item) * bool) : bool :=\n"
              "  let '(items, text, loaded, safe) := c in\n"
              "  match items with Some its => str_eqb (dump_items its) text &&\n"
              "      Bool.eqb (forallb (fun it => line_safe_b it && negb (mem_str (fst it) raises)) its) safe\n"
              "                 | None => true end &&\n"
              "  match load_items raises (local_table basedir (ulines text)) text, loaded with\n"
              "  | Ok l, Some l' => items_eqb l l'\n  | Raise LValueError, None => true\n  | _, _ => false end.\n"
            + "Eval vm_compute in mismatches ok cases.\n"
            + "Eval vm_compute in mismatches (fun kv : str * item => item_eqb (local_ref basedir (fst kv)) (snd kv)) locals.\n")
    ok = True
    ok_local = True
    for shard, (rc, out) in zip(shards, vlib.coq_eval_many(AREA, texts, jobs=14)):
        both = vlib.parse_all_lists(out)
        bad = both[0] if len(both) == 2 else None
        if rc != 0 or bad is None:
            ok = False
            chk.corr_failure("m3u_text", {"coq": "evaluation failed"}, out[-1500:])
            continue
        if both[1]:
            ok_local = False
            chk.corr_failure("m3u_local_ref", {"table_entries": both[1][:5], "shard_texts": [t for _, t, _, _ in shard if "/" in t][:3]},
                             "local_ref (model of basedir / line -> file: URI, default name) differs from the translator")
        for i in bad:
            ok = False
            items, text, loaded, s = shard[i]
            chk.corr_failure("m3u_text", {"items": items, "text": text, "impl_loaded": loaded, "py_safe": s})
    chk.obligation("corr:m3u_text", "correspondence", ok)
    chk.obligation("corr:m3u_local_ref", "correspondence", ok_local)
    codec_stage(chk, [t for _, t, _, _ in rows])


def codec_stage(chk, texts):
    """encode_repl / decode_repl (latin-1, ascii with errors='replace') vs Python's codecs on the
    dumped texts and on arbitrary byte strings."""
    rng = chk.rng
    sample = [t for t in texts if t][:: max(1, len(texts) // (300 if chk.tier == "quick" else 3000))]
    items = []
    meta = []
    for t in sample:
        for enc, cname in (("latin-1", "Latin1"), ("ascii", "Ascii")):
            b = t.encode(enc, "replace")
            raw = bytes(rng.randrange(256) for _ in range(rng.randint(0, 24)))
            items.append(f"({cname}, {g_str(t)}, {g_list([g_z(x) for x in b])}, "
                         f"{g_list([g_z(x) for x in raw])}, {g_str(raw.decode(enc, 'replace'))})")
            meta.append({"encoding": enc, "text": t[:80], "raw": raw.hex()})
            chk.count(1, nontrivial_key=("codec", enc, t) if any(ord(c) > 127 for c in t) else None)
            chk.dist("codec:" + enc)
    shards = [items[i:i + 200] for i in range(0, len(items), 200)]
    texts_v = [COQ_IMPORTS
               + "Definition cases : list (codec * str * list Z * list Z * str) :=\n " + g_list(sh) + ".\n"
               + "Definition ok (c : codec * str * list Z * list Z * str) : bool :=\n"
                 "  let '(cd, t, enc, raw, dec) := c in\n"
                 "  str_eqb (encode_repl cd t) enc && str_eqb (decode_repl cd raw) dec.\n"
               + "Eval vm_compute in mismatches ok cases.\n" for sh in shards]
    ok = True
    for si, (rc, out) in enumerate(vlib.coq_eval_many(AREA, texts_v, jobs=14)):
        bad = vlib.parse_nat_list(out)
        if rc != 0 or bad is None:
            ok = False
            chk.corr_failure("m3u_codec", {"coq": "evaluation failed"}, out[-1200:])
            continue
        for i in bad:
            ok = False
            chk.corr_failure("m3u_codec", meta[si * 200 + i], "encode_repl/decode_repl differ from Python's codec")
    chk.obligation("corr:m3u_codec", "correspondence", ok)


# ---------------------------------------------------------------------------- 2. provider layer


def enc_for(fname, default):
    """the provider's choice: utf-8 iff pathlib's suffix of the file name is .m3u8"""
    from pathlib import PurePosixPath
    return "utf-8" if PurePosixPath(str(fname)).suffix == ".m3u8" else default


def codec(s, enc):
    return None if s is None else s.encode(enc, "replace").decode(enc, "replace")


def read_dir(d, default_enc):
    out = {}
    for name in sorted(os.listdir(d)):
        p = os.path.join(d, name)
        if os.path.isfile(p):
            enc = enc_for(name, default_enc)
            with open(p, "rb") as fh:
                out[name] = fh.read().decode(enc, "replace")
        else:
            out[name] = None
    return out


def simple(fname):
    return bool(fname) and "/" not in fname and fname not in (".", "..") and "\x00" not in fname


def provider_sequences(chk):
    import files_child
    from mopidy.m3u import translator
    from mopidy.models import Playlist, Track

    quick = chk.tier == "quick"
    n_cases = 220 if quick else 2500
    results = []
    for ci in range(n_cases):
        rng = chk.rng
        ext = rng.choice([".m3u8", ".m3u8", ".m3u"])
        # [m3u] default_encoding: any codec name Python knows, in any spelling
        enc = rng.choice(["latin-1", "utf-8", "cp1252", "ascii"] + ENCODING_SPELLINGS)
        chk.dist("provider:default_encoding=" + enc)
        root = Path(os.path.realpath(tempfile.mkdtemp(prefix="verif-c19-")))
        try:
            provider = files_child.make_provider({"ext": ext, "encoding": enc}, root)
            known = []  # uris returned so far
            steps = []
            for si in range(rng.randint(3, 9 if quick else 14)):
                kind = rng.weighted([("create", 3), ("save", 5), ("lookup", 2), ("get_items", 1),
                                     ("as_list", 1.5), ("delete", 1.2)])
                pick = (lambda: rng.choice(known) if known and rng.random() < 0.85 else
                        translator.path_to_uri(Path(gen_name(rng).strip().replace("/", "|") + rng.choice([".m3u", ".m3u8", ".txt", ""]))))
                before = read_dir(root, enc)
                step = {"kind": kind}
                try:
                    if kind == "create":
                        name = gen_name(rng)
                        if not name.strip() and rng.random() < 0.8:
                            name = "x" + name
                        step["name"] = name
                        r = provider.create(name)
                        step["obs"] = ("pl", r)
                    elif kind == "save":
                        uri = pick()
                        f = str(translator.uri_to_path(uri))
                        if not simple(f):
                            continue
                        newname = rng.choice([None, None, translator.name_from_path(Path(f))]) if rng.random() < 0.45 else gen_name(rng)
                        tracks = gen_items(rng, rng.random() < 0.8)
                        step.update(uri=uri, f=f, pname=newname, tracks=tracks)
                        pl = Playlist(uri=uri, name=newname, tracks=tuple(Track(uri=u, name=nm) for u, nm in tracks))
                        r = provider.save(pl)
                        step["obs"] = ("pl", r)
                    elif kind in ("lookup", "get_items"):
                        uri = pick()
                        f = str(translator.uri_to_path(uri))
                        if not simple(f):
                            continue
                        step.update(uri=uri, f=f)
                        if kind == "lookup":
                            step["obs"] = ("pl", provider.lookup(uri))
                        else:
                            r = provider.get_items(uri)
                            step["obs"] = ("items", None if r is None else [(x.uri, x.name) for x in r])
                    elif kind == "as_list":
                        step["obs"] = ("list", [(x.uri, x.name) for x in provider.as_list()])
                    else:
                        uri = pick()
                        f = str(translator.uri_to_path(uri))
                        if not simple(f):
                            continue
                        step.update(uri=uri, f=f)
                        step["obs"] = ("bool", provider.delete(uri))
                except Exception as e:  # noqa: BLE001
                    step["obs"] = ("raise", type(e).__name__)
                after = read_dir(root, enc)
                step["before"], step["after"] = before, after
                if step["obs"][0] == "pl" and step["obs"][1] is not None:
                    r = step["obs"][1]
                    if r.uri not in known:
                        known.append(r.uri)
                monitors(chk, provider, step, ext, enc, ci)
                steps.append(step)
            results.append({"ext": ext, "enc": enc, "steps": steps, "root": str(root)})
        finally:
            shutil.rmtree(root, ignore_errors=True)
    return results


def pl_tuple(pl, enc=None):
    from mopidy.m3u import translator

    return (str(translator.uri_to_path(pl.uri)), pl.name, [(t.uri, t.name) for t in pl.tracks])


def monitors(chk, provider, step, ext, enc, ci):
    """The clauses of the property evaluated on the real provider."""
    from mopidy.m3u import translator

    kind, obs = step["kind"], step["obs"]
    case = {k: step.get(k) for k in ("kind", "name", "uri", "pname", "tracks")} | {"ext": ext, "encoding": enc}
    if obs[0] == "raise":
        return  # exceptions are compared with the model (ORaise), the property does not speak about them
    if kind in ("create", "save") and obs[1] is not None:
        pl = obs[1]
        fenc = enc_for(translator.uri_to_path(pl.uri), enc)          # encoding used when it is read back
        wenc = enc_for(step["f"], enc) if kind == "save" else fenc      # encoding it was written with

        def through(x, we, re_):
            return None if x is None else x.encode(we, "replace").decode(re_, "replace")
        # (a) name: path separators replaced, otherwise the requested name
        want = None
        if kind == "create":
            want = step["name"].strip().replace("/", "|")
        elif (step["pname"] and step["pname"] != translator.name_from_path(Path(step["f"]))
              and Path(step["f"]).suffix in (".m3u", ".m3u8")):
            want = step["pname"].strip().replace("/", "|")
        if want is not None and want != "" and pl.name != want:
            chk.monitor_failure("name_kept", {"call": kind, "renamed": kind == "save"},
                                f"{kind} with name {want!r} produced a playlist named {pl.name!r}", case)
        # (b) round trip through lookup
        tracks = step.get("tracks", [])
        if all(py_line_safe(t) for t in tracks) and all(through(u, wenc, fenc) == u and through(n, wenc, fenc) == n for u, n in tracks):
            try:
                back = provider.lookup(pl.uri)
                got = None if back is None else [(t.uri, t.name) for t in back.tracks]
            except Exception as e:  # noqa: BLE001
                back, got = None, "raise:" + type(e).__name__
            if got != tracks or back.name != pl.name or back.uri != pl.uri:
                chk.monitor_failure("save_lookup", {"call": kind, "read_back": "raises" if isinstance(got, str) else "differs"},
                                    "saved playlist does not read back identically"
                                    + (f" (lookup {got})" if isinstance(got, str) else ""),
                                    case | {"read_back": got})
        # (c) listed exactly once
        uris = [r.uri for r in provider.as_list()]
        fname = str(translator.uri_to_path(pl.uri))
        blank = kind == "create" and not step["name"].strip() or \
            kind == "save" and bool(step["pname"]) and not step["pname"].strip()
        if (Path(fname).suffix in (".m3u", ".m3u8") or blank) and uris.count(pl.uri) != 1:
            chk.monitor_failure("listed_once", {"call": kind, "blank_name": blank, "count": uris.count(pl.uri)},
                                f"as_list shows {pl.uri!r} {uris.count(pl.uri)} times", case)
        # (d) uri <-> path round trip (the "possibly renamed URI")
        if translator.path_to_uri(translator.uri_to_path(pl.uri)) != pl.uri:
            chk.monitor_failure("uri_roundtrip", {"call": kind}, "path_to_uri(uri_to_path(uri)) != uri", case)
    if kind == "delete" and obs[1] is True:
        gone = set(step["before"]) - set(step["after"])
        changed = {k for k in step["after"] if step["after"][k] != step["before"].get(k)}
        if gone != {step["f"]} or changed or set(step["after"]) - set(step["before"]):
            chk.monitor_failure("delete_exact", {"call": "delete"}, "delete removed/changed something else",
                                case | {"gone": sorted(gone), "changed": sorted(changed)})
    # no temporary files after any operation
    extra = [k for k in step["after"] if k not in step["before"] and k.startswith("tmp")]
    if extra:
        chk.monitor_failure("no_temp_left", {"call": kind}, f"temporary files left: {extra}", case)


def g_pdir(d):
    return g_list([f"({g_str(k)}, {g_str(v)})" for k, v in sorted(d.items()) if v is not None])


def g_pl(t):
    return f"({g_str(t[0])}, {g_str(t[1])}, {g_items(t[2])})"


def distinct_names_stage(chk):
    """Distinct names -> distinct playlists: two names that differ (even only in their Unicode
    normalisation form) must end up in two files that do not overwrite each other, each read back
    under its own name."""
    import files_child
    from mopidy.models import Track

    pairs = list(NORMALIZATION_PAIRS) + [("a\uff0fb", "a/b"), ("\uff11", "1"), ("x\u3000y", "x y"), ("\ufb01", "fi"),
                                         ("\u2024", "."), ("A", "a")]
    for a, b in pairs:
        for ext, enc in ((".m3u8", "latin-1"), (".m3u", "utf-8"), (".m3u", "utf_8")):
            for how in ("create", "rename"):
                root = Path(os.path.realpath(tempfile.mkdtemp(prefix="verif-c19-")))
                try:
                    prov = files_child.make_provider({"ext": ext, "encoding": enc}, root)
                    made = []
                    for nm, tag in ((a, "A"), (b, "B")):
                        if how == "create":
                            pl = prov.create(nm)
                        else:
                            pl = prov.create("tmp-" + tag)
                            pl = pl and prov.save(pl.replace(name=nm))
                        pl = pl and prov.save(pl.replace(tracks=(Track(uri="dummy:" + tag, name=tag),)))
                        made.append(pl)
                    chk.count(1, nontrivial_key=("distinct", a, b, ext, how))
                    chk.dist("distinct-names:" + how)
                    case = {"names": [a, b], "escaped": [a.encode("unicode_escape").decode(), b.encode("unicode_escape").decode()],
                            "ext": ext, "how": how, "dir": sorted(os.listdir(root))}
                    want = [x.strip().replace("/", "|") for x in (a, b)]
                    if None in made:
                        continue
                    back = [prov.lookup(p.uri) for p in made]
                    problems = []
                    if want[0] != want[1]:
                        if made[0].uri == made[1].uri or len(os.listdir(root)) != 2:
                            problems.append("the two names share one file")
                        if [[t.uri for t in (x.tracks if x else ())] for x in back] != [["dummy:A"], ["dummy:B"]]:
                            problems.append("one playlist's tracks were overwritten by the other")
                        if len(prov.as_list()) != 2:
                            problems.append(f"as_list shows {len(prov.as_list())} playlists")
                    if [x and x.name for x in back] != want:
                        problems.append(f"names read back as {[x and x.name for x in back]!r}")
                    if problems:
                        chk.monitor_failure("distinct_names_distinct_playlists", {"call": how, "same_after_normalisation": True},
                                            "; ".join(problems), case)
                finally:
                    shutil.rmtree(root, ignore_errors=True)


def provider_stage(chk):
    distinct_names_stage(chk)
    results = provider_sequences(chk)
    terms, meta = [], []
    for res in results:
        enc = res["enc"]
        steps_g, texts = [], []
        usable = True
        for st in res["steps"]:
            kind, obs = st["kind"], st["obs"]
            chk.count(1, nontrivial_key=(kind, json.dumps({k: st.get(k) for k in ("name", "uri", "pname", "tracks")}, sort_keys=True, default=str)))
            chk.dist("op:" + kind)
            texts += [v for v in st["after"].values() if v is not None]
            fenc = enc_for(st.get("f", ""), enc)
            if kind == "save" and obs[0] == "pl" and obs[1] is not None and \
                    enc_for(pl_tuple(obs[1])[0], enc) != fenc:
                # a rename that changes the file's encoding class (only possible when a blank name
                # yields the suffix-less '.m3u8': the known finding): the bytes written as utf-8
                # are later read with the default encoding; the text-level model stops here
                chk.dist("provider:sequence-cut-at-encoding-changing-rename")
                break
            if kind == "create":
                op = f"PCreate {g_str(st['name'])}"
            elif kind == "save":
                tr = [(codec(u, fenc), codec(n, fenc)) for u, n in st["tracks"]]
                op = f"PSave {g_str(st['f'])} {g_opt(st['pname'], g_str)} {g_items(tr)}"
            elif kind == "lookup":
                op = f"PLookup {g_str(st['f'])}"
            elif kind == "get_items":
                op = f"PGetItems {g_str(st['f'])}"
            elif kind == "as_list":
                op = "PAsList"
            else:
                op = f"PDelete {g_str(st['f'])}"
            if obs[0] == "raise":
                ob = "ORaise"
            elif obs[0] == "pl":
                if obs[1] is None:
                    ob = "OPl None"
                else:
                    t = pl_tuple(obs[1])
                    e2 = enc_for(t[0], enc)
                    if kind in ("save", "create"):
                        t = (t[0], t[1], [(codec(u, e2), codec(n, e2)) for u, n in t[2]])
                    ob = f"OPl (Some {g_pl(t)})"
            elif obs[0] == "items":
                ob = "OItems " + g_opt(obs[1], g_items)
            elif obs[0] == "list":
                from mopidy.m3u import translator
                ob = "OList " + g_list([f"({g_str(str(translator.uri_to_path(u)))}, {g_str(n)})" for u, n in obs[1]])
            else:
                ob = f"OBool {g_bool(obs[1])}"
            if any(v is None for v in st["after"].values()):
                usable = False
            steps_g.append(f"({op}, {ob}, {g_pdir(st['after'])})")
        if not usable or not steps_g:
            continue
        g_r, g_l = line_tables(texts, res["root"])
        ext_g = "M3U8" if res["ext"] == ".m3u8" else "M3U"
        terms.append(f"({ext_g}, {g_r}, {g_l}, {g_list(steps_g)})")
        meta.append(res)
    for res in results[:2]:
        chk.sample({"ext": res["ext"], "enc": res["enc"],
                    "ops": [{k: s.get(k) for k in ("kind", "name", "uri", "pname")} for s in res["steps"]][:5]})
    shards = [terms[i:i + 25] for i in range(0, len(terms), 25)]
    texts = [COQ_IMPORTS
             + "Definition cases : list (str * list str * list (str * item) * list (pop * pobs * pdir)) :=\n " + g_list(s) + ".\n"
             + "Definition res (c : str * list str * list (str * item) * list (pop * pobs * pdir)) : Z :=\n"
               "  let '(ext, raises, locals, steps) := c in run_case (pstep ext raises locals) steps [] 0.\n"
             + "Eval vm_compute in map res cases.\n" for s in shards]
    ok = True
    for si, (rc, out) in enumerate(vlib.coq_eval_many(AREA, texts, jobs=14)):
        lst = vlib.parse_nat_list(out)
        if rc != 0 or lst is None or len(lst) != len(shards[si]):
            ok = False
            chk.corr_failure("m3u_provider", {"coq": "evaluation failed"}, out[-1500:])
            continue
        for i, k in enumerate(lst):
            if k >= 0:
                ok = False
                res = meta[si * 25 + i]
                st = res["steps"][k]
                chk.corr_failure("m3u_provider",
                                 {"ext": res["ext"], "enc": res["enc"], "step": k,
                                  "ops": [{x: s.get(x) for x in ("kind", "name", "uri", "pname", "tracks")} for s in res["steps"][:k + 1]],
                                  "impl_obs": repr(st["obs"])[:300], "impl_dir": {a: (b or "")[:80] for a, b in st["after"].items()}})
    chk.obligation("corr:m3u_provider", "correspondence", ok)


# ---------------------------------------------------------------------------- 3. atomic replace

ERRNOS = {"openat": ["ENOSPC", "EACCES"], "write": ["ENOSPC", "EIO"], "fsync": ["EIO"], "close": ["EIO"],
          "rename": ["EXDEV", "EACCES"], "unlink": ["EACCES"]}


class SaveScenario:
    def __init__(self, label, ext, enc, files, action, uri=None, name=None, tracks=(), create=None):
        self.label, self.ext, self.enc, self.files = label, ext, enc, files
        self.action, self.uri, self.name, self.tracks, self.create = action, uri, name, list(tracks), create

    def target(self):
        if self.uri:
            return os.fsencode(urllib.parse.unquote(self.uri.split(":", 1)[1]))
        return os.fsencode(self.create.strip().replace("/", "|") + self.ext)

    def key(self):
        return {"scenario": self.label, "ext": self.ext, "encoding": self.enc, "tracks": len(self.tracks),
                "rename": self.name}

    def run(self, inject=None):
        for attempt in range(3):
            r = self._run_once(inject)
            # under heavy load strace occasionally starts logging after the child was released
            # (no BEGIN marker in the log): such a run observed nothing; repeat it
            if not (r["error"] and "BEGIN marker not found" in r["error"] and attempt < 2):
                return r
        return r

    def _run_once(self, inject=None):
        root = Path(os.path.realpath(tempfile.mkdtemp(prefix="verif-c19-")))
        d = root / "pl"
        d.mkdir()
        try:
            for k, v in self.files.items():
                (d / k).write_bytes(v)
            spec = {"action": self.action, "dir": str(d), "ext": self.ext, "encoding": self.enc,
                    "uri": self.uri, "name": self.name if self.action == "m3u_save" else self.create,
                    "tracks": self.tracks}
            r = ft.run_action(spec, inject=inject)
            r["dir"] = os.fsencode(str(d))
            return r
        finally:
            shutil.rmtree(root, ignore_errors=True)


def expected_bytes(tracks, enc):
    from mopidy.m3u import translator
    from mopidy.models import Ref

    buf = io.StringIO()
    translator.dump_items([Ref.track(uri=u, name=n) for u, n in tracks], buf)
    return buf.getvalue().encode(enc, "replace")


def provider_view(sc, snap):
    """{playlist name: tuple of track URIs} as the real provider lists a directory holding `snap`
    (temporary-file names are replaced by a fixed token so that runs are comparable)."""
    import files_child

    root = Path(os.path.realpath(tempfile.mkdtemp(prefix="verif-c19-")))
    try:
        for k, v in snap.items():
            if not v.startswith(b"<dir>") and not v.startswith(b"<symlink>"):
                (root / os.fsdecode(k)).write_bytes(v)
        prov = files_child.make_provider({"ext": sc.ext, "encoding": sc.enc}, root)
        try:
            out = {}
            for ref in prov.as_list():
                items = prov.get_items(ref.uri)
                out[ref.name] = None if items is None else tuple(i.uri for i in items)
            return out
        except Exception as e:  # noqa: BLE001
            return "raise:" + type(e).__name__
    finally:
        shutil.rmtree(root, ignore_errors=True)


def atomic_stage(chk):
    quick = chk.tier == "quick"
    big = [(f"dummy:{i:05d}-{'x' * (i % 37)}", f"Track number {i}, ä") for i in range(450)]
    small = [("dummy:a", "A"), ("file:///b", None), ("dummy:c", "C, ☃")]
    old8 = "#EXTM3U\n#EXTINF:-1,Old\ndummy:old\n".encode()
    others = {"other.m3u8": b"dummy:keep\n", "zz.m3u": b"dummy:keep2\n"}
    scen = [
        SaveScenario("overwrite-small", ".m3u8", "latin-1", {"p.m3u8": old8, **others}, "m3u_save", "m3u:p.m3u8", None, small),
        SaveScenario("overwrite-big", ".m3u8", "latin-1", {"p.m3u8": old8}, "m3u_save", "m3u:p.m3u8", None, big),
        SaveScenario("new-file-m3u-latin1", ".m3u", "latin-1", dict(others), "m3u_save", "m3u:n.m3u", None, small),
        SaveScenario("create-over-existing", ".m3u8", "latin-1", {"p.m3u8": old8}, "m3u_create", create="p"),
        SaveScenario("save-and-rename", ".m3u8", "latin-1", {"p.m3u8": old8, **others}, "m3u_save", "m3u:p.m3u8", "Renamed.One", small),
    ]
    if not quick:
        scen += [
            SaveScenario("empty-tracks", ".m3u8", "utf-8", {"p.m3u8": old8}, "m3u_save", "m3u:p.m3u8", None, []),
            SaveScenario("overwrite-big-m3u", ".m3u", "cp1252", {"p.m3u": old8}, "m3u_save", "m3u:p.m3u", None, big * 3),
            SaveScenario("rename-onto-existing", ".m3u8", "latin-1", {"p.m3u8": old8, **others}, "m3u_save", "m3u:p.m3u8", "other", small),
            SaveScenario("create-new", ".m3u", "latin-1", dict(others), "m3u_create", create="brand new"),
        ]
    pool = ThreadPoolExecutor(max_workers=12)
    bases = list(pool.map(lambda s: s.run(), scen))
    jobs = []
    ok_trans = True
    for si, (sc, b) in enumerate(zip(scen, bases)):
        if b["error"] or not b["trace"]["complete"]:
            ok_trans = False
            chk.corr_failure("trace_translation", sc.key(), b["error"] or "END marker missing")
            continue
        for ai, att in enumerate(b["trace"]["attempts"]):
            jobs.append((si, "kill", ai))
            errs = ERRNOS.get(att["kind"], ["EIO"])
            for e in (errs[:1] if quick else errs):
                jobs.append((si, e, ai))
    results = list(pool.map(lambda j: scen[j[0]].run(inject=(bases[j[0]]["trace"]["attempts"][j[2]]["site"][0],
                                                              bases[j[0]]["trace"]["attempts"][j[2]]["site"][1], j[1])), jobs))
    pool.shutdown()

    listing, lmeta, base_terms, base_meta = [], [], [], []
    ren_terms, ren_meta = [], []
    pl_terms, pl_meta = [], []

    def g_files(d, snap):
        return g_list([f"({g_bytes(d + b'/' + k)}, {g_bytes(v)})" for k, v in sorted(snap.items())])

    def add_listing(sc, r, label):
        d, ops = r["dir"], r["trace"]["ops"]
        files = {os.fsencode(k): v for k, v in sc.files.items()}
        cands = sorted(set(ft.op_paths(ops)) | {d + b"/" + k for k in files})
        extra = [k for k in r["snapshot"] if d + b"/" + k not in cands]
        if extra:
            chk.corr_failure("kernel_model", {**sc.key(), "run": label}, f"files appeared that no traced call created: {extra!r}")
        listing.append(f"({ft.g_kops(ops)}, {g_files(d, files)}, {g_list([g_bytes(p) for p in cands])}, {g_files(d, r['snapshot'])})")
        lmeta.append({**sc.key(), "run": label, "trace": ft.describe(ops)})

    def classify(sc, snap):
        """-> (ok, description): the property on the directory after a crash/failure."""
        tgt = sc.target()
        old = sc.files.get(os.fsdecode(tgt))
        fenc = enc_for(os.fsdecode(tgt), sc.enc)
        new = expected_bytes(sc.tracks, fenc) if sc.action == "m3u_save" else b""
        problems = []
        cur = snap.get(tgt)
        newname = None
        if sc.action == "m3u_save" and sc.name:
            newname = os.fsencode(sc.name.strip().replace("/", "|") + os.fsdecode(tgt)[os.fsdecode(tgt).rfind("."):])
        if cur not in (old, new):
            if not (cur is None and newname and snap.get(newname) == new):
                problems.append(f"target {os.fsdecode(tgt)} is neither old nor new ({None if cur is None else len(cur)} bytes)")
        for k, v in sc.files.items():
            kb = os.fsencode(k)
            if kb in (tgt, newname):
                continue
            if snap.get(kb) != v:
                problems.append(f"other playlist {k} changed")
        if newname and newname != tgt and newname in snap and snap[newname] not in (new, sc.files.get(os.fsdecode(newname))):
            problems.append("renamed playlist has partial content")
        temps = [k for k in snap if k not in {os.fsencode(x) for x in sc.files} | {tgt} | ({newname} if newname else set())]
        return problems, temps

    for sc, b in zip(scen, bases):
        if b["error"] or not b["trace"]["complete"]:
            continue
        problems, temps = classify(sc, b["snapshot"])
        chk.count(1, nontrivial_key=("base", sc.label))
        chk.dist("atomic:baseline")
        chk.sample({**sc.key(), "trace": ft.describe(b["trace"]["ops"])})
        if problems or temps or b["status"].get("exit") != 0:
            chk.monitor_failure("save_completes", {"call": sc.action, "scenario": sc.label},
                                "a save without any fault did not produce the expected directory",
                                {**sc.key(), "problems": problems, "temps": [os.fsdecode(t) for t in temps], "exit": b["status"]})
        add_listing(sc, b, "baseline")
        if not (sc.action == "m3u_save" and sc.name):
            d = b["dir"]
            tgt = d + b"/" + sc.target()
            files = {os.fsencode(k): v for k, v in sc.files.items()}
            new = b["snapshot"].get(tgt[len(d) + 1:], b"")
            base_terms.append(f"({ft.g_kops(b['trace']['ops'])}, {g_files(d, files)}, {g_bytes(tgt)}, {g_bytes(new)})")
            base_meta.append((sc, b["trace"]))
        else:
            d = b["dir"]
            orig = d + b"/" + sc.target()
            suffix = os.fsdecode(sc.target())[os.fsdecode(sc.target()).rfind("."):]
            newp = d + b"/" + os.fsencode(sc.name.strip().replace("/", "|") + suffix)
            files = {os.fsencode(k): v for k, v in sc.files.items()}
            new = b["snapshot"].get(newp[len(d) + 1:], b"")
            ren_terms.append(f"({ft.g_kops(b['trace']['ops'])}, {g_files(d, files)}, {g_bytes(orig)}, {g_bytes(newp)}, {g_bytes(new)})")
            ren_meta.append((sc, b["trace"]))

    for (si, what, ai), r in zip(jobs, results):
        sc, b = scen[si], bases[si]
        att = b["trace"]["attempts"][ai]
        case = {**sc.key(), "inject": what, "at_call": ai, "call_kind": att["kind"], "baseline_trace": ft.describe(b["trace"]["ops"])}
        if r["error"]:
            ok_trans = False
            chk.corr_failure("trace_translation", case, r["error"])
            continue
        if r["trace"]["injected"] != att["index"] or (what == "kill") != r["trace"]["killed"]:
            ok_trans = False
            chk.corr_failure("injection_landed", case, f"fault landed at {r['trace']['injected']}, wanted {att['index']}")
            continue
        chk.count(1, nontrivial_key=(sc.label, what, ai))
        chk.dist("atomic:crash" if what == "kill" else "atomic:fault")
        chk.dist("atomic:at:" + att["kind"])
        add_listing(sc, r, f"{what}@{ai}")
        # what a client SEES after the crash / failure: as_list() + get_items() of the real provider on
        # the directory as it was left must be the old or the new listing -- no ghost playlist
        view = provider_view(sc, r["snapshot"])
        v_old, v_new = provider_view(sc, {os.fsencode(k): v for k, v in sc.files.items()}), provider_view(sc, b["snapshot"])
        chk.dist("atomic:listing-after-" + ("crash" if what == "kill" else "fault"))
        if isinstance(view, str) or (set(view) != set(v_old) and set(view) != set(v_new)) or \
                any(c not in list(v_old.values()) + list(v_new.values()) for c in view.values()):
            chk.monitor_failure(
                "listing_old_or_new", {"call": sc.action, "inject": "crash" if what == "kill" else "fault", "at": att["kind"]},
                f"{what} at call #{ai} ({att['kind']}): as_list() then shows {sorted(view) if not isinstance(view, str) else view}, "
                f"neither the old listing {sorted(v_old)} nor the new one {sorted(v_new)}",
                {**case, "files_left": sorted(os.fsdecode(k) for k in r["snapshot"])})
        problems, temps = classify(sc, r["snapshot"])
        if problems:
            chk.monitor_failure("replace_atomic", {"call": sc.action, "inject": "crash" if what == "kill" else "fault", "at": att["kind"]},
                                f"{what} at call #{ai} ({att['kind']}): " + "; ".join(problems), case)
        if what != "kill" and temps:
            chk.monitor_failure("handled_failure_clean", {"call": sc.action, "failed_call": att["kind"]},
                                f"{att['kind']} failing with {what}: temporary file(s) left: {[os.fsdecode(t) for t in temps]}", case)
        if what != "kill" and not (sc.action == "m3u_save" and sc.name):
            # power loss after a run in which a call FAILED: the playlist must still be the old or
            # the new one (a failing fsync must abandon the save, whatever save() reports)
            d = r["dir"]
            tgt = d + b"/" + sc.target()
            files = {os.fsencode(k): v for k, v in sc.files.items()}
            cur = r["snapshot"].get(sc.target())
            fenc2 = enc_for(os.fsdecode(sc.target()), sc.enc)
            new_r = expected_bytes(sc.tracks, fenc2) if sc.action == "m3u_save" else b""
            pl_terms.append(f"({ft.g_kops(r['trace']['ops'])}, {g_files(d, files)}, {g_bytes(tgt)}, {g_bytes(new_r)})")
            pl_meta.append(({**case, "trace_of_this_run": ft.describe(r["trace"]["ops"]), "exit": r["status"],
                             "save_reported_success": r["status"].get("exit") == 0}, r["trace"]["ops"],
                            {"call": sc.action, "run": "failing-call", "failed_call": att["kind"]}))

    import c11
    vals = c11._eval_values(
        chk, "powerloss", pl_terms,
        "Definition val (c : list kop * list (path * bytes) * path * bytes) : Z :=\n"
        "  let '(ops, files, t, new) := c in\n"
        "  match pl_first_bad_from (dinit_files files) ops t (old_of t files) new 0 with Some k => k | None => -1 end.\n",
        "list kop * list (path * bytes) * path * bytes")
    chk.obligation("eval:powerloss", "correspondence", vals is not None)
    for (case, ops, key), k in zip(pl_meta, vals or []):
        chk.count(1)
        chk.dist("atomic:powerloss:failing-call")
        if k >= 0:
            after = ops[k - 1][0] if k >= 1 else "start"
            chk.monitor_failure("powerloss_old_or_new", {**key, "bad_after": after},
                                f"power loss after call #{k} ({after}) of this run: the playlist would hold data that was never "
                                "fsynced, neither the complete old nor the complete new content", {**case, "first_bad_point": k})
    ok_listing = c11._eval_mismatches(
        chk, "kernel_model", listing, lmeta,
        "Definition ok (c : list kop * list (path * bytes) * list path * list (path * bytes)) : bool :=\n"
        "  let '(ops, files, cands, actual) := c in listing_ok ops files cands actual.\n",
        "list kop * list (path * bytes) * list path * list (path * bytes)")
    chk.obligation("corr:kernel_model", "correspondence", ok_listing and ok_trans)
    if base_terms:
        text = (COQ_IMPORTS
                + "Definition bases : list (list kop * list (path * bytes) * path * bytes) :=\n " + g_list(base_terms) + ".\n"
                + "Definition bad (c : list kop * list (path * bytes) * path * bytes) : Z :=\n"
                  "  let '(ops, files, t, new) := c in\n"
                  "  match first_bad_from (init_files files) ops t (old_of t files) new 0 with Some k => k | None => -1 end.\n"
                + "Definition shape (c : list kop * list (path * bytes) * path * bytes) : bool :=\n"
                  "  let '(ops, files, t, new) := c in protocol_shape_b ops t && bytes_eqb (shape_new ops) new.\n"
                + "Definition plbad (c : list kop * list (path * bytes) * path * bytes) : Z :=\n"
                  "  let '(ops, files, t, new) := c in\n"
                  "  match pl_first_bad_from (dinit_files files) ops t (old_of t files) new 0 with Some k => k | None => -1 end.\n"
                + "Definition rens : list (list kop * list (path * bytes) * path * path * bytes) :=\n " + g_list(ren_terms) + ".\n"
                + "Definition renbad (c : list kop * list (path * bytes) * path * path * bytes) : Z :=\n"
                  "  let '(ops, files, orig, newp, new) := c in\n"
                  "  match save_rename_first_bad (init_files files) (init_files files) ops orig newp new 0 with Some k => k | None => -1 end.\n"
                + "Eval vm_compute in map bad bases.\nEval vm_compute in mismatches shape bases.\n"
                + "Eval vm_compute in map plbad bases.\nEval vm_compute in map renbad rens.\n")
        rc, out = chk.coq_eval(text, "c19_base")
        lists = vlib.parse_all_lists(out)
        if rc == 0 and len(lists) == 4:
            for (sc, tr), k in zip(base_meta, lists[2]):
                if k >= 0:
                    chk.monitor_failure("powerloss_old_or_new", {"call": sc.action, "bad_after": tr["ops"][k - 1][0] if k else "start"},
                                        f"power loss after call #{k} of {sc.label}: the playlist would hold data that was never fsynced",
                                        {**sc.key(), "trace": ft.describe(tr["ops"])})
            for (sc, tr), k in zip(ren_meta, lists[3]):
                chk.count(1)
                chk.dist("atomic:rename-trace")
                if k >= 0:
                    chk.monitor_failure("trace_save_rename_atomic", {"call": sc.action, "bad_after": tr["ops"][k - 1][0] if k else "start"},
                                        f"renaming save {sc.label}: after call #{k} neither (old, old), (new under the old name) nor "
                                        "(new under the new name, old name gone) holds",
                                        {**sc.key(), "trace": ft.describe(tr["ops"])})
            lists = lists[:2]
        else:
            lists = []
        if rc != 0 or len(lists) != 2:
            chk.corr_failure("protocol_shape", {"coq": "evaluation failed"}, out[-1500:])
            chk.obligation("corr:protocol_shape", "correspondence", False)
        else:
            for (sc, tr), k in zip(base_meta, lists[0]):
                if k >= 0:
                    chk.monitor_failure("trace_crash_atomic", {"call": sc.action, "bad_after": tr["ops"][k - 1][0] if k else "start"},
                                        f"crash_atomic is false on the real trace of {sc.label} at crash point {k}",
                                        {**sc.key(), "trace": ft.describe(tr["ops"])})
            for i in lists[1]:
                sc, tr = base_meta[i]
                chk.corr_failure("protocol_shape", {**sc.key(), "trace": ft.describe(tr["ops"])},
                                 "the real trace of replace() is not an instance of the proven protocol (replace_uops)")
            chk.obligation("corr:protocol_shape", "correspondence", not lists[1])


def run(chk):
    chk.rule = ("text: distinct generated/hand-written m3u texts with >= 1 item; provider: distinct (op, arguments) "
                "steps inside create/save/rename/lookup/as_list/delete sequences on real temp dirs; atomic: distinct "
                "(scenario, injection point)")
    chk.trusted_base = [
        "Coq 8.16.1 kernel + vm_compute (no native_compute)",
        "harness/c19.py generators, codec canonicalisation (errors='replace' applied to expected values), oracle tables",
        "strace 6.1 + harness/files_trace.py (fail-closed translator), harness/files_child.py",
        "Common/Str.v transcription of str.strip (correspondence-checked here)",
    ]
    chk.assumptions = [
        "text codecs, fsencode/fsdecode, urllib quote/unquote/urlsplit are oracles (uri<->path round trip is monitored)",
        "names without NUL and lone surrogates; one component file names (sub-directories and '..' are C16)",
        "two crash models: death of the process (real SIGKILLs) and power loss as journalling abstraction (model-side on the real traces)",
    ]
    import logging
    logging.disable(logging.CRITICAL)
    chk.proof_stage(PROP_FILES, thorough_coqchk=(chk.tier == "thorough"))
    vlib.setup_impl()
    text_stage(chk)
    provider_stage(chk)
    atomic_stage(chk)
