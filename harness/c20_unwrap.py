"""C20 stage B: mopidy.stream.actor._unwrap_stream (+ internal.http.download)  <->  Untrusted/Unwrap.v.

The real loop runs against a scripted scanner, a scripted requests session and a
scripted clock (time.time in mopidy.stream.actor and in mopidy.internal.http) over
random finite graphs of playlists that refer to each other (absolute and relative
references, cycles, dangling and malformed references).  The model gets the same graph
as tables and the same clock readings; outcome and fetch log (which URI was scanned /
downloaded with which timeout, in order) are compared inside Coq.  Monitors evaluate
the property predicate on the real trace: never raises, no URI fetched twice,
non-negative timeouts derived from the latest clock reading, all-playlist cycles give
no stream.
"""

import urllib.parse

from common import vlib
from common.vlib import g_bool, g_list, g_opt, g_pair, g_str, g_z

import c20_download
import c20_parse

# The virtual clocks count ticks of 1/1024 s, so that every float the code under test
# computes from time.time() (seconds), the millisecond timeout and their differences is
# exact.  A case's "timeout" is the configured stream timeout expressed in ticks; the
# implementation is called with the same duration in milliseconds.
TICKS = 1024

AREA = "Untrusted"
FX = "true"


class FakeClock:
    """time module stand-in.  The n-th call of time() returns script[n] (last repeated)
    plus the time the scripted fetches have consumed so far (`spent`), so that a caller
    which does not read the clock again after a fetch works with a stale value."""

    def __init__(self, script, durations):
        self.script = list(script)
        self.durations = list(durations)
        self.calls = 0
        self.fetches = 0
        self.spent = 0
        self.base = None
        self.readings = []

    def time(self):
        if self.calls > len(self.script) + 200:
            raise c20_parse.Diverged  # the loop keeps reading the clock: it does not terminate
        self.base = self.script[min(self.calls, len(self.script) - 1)]
        self.calls += 1
        self.readings.append(self.base + self.spent)
        return (self.base + self.spent) / TICKS

    def now(self):
        """True time as the harness knows it (whether or not the code looked)."""
        return None if self.base is None else self.base + self.spent

    def spend(self):
        self.spent += self.durations[min(self.fetches, len(self.durations) - 1)]
        self.fetches += 1

    def add(self, d):
        self.spent += d


class World:
    """Scripted scanner + session sharing one trace."""

    def __init__(self, nodes, clock, http_clock):
        self.nodes = nodes  # uri -> {"scan":..., "get":...}
        self.clock = clock
        self.http_clock = http_clock
        self.trace = []  # (kind, uri, timeout, true time when issued)
        self.responses = []  # (uri, timeout passed to session.get, ChunkedResponse)

    # scanner API
    def scan(self, uri, timeout=None):
        from mopidy import exceptions

        self.trace.append(("scan", uri, timeout, self.clock.now()))
        self.clock.spend()
        node = self.nodes.get(uri)
        if node is None or node["scan"][0] == "error":
            raise exceptions.ScannerError("scripted scanner failure")
        _, playable, mime = node["scan"]
        res = ScanResult(uri, playable, mime)
        res.tags, res.duration = node.get("tags", {}), node.get("duration")
        return res

    # requests.Session API
    def get(self, uri, stream=False, timeout=None):  # noqa: ARG002
        import requests.exceptions as rex

        self.trace.append(("download", uri, timeout, self.clock.now()))
        node = self.nodes.get(uri)
        kind = node["get"][0] if node else "error"
        if kind == "timeout":
            raise rex.Timeout("scripted")
        if kind == "schema":
            raise rex.InvalidSchema("scripted")
        if kind == "error":
            raise rex.ConnectionError("scripted")
        _, ok, durs, body = node["get"]
        endless = durs[1] if isinstance(durs, tuple) else None
        # the time the chunks take is also time the loop's own clock sees afterwards
        resp = c20_download.ChunkedResponse(ok, body, [] if endless is not None else durs, self.http_clock, endless=endless,
                                            on_time=self.clock.add)
        self.responses.append((uri, timeout, resp))
        return resp


class ScanResult:
    def __init__(self, uri, playable, mime):
        self.uri, self.playable, self.mime = uri, playable, mime
        self.tags, self.duration, self.seekable = {}, None, False


# ----------------------------------------------------------------------------
# graph generator

MIMES = [None, "audio/mpeg", "text/plain", "application/x-mpegurl", "text/uri-list", "application/ogg", "video/mp4", "audio/x-scpls", ""]


def node_uri(i):
    return f"http://h.example/d{i}/l{i}.m3u"


def ref_to(rng, src, dst):
    """A reference that urljoin resolves from node src to node dst."""
    form = rng.weighted([("abs", 4), ("path", 2), ("rel", 2), ("netpath", 1)])
    if form == "abs":
        return node_uri(dst)
    if form == "path":
        return f"/d{dst}/l{dst}.m3u"
    if form == "rel":
        return f"../d{dst}/l{dst}.m3u" if dst != src or rng.random() < 0.5 else f"l{dst}.m3u"
    return f"//h.example/d{dst}/l{dst}.m3u"


BAD_REFS = ["http://[::1", "//[x", "http://℀/", "mms://dangling.example/stream", "no-scheme-here.mp3", "http://h.example/other"]


def gen_body(rng, refs):
    """A playlist document listing refs (formats whose parse is total on the pinned tree)."""
    fmt = rng.weighted([("m3u", 4), ("urilist", 2), ("pls", 1), ("asx", 1), ("xspf", 1), ("junk", 0.5), ("empty", 0.5)])
    if fmt == "empty":
        return b""
    if fmt == "junk":
        return bytes(rng.randrange(256) for _ in range(rng.randint(1, 30)))
    if fmt == "urilist" and any(":" not in r.split("/")[0] for r in refs):
        fmt = "m3u"  # relative references only survive in M3U (no check_uri there)
    if fmt in ("asx", "xspf", "pls") and any(ord(c) > 127 or "[" in r for r in refs for c in r):
        fmt = "m3u"
    return c20_parse.FORMATS[fmt](rng, refs)


def gen_graph(rng, shape, timeout):
    n = rng.randint(1, 6)
    nodes = {}
    for i in range(n):
        if shape == "chain":
            # playlists in a row ending in something the scanner recognises as a stream
            if i == n - 1:
                scan = rng.choice([("result", True, None), ("result", True, "audio/mpeg"), ("result", False, "audio/ogg"), ("result", True, "application/ogg")])
                get = ("error",)
            else:
                scan = rng.choice([("error",), ("result", False, "text/plain"), ("result", False, "application/x-mpegurl"), ("result", False, None)])
                refs = [ref_to(rng, i, i + 1)] + [ref_to(rng, i, rng.randrange(n)) for _ in range(rng.randint(0, 2))]
                body = gen_body(rng, refs)
                if not _parse(body):
                    body = ("#EXTM3U\n" + "\n".join(refs) + "\n").encode()
                get = ("response", True, rng.choice([[0], [0, 0], [0, 1], [1, 1, 1]]), body)
        elif shape == "cycle":
            scan = rng.choice([("error",), ("result", False, None), ("result", False, "text/plain"), ("result", False, "application/x-mpegurl")])
            refs = [ref_to(rng, i, (i + 1) % n if rng.random() < 0.7 else rng.randrange(n))]
            refs += [ref_to(rng, i, rng.randrange(n)) for _ in range(rng.randint(0, 2))]
            get = ("response", True, rng.choice([[0], [0, 0], [0, 0, 0]]), gen_body(rng, refs))
            if not _parse(get[3]):
                get = ("response", True, [0], ("#EXTM3U\n" + "\n".join(refs) + "\n").encode())
        else:
            scan = rng.weighted([(("error",), 3), (("result", False, rng.choice(MIMES)), 4), (("result", True, rng.choice(MIMES)), 1)])
            k = rng.weighted([("response", 8), ("timeout", 0.5), ("schema", 0.5), ("error", 1)])
            if k == "response":
                refs = []
                for _ in range(rng.randint(0, 3)):
                    refs.append(ref_to(rng, i, rng.randrange(n)) if rng.random() < 0.8 else rng.choice(BAD_REFS))
                ok = rng.random() < 0.9
                get = ("response", ok, gen_durs(rng, timeout), gen_body(rng, refs))
            else:
                get = (k,)
        nodes[node_uri(i)] = {"scan": scan, "get": get}
    return nodes


def gen_durs(rng, timeout):
    """Chunk arrival times (ticks) of a body: a list, or ("endless", d) for a body that
    never ends (d >= timeout / 50, so that the code under test stops within ~50 chunks)."""
    k = rng.weighted([("instant", 6), ("timed", 3), ("endless", 0.8)])
    if k == "instant":
        return [0] * rng.randint(1, 3)
    if k == "endless":
        return ("endless", max(1, timeout // rng.choice([3, 10, 50])))
    return [rng.choice([0, 0, 0, 1, 2, timeout // 7 + 1, timeout // 2 + 1]) for _ in range(rng.randint(1, 4))]


def _parse(body):
    from mopidy.internal import playlists

    try:
        r = playlists.parse(body)
    except Exception:  # noqa: BLE001
        return None
    if any(not isinstance(x, str) for x in r):
        return None
    return r


def gen_clock(rng, shape, nreads, timeout):
    t0 = rng.choice([0, 1000, 1700000000 * TICKS])
    deadline = t0 + timeout
    if shape == "cycle":
        return [t0] * nreads, [0], timeout
    mode = rng.weighted([("plenty", 4), ("tight", 4), ("jump", 2), ("exact", 1), ("backwards", 1)])
    if shape == "chain" and rng.random() < 0.6:
        mode = "plenty"
    script = [t0]
    t = t0
    for i in range(1, nreads):
        if mode == "plenty":
            t += rng.randint(0, max(1, timeout // 200))
        elif mode == "tight":
            t += rng.randint(0, max(1, timeout // 4))
        elif mode == "jump":
            t += rng.randint(0, 3) if rng.random() < 0.85 else timeout + rng.randint(0, 5)
        elif mode == "exact":
            t = rng.choice([t, deadline, deadline - 1, deadline + 1]) if rng.random() < 0.4 else t + 1
        else:
            t += rng.randint(-3, max(1, timeout // 3))
        script.append(t)
    durations = [rng.choice([0, 0, 0, 1, 2, max(1, timeout // 10), max(1, timeout // 3), timeout + 1]) for _ in range(nreads)]
    if shape == "chain" and mode == "plenty":
        durations = [rng.choice([0, 0, 1, max(1, timeout // 50)]) for _ in range(nreads)]
    return script, durations, timeout


# ----------------------------------------------------------------------------
# Gallina

def g_scan(s):
    if s[0] == "error":
        return "ScanError"
    return f"(ScanResult {g_bool(s[1])} {g_opt(s[2], g_str)})"


def g_get(g, uris):
    if g[0] == "timeout":
        return "GetTimeout"
    if g[0] == "schema":
        return "GetInvalidSchema"
    if g[0] == "error":
        return "GetRequestException"
    # an endless body is, for the model, a long enough run of chunks (see gen_durs: 64 * d exceeds every generated timeout)
    durs = [g[2][1]] * 70 if isinstance(g[2], tuple) else g[2]
    return f"(GetResponse {g_bool(g[1])} {g_list([g_z(d) for d in durs])} {g_list([g_str(u) for u in uris])})"


def header():
    return (
        vlib.COQ_HEADER
        + "From Common Require Import Res Str Cases.\nFrom Untrusted Require Import Base Unwrap.\n"
        + "Definition oc_eqb (a b : outcome) : bool :=\n"
        + "  match a, b with\n  | Found u s, Found v t => str_eqb u v && Bool.eqb s t\n  | NoStream _, NoStream _ => true\n"
        + "  | Raised e, Raised f => exn_eqb e f\n  | _, _ => false\n  end.\n"
        + "Definition f_eqb (a : fetch) (b : bool * str * Z) : bool :=\n"
        + "  let '(s, u, t) := b in Bool.eqb (is_scan a) s && str_eqb (fetch_uri a) u && (fetch_timeout a =? t).\n"
        + "Fixpoint log_eqb (a : list fetch) (b : list (bool * str * Z)) : bool :=\n"
        + "  match a, b with [], [] => true | x :: a', y :: b' => f_eqb x y && log_eqb a' b' | _, _ => false end.\n"
        + "Definition as_fetch (b : bool * str * Z) : fetch :=\n"
        + "  let '(s, u, t) := b in if s then FScan u 0 0 t else FDownload u 0 0 t.\n"
        + "Definition T := (list (str * scan_out) * list (str * get_out) * list (str * str * option str) * list Z * Z * nat * str\n"
        + "                 * outcome * list (bool * str * Z))%type.\n"
        + "Definition run (fx : bool) (c : T) :=\n"
        + "  let '(st, gt, jt, cl, timeout, fuel, start, _, _) := c in\n"
        + "  unwrap fx (tab_scan st) (tab_get gt) (tab_join jt) (tab_clock cl) timeout fuel start.\n"
        + "Definition ok (fx : bool) (c : T) : bool :=\n"
        + "  let '(_, _, _, _, _, _, _, eo, elog) := c in\n"
        + "  let '(o, log) := run fx c in oc_eqb o eo && log_eqb log elog.\n"
        + "(* the property predicate evaluated on the IMPLEMENTATION's fetch log *)\n"
        + "Definition mon (c : T) : bool :=\n"
        + "  let '(_, _, _, _, _, _, _, _, elog) := c in fetch_log_ok_b (map as_fetch elog).\n"
    )


def case_term(c):
    st = g_list([g_pair(g_str(u), g_scan(n["scan"])) for u, n in c["nodes"].items()])
    gt = g_list([g_pair(g_str(u), g_get(n["get"], c["parsed"].get(u) or [])) for u, n in c["nodes"].items()])
    jt = g_list([f"({g_str(u)}, {g_str(r)}, {g_opt(v, g_str)})" for (u, r), v in c["joins"].items()])
    cl = g_list([g_z(x) for x in c["clock"]])
    o = c["obs"]
    if o[0] == "raise":
        eo = f"(Raised {o[1]})"
    elif o[1] is None:
        eo = "(NoStream Cycle)"
    else:
        eo = f"(Found {g_str(o[1])} {g_bool(o[2])})"
    elog = g_list([f"({g_bool(k == 'scan')}, {g_str(u)}, {g_z(t)})" for k, u, t, _ in c["log"]])
    return f"({st}, {gt}, {jt}, {cl}, {g_z(c['timeout'])}, {c['fuel']}%nat, {g_str(c['start'])}, {eo}, {elog})"


# ----------------------------------------------------------------------------

def run_impl(actor, http, case):
    clock = FakeClock(case["script"], case.get("durations", [0]))
    hclock = c20_download.VirtualClock(0, ticks_per_second=TICKS)
    world = World(case["nodes"], clock, hclock)
    old_a, old_h = actor.time, http.time
    actor.time, http.time = clock, hclock
    try:
        try:
            timeout_ms = case["timeout"] * 1000 / TICKS  # exact: 1000/1024 = 125/128
            uri, res = actor._unwrap_stream(case["start"], timeout=timeout_ms, scanner=world, requests_session=world)  # noqa: SLF001
            ok_shape = (uri is None and res is None) or isinstance(uri, str)
            with_scan = res is not None
            if res is not None and not (isinstance(res, ScanResult) and res.uri == uri):
                ok_shape = False
            obs = ("ok", uri, with_scan, ok_shape)
        except c20_parse.Diverged:
            obs = ("raise", "OtherExn", "DidNotTerminate")
        except Exception as exc:  # noqa: BLE001
            obs = ("raise", c20_parse.exn_name(exc), type(exc).__name__)
    finally:
        actor.time, http.time = old_a, old_h
    log = []
    inexact = False
    for kind, uri, timeout, last in world.trace:
        # scanner timeouts are milliseconds, session timeouts seconds: both back to ticks
        t = timeout * 128 / 125 if kind == "scan" else timeout * TICKS
        inexact = inexact or abs(t - round(t)) > 1e-6
        log.append((kind, uri, int(round(t)), last))
    case["inexact"] = inexact
    # the clock oracle's outcome as the implementation observed it (what the model is given)
    case["obs"], case["log"], case["clock"] = obs, log, clock.readings or [case["script"][0]]
    case["downloads"] = [(u, int(round(t * TICKS)), r.times, r.delivered) for u, t, r in world.responses]
    return case


def monitors(chk, case):
    good = True
    obs, log = case["obs"], case["log"]
    meta = {"start": case["start"], "shape": case["shape"], "timeout": case["timeout"], "script": case["script"][:12],
            "durations": case.get("durations", [0])[:8], "readings": case["clock"][:12],
            "nodes": {u: {"scan": n["scan"], "get": [x if not isinstance(x, bytes) else x.decode("latin-1") for x in n["get"]]}
                      for u, n in case["nodes"].items()}}
    if obs[0] == "raise":
        chk.monitor_failure("unwrap_total", {"call": "_unwrap_stream", "exc": obs[2]},
                            f"_unwrap_stream raised {obs[2]}", meta)
        return False
    if not obs[3]:
        chk.monitor_failure("unwrap_total", {"call": "_unwrap_stream", "exc": "bad-result-shape"},
                            "_unwrap_stream returned neither (None, None) nor (uri, scan result of that uri | None)", meta)
        good = False
    for kind in ("scan", "download"):
        uris = [u for k, u, _t, _l in log if k == kind]
        if len(uris) != len(set(uris)):
            chk.monitor_failure("fetch_once", {"call": "_unwrap_stream", "kind": kind}, f"a URI was {kind}ed twice", {**meta, "log": log})
            good = False
    deadline = case["clock"][0] + case["timeout"]
    for kind, u, t, last in log:  # last = true time when the fetch was issued
        if t < 0 or last is None or last > deadline or t != deadline - last or case.get("inexact"):
            chk.monitor_failure("deadline_respected", {"call": "_unwrap_stream", "kind": kind},
                                "a fetch was issued after the configured timeout had elapsed, or was handed something else than the time left "
                                "(scanner timeouts are milliseconds, time.time() and session timeouts are seconds)",
                                {**meta, "log": log, "fetch": [kind, u, t, last], "deadline": deadline})
            good = False
            break
    for u, dt, times, delivered in case["downloads"]:
        if not c20_download.deadline_respected(times, dt, unit=1):
            chk.monitor_failure("download_deadline_respected", {"call": "_unwrap_stream"},
                                "http.download kept pulling chunks after the time left for the unwrapping had passed",
                                {**meta, "uri": u, "time_left": dt, "chunk_times": times[:12], "chunks_pulled": delivered})
            good = False
            break
    if case["shape"] == "cycle" and obs[1] is not None:
        chk.monitor_failure("cycle_no_stream", {"call": "_unwrap_stream"}, "a cycle of playlists yielded a stream", {**meta, "result": obs[1]})
        good = False
    return good


def gen_case(rng):
    shape = rng.weighted([("random", 6), ("cycle", 2), ("chain", 2)])
    timeout = rng.choice([1, 50, 1024, 5120, 5120, 61440])  # ticks: ~1 ms, ~49 ms, 1 s, 5 s, 60 s
    nodes = gen_graph(rng, shape, timeout)
    uris = list(nodes)
    start = rng.choice(uris) if rng.random() < 0.95 else "http://h.example/unknown"
    if shape == "chain":
        start = uris[0]
    script, durations, timeout = gen_clock(rng, shape, 3 * len(nodes) + 6, timeout)
    return {"shape": shape, "nodes": nodes, "start": start, "script": script, "durations": durations, "timeout": timeout}


def prepare(case):
    """Oracle tables: parsed reference lists and urljoin outcomes."""
    parsed, joins = {}, {}
    for u, n in case["nodes"].items():
        if n["get"][0] != "response":
            continue
        r = _parse(n["get"][3])
        if r is None:
            return False
        parsed[u] = r
        if r:
            try:
                joins[(u, r[0])] = urllib.parse.urljoin(u, r[0])
            except ValueError:
                joins[(u, r[0])] = None
    case["parsed"], case["joins"] = parsed, joins
    mentioned = set(case["nodes"]) | {v for v in joins.values() if v} | {case["start"]}
    case["fuel"] = len(mentioned) + 1
    return True


CORPUS = [
    # self reference
    {"shape": "cycle", "nodes": {node_uri(0): {"scan": ("error",), "get": ("response", True, [0], b"#EXTM3U\nl0.m3u\n")}},
     "start": node_uri(0), "script": [0, 1, 2, 3, 4, 5, 6, 7, 8], "timeout": 100},
    # two-cycle via relative reference, second node's scan says text/plain
    {"shape": "cycle", "nodes": {node_uri(0): {"scan": ("result", False, "text/plain"), "get": ("response", True, [0], b"../d1/l1.m3u\nhttp://x/\n#EXTM3U\n../d1/l1.m3u")},
                                 node_uri(1): {"scan": ("error",), "get": ("response", True, [0], b"[playlist]\nnumberofentries=1\nFile1=" + node_uri(0).encode() + b"\n")}},
     "start": node_uri(0), "script": [5] * 12, "timeout": 1},
    # the scan itself uses up the time: the download must not be attempted
    {"shape": "random", "nodes": {node_uri(0): {"scan": ("error",), "get": ("response", True, [0], b"http://h.example/d0/x.mp3\n")}},
     "start": node_uri(0), "script": [0, 1, 2, 3, 4], "durations": [50, 0], "timeout": 10},
    # deadline passes between scan and download
    {"shape": "random", "nodes": {node_uri(0): {"scan": ("error",), "get": ("response", True, [0], b"http://h.example/d0/x.mp3\n")}},
     "start": node_uri(0), "script": [0, 1, 2, 11, 12], "timeout": 10},
    # deadline exactly reached: scan gets timeout 0
    {"shape": "random", "nodes": {node_uri(0): {"scan": ("result", True, None), "get": ("error",)}},
     "start": node_uri(0), "script": [0, 9, 10, 10], "timeout": 10},
    # malformed reference makes urljoin raise
    {"shape": "random", "nodes": {node_uri(0): {"scan": ("error",), "get": ("response", True, [0], b"#EXTM3U\nhttp://[::1\n")}},
     "start": node_uri(0), "script": [0, 1, 2, 3, 4, 5, 6], "timeout": 100},
    # a stream that the scanner does not recognise and that never ends: the download must give up
    {"shape": "random", "nodes": {node_uri(0): {"scan": ("error",), "get": ("response", True, ("endless", 100), b"")}},
     "start": node_uri(0), "script": [0, 1, 2, 3, 4], "timeout": 3000},
    # slow download, failed status, playable application/ogg, interesting mime but not playable
    {"shape": "random", "nodes": {node_uri(0): {"scan": ("result", False, "application/x-mpegurl"), "get": ("response", True, [0, 100], b"a:b\n")}},
     "start": node_uri(0), "script": [0, 1, 2, 3, 4], "timeout": 100},
    {"shape": "random", "nodes": {node_uri(0): {"scan": ("result", False, "audio/mpeg"), "get": ("error",)}},
     "start": node_uri(0), "script": [0, 1, 2, 3, 4], "timeout": 100},
]


def run(chk, fx=FX):
    vlib.setup_impl()
    from mopidy.internal import http
    from mopidy.stream import actor

    n = 1500 if chk.tier == "quick" else 20000
    rng = vlib.Rng(chk.seed, "C20-unwrap")
    cases = [dict(c) for c in CORPUS]
    while len(cases) < n + len(CORPUS):
        cases.append(gen_case(rng))
    rows = []
    for case in cases:
        if not prepare(case):
            chk.dist("unwrap:skipped-body-not-total")
            continue
        run_impl(actor, http, case)
        good = monitors(chk, case)
        rows.append(case)
        obs, log = case["obs"], case["log"]
        depth = len([1 for k, *_ in log if k == "download"])
        outcome = "raise:" + obs[2] if obs[0] == "raise" else ("none" if obs[1] is None else ("stream+scan" if obs[2] else "stream"))
        chk.count(1, nontrivial_key=(outcome, depth, case["start"], tuple((k, u, t) for k, u, t, _ in log)) if depth >= 1 else None)
        chk.dist(f"unwrap:shape={case['shape']}")
        chk.dist(f"unwrap:outcome={outcome}")
        chk.dist(f"unwrap:downloads={min(depth, 4)}{'+' if depth >= 4 else ''}")
        if good and depth >= 2 and sum(1 for s in chk.samples if s.get("stage") == "unwrap") < 2:
            chk.sample({"stage": "unwrap", "start": case["start"], "timeout": case["timeout"], "readings": case["clock"][:10],
                        "log": [(k, u, t) for k, u, t, _ in log], "result": obs[1:3]})
    shards = [rows[i : i + 300] for i in range(0, len(rows), 300)]
    texts = [header() + "Definition cases : list T :=\n " + g_list([case_term(c) for c in s]) + ".\n"
             + f"Eval vm_compute in mismatches (ok {fx}) cases.\nEval vm_compute in mismatches mon cases.\n" for s in shards]
    results = vlib.coq_eval_many(AREA, texts, jobs=12)
    ok = True
    for shard, (rc, out) in zip(shards, results):
        lists = vlib.parse_all_lists(out)
        if rc != 0 or len(lists) != 2:
            ok = False
            chk.corr_failure("unwrap", {"shard": "coq evaluation failed"}, out[-1500:])
            continue
        for i in lists[0]:
            ok = False
            c = shard[i]
            chk.corr_failure("unwrap", {"start": c["start"], "timeout": c["timeout"], "clock": c["clock"], "impl": [list(c["obs"][:3]), [(k, u, t) for k, u, t, _ in c["log"]]],
                                        "nodes": {u: {"scan": nn["scan"], "get": [x if not isinstance(x, bytes) else x.hex() for x in nn["get"]]} for u, nn in c["nodes"].items()}})
        for i in lists[1]:
            c = shard[i]
            chk.monitor_failure("fetch_log_ok_b", {"call": "_unwrap_stream"}, "Gallina predicate fetch_log_ok_b is false on the implementation's fetch log",
                                {"start": c["start"], "log": [(k, u, t) for k, u, t, _ in c["log"]]})
    chk.obligation("corr:unwrap", "correspondence", ok)
    return rows
