"""C07 - the JSON-RPC endpoint is total, conformant and exposes only the public API.

Model coq/Rpc/JsonRpc.v  <->  mopidy.internal.jsonrpc.Wrapper.handle_json (the class the
HTTP handlers wrap the core in, http/handlers.py make_jsonrpc_wrapper), driven over
recording mounts.  Three input streams (arbitrary bytes / arbitrary JSON / structured
requests and batches), a corpus, and the real JsonRpcHandler.post / WebSocketHandler
.on_message driven on stubbed transports.
"""

import inspect
import json
import math
from pathlib import Path
from types import SimpleNamespace

import rpc_common as rc
from common import vlib
from common.vlib import g_list, g_str
from rpc_common import Raw, enc, g_json

AREA = "Rpc"
PROP_FILES = ["Property_C07.v"]
MODEL_VERSION = "fixed"  # the Gallina version record that describes the current tree

HEADER = (vlib.COQ_HEADER + "From Common Require Import Str Cases.\n"
          "From Rpc Require Import Json Models JsonRpc Inspector CorrC07.\n")

# ----------------------------------------------------------------------------
# recording mounts


class Unserializable:
    pass


def behave(name, n_before, args, kwargs):
    """What a recorded callable does; mirrored by CorrC07.corr_call."""
    if name == "count":
        return n_before
    if name == "nargs":
        return [len(args), list(kwargs.keys())]
    if name == "te":
        raise TypeError("te")
    if name == "te_bad":
        raise TypeError("bad \ud800 message")
    if name == "oth":
        raise ValueError("oth")
    if name == "oth_bad":
        raise ValueError("bad \udcff message")
    if name == "uns":
        return Unserializable()
    return {"ok": [1, "x", None, True]}


class Rec:
    """A recorded object: public and private methods, non-callable members, and public
    attributes that are themselves objects with public callables (``child``, two to three
    levels deep, and ``buddy``) or a bound method of another object (``helper``).  Only the
    objects put into the mount table are mounted; everything below them is reachable by
    attribute chains only and must never be invoked."""

    attr = 5
    _hidden = 6

    def __init__(self, label, log, depth=2, buddy=True):
        self._label = label
        self._log = log
        self.items = [1, 2]
        if depth:
            self.child = Rec(label + "/child", log, depth - 1, buddy=depth > 1)
        if buddy:
            self.buddy = Rec(label + "/buddy", log, 0, buddy=False)
            self.helper = self.buddy.pub  # a public callable attribute: bound method of another object

    def _do(self, name, a, k):
        n = len(self._log)
        self._log.append(("m", self._label, name))
        return behave(name, n, a, k)

    # private members on which merely READING the name runs code: they must not even be touched
    @property
    def _secret(self):
        self._log.append(("m", self._label, "_secret:get"))
        return lambda *a, **k: "secret"

    @property
    def _boom(self):
        self._log.append(("m", self._label, "_boom:get"))
        msg = "the getter of a private member ran"
        raise RuntimeError(msg)

    def pub(*a, **k):
        return a[0]._do("pub", a[1:], k)

    def count(*a, **k):
        return a[0]._do("count", a[1:], k)

    def nargs(*a, **k):
        return a[0]._do("nargs", a[1:], k)

    def te(*a, **k):
        return a[0]._do("te", a[1:], k)

    def te_bad(*a, **k):
        return a[0]._do("te_bad", a[1:], k)

    def oth(*a, **k):
        return a[0]._do("oth", a[1:], k)

    def oth_bad(*a, **k):
        return a[0]._do("oth_bad", a[1:], k)

    def uns(*a, **k):
        return a[0]._do("uns", a[1:], k)

    def _priv(*a, **k):
        return a[0]._do("_priv", a[1:], k)


class Plain:
    value = 7

    def __init__(self, label, log):
        self.child = Rec(label + "/child", log, 1)


def mk_callable(mount, log):
    name = mount.rsplit(".", 1)[-1]

    def recorded(*a, **k):
        n = len(log)
        log.append(("f", mount))
        return behave(name, n, a, k)

    recorded._rec_key = ("f", mount)
    recorded.child = Rec(mount + "/child", log, 1)  # functions can carry public attributes too
    return recorded


TABLE_SPECS = [
    {"o": "rec", "core.x": "rec", "f": "fn", "a.b": "fn", "g.te": "fn", "g.uns": "fn", "g.count": "fn",
     "_p": "fn", "n": "plain"},
    {"o": "rec", "o.count": "fn", "core": "rec", "core.pub": "fn", "f.x": "fn", "o.pub.x": "rec"},
    {},
    {"core.describe": "fn", "core.get_version": "fn", "core.playback": "rec", "core.tracklist": "rec"},
]


def build_table(idx, log):
    out = {}
    for mount, kind in TABLE_SPECS[idx].items():
        out[mount] = (Rec(mount, log) if kind == "rec" else Plain(mount, log) if kind == "plain"
                      else mk_callable(mount, log))
    return out


def callable_key(v):
    """Identity of a recorded callable, as it appears in the raw invocation log."""
    key = getattr(v, "_rec_key", None)
    if key:
        return key
    owner = getattr(v, "__self__", None)
    if isinstance(owner, Rec):
        return ("m", owner._label, v.__name__)
    return None


def entry_map(tbl):
    """raw key -> (mount, attr): exactly the callables that are a mounted object itself or a
    public attribute of a literally mounted object."""
    out = {}
    for mount, obj in tbl.items():
        key = callable_key(obj) if callable(obj) else None
        if key:
            out.setdefault(key, (mount, None))
        for a in dir(obj):
            if a.startswith("_"):
                continue
            v = getattr(obj, a, None)
            key = callable_key(v) if callable(v) else None
            if key:
                out.setdefault(key, (mount, a))
    return out


def finish_log(tbl, raw):
    """Translate the raw log of EVERY recorded object reachable from the table into
    (mount, attr) entries; an invocation of anything that is not directly a public attribute of
    a literally mounted name becomes ("?<label>", name), which no mount table contains."""
    emap = entry_map(tbl)
    return [emap[k] if k in emap else ("?" + k[1], k[2] if len(k) > 2 else None) for k in raw]


def g_table(idx, tbl=None):
    tbl = build_table(idx, []) if tbl is None else tbl
    items = []
    for mount, obj in tbl.items():
        attrs = []
        for a in dir(obj):
            try:
                # private names are never looked up by the model; do not run their getters here
                val = inspect.getattr_static(obj, a, None) if a.startswith("_") else getattr(obj, a)
            except Exception:  # noqa: BLE001
                continue
            attrs.append(f"({g_str(a)}, {'ACallable' if callable(val) else 'APlain'})")
        items.append(f"({g_str(mount)}, mkObj {'true' if callable(obj) else 'false'} {g_list(attrs)})")
    return g_list(items)


def is_public_entry(tbl, entry):
    mount, attr = entry
    if mount not in tbl:  # includes the "?<label>" entries of objects that are not mounted
        return False
    if attr is None:
        return callable(tbl[mount])
    return not attr.startswith("_") and callable(getattr(tbl[mount], attr, None))


# ----------------------------------------------------------------------------
# running the implementation


def run_impl(jsonrpc, table_idx, data):
    """-> (outcome, log); outcome = ("nothing",) | ("bytes", b) | ("escaped", kind, text)."""
    raw = []
    tbl = build_table(table_idx, raw)
    w = jsonrpc.Wrapper(objects=tbl)
    try:
        out = w.handle_json(data)
    except Exception as exc:  # noqa: BLE001
        name = type(exc).__name__
        kind = {"ValidationError": "EValidation", "PydanticSerializationError": "ESerialization"}.get(name, "EOther")
        return ("escaped", kind, f"{name}: {str(exc)[:200]}"), finish_log(tbl, raw)
    if out is None:
        return ("nothing",), finish_log(tbl, raw)
    return ("bytes", bytes(out) if not isinstance(out, str) else out.encode()), finish_log(tbl, raw)


def parse_oracle(data):
    """The byte -> JSON oracle (pydantic_core.from_json, the parser the wrapper uses)."""
    import pydantic_core

    try:
        return True, pydantic_core.from_json(data)
    except ValueError:
        return False, None


def parse_response(b):
    return json.loads(b.decode("utf-8"))


# ----------------------------------------------------------------------------
# the property predicate, evaluated on the implementation (mirrors Property_C07.v)


def is_number(x):
    return isinstance(x, int | float) and not isinstance(x, bool)


def response_grammar_ok(r):
    if not isinstance(r, dict) or r.get("jsonrpc") != "2.0" or "id" not in r or len(r) != 3:
        return False
    i = r["id"]
    if not (i is None or isinstance(i, str) or is_number(i)):
        return False
    if "result" in r:
        return i is not None
    e = r.get("error")
    return (isinstance(e, dict) and isinstance(e.get("code"), int) and not isinstance(e.get("code"), bool)
            and isinstance(e.get("message"), str) and set(e) <= {"code", "message", "data"})


def document_grammar_ok(doc):
    if isinstance(doc, list):
        return bool(doc) and all(response_grammar_ok(r) for r in doc)
    return response_grammar_ok(doc)


def id_class(i):
    if i is None:
        return "null"
    if isinstance(i, bool):
        return "bool"
    if isinstance(i, str):
        return "string"
    if isinstance(i, int):
        return "integer"
    if isinstance(i, float):
        return "finite_float" if math.isfinite(i) else "nonfinite_float"
    return "array" if isinstance(i, list) else "object"


KNOWN = {"jsonrpc", "id", "method", "params"}

# objects tagged with the name of a model, as they may appear (at any depth) in params
GOOD_MODELS = [
    {"__model__": "Artist", "name": "n"}, {"__model__": "Ref", "uri": "u", "type": "track"},
    {"__model__": "Track", "artists": [{"__model__": "Artist"}], "album": {"__model__": "Album", "date": "2020"}},
    {"__model__": "TlTrack", "tlid": 1, "track": {"__model__": "Track"}, "junk": 1},
    {"__model__": "Playlist", "tracks": [{"__model__": "Track", "length": -1}], "last_modified": "12"},
    {"__model__": "Image", "uri": "u", "width": True}, {"__model__": "SearchResult"},
    {"__model__": "Bogus", "x": 1}, {"__model__": 5}, {"__model__": None, "uri": "x"},
]
BAD_MODELS = [
    {"__model__": "Artist", "name": 5}, {"__model__": "Artist", "junk": 1}, {"__model__": "Ref", "uri": "u"},
    {"__model__": "Ref", "uri": "u", "type": "nope"}, {"__model__": "TlTrack", "tlid": 1},
    {"__model__": "TlTrack", "tlid": 0, "track": {}}, {"__model__": "Album", "num_tracks": -1},
    {"__model__": "Track", "album": {"__model__": "Artist"}}, {"__model__": "Image"},
    {"__model__": "Playlist", "tracks": None}, {"__model__": "Album", "date": "2020-1-1"},
    {"__model__": "Artist", "musicbrainz_id": "zz"},
]


def model_param_status(v):
    """"bad": contains a tagged object known not to validate (the request must be rejected);
    "unknown": contains an object tagged with a model name that is neither a known-good nor a
    known-bad literal (e.g. after a byte mutation): the monitor makes no classification claim;
    "ok" otherwise.  A tagged object is validated as a whole, so its inside is not visited."""
    if isinstance(v, dict):
        if isinstance(v.get("__model__"), str) and v["__model__"] in CLASS_NAMES:
            return "bad" if v in BAD_MODELS else "ok" if v in GOOD_MODELS else "unknown"
        parts = [model_param_status(x) for x in v.values()]
    elif isinstance(v, list):
        parts = [model_param_status(x) for x in v]
    else:
        return "ok"
    return "bad" if "bad" in parts else "unknown" if "unknown" in parts else "ok"


def has_bad_model(v):
    return model_param_status(v) == "bad"


def params_status(params):
    """Status of the ARGUMENTS of a request: the members of an array, the values of an object.
    The params container itself is never a model: a named-params object that happens to have a
    member called "__model__" just passes a keyword argument of that name."""
    values = list(params.values()) if isinstance(params, dict) else params if isinstance(params, list) else []
    parts = [model_param_status(v) for v in values]
    return "bad" if "bad" in parts else "unknown" if "unknown" in parts else "ok"


CLASS_NAMES = ("Ref", "Image", "Artist", "Album", "Track", "TlTrack", "Playlist", "SearchResult")


def element_class(j):
    """Spec-level classification of one request element.

    invalid      -> -32600 with null id
    strict       -> a conforming request (only the four members, id string/number/null)
    grey         -> structurally a request, but with an unknown member or a bool/array/
                    object id: the property wants -32600/null for array/object ids and
                    unknown members (and the code treats true/false as 1/0)
    """
    if not isinstance(j, dict):
        return "invalid"
    if j.get("jsonrpc") != "2.0" or not isinstance(j.get("jsonrpc"), str):
        return "invalid"
    if not isinstance(j.get("method"), str):
        return "invalid"
    if "params" in j and not isinstance(j["params"], list | dict):
        return "invalid"
    i = j.get("id")
    if isinstance(i, list | dict) or set(j) - KNOWN or params_status(j.get("params")) == "bad":
        return "invalid_by_model"
    if isinstance(i, bool) or params_status(j.get("params")) == "unknown":
        return "grey"
    return "strict"


def expected_code(tbl_spec, method):
    """Which response a conforming request naming ``method`` must get."""
    def behaviour(name):
        # te_bad: a TypeError whose message cannot be written as JSON; reported either as an
        # argument mismatch or as a failure inside the method
        return {"te": -32602, "te_bad": (-32602, 0), "oth": 0, "oth_bad": 0, "uns": 0}.get(name, "result")

    if tbl_spec.get(method) == "fn":
        return behaviour(method.rsplit(".", 1)[-1])
    if "." not in method:
        return -32601
    mount, name = method.rsplit(".", 1)
    if name.startswith("_") or mount not in tbl_spec:
        return -32601
    kind = tbl_spec[mount]
    if kind == "rec":
        if name in ("pub", "count", "nargs", "te", "te_bad", "oth", "oth_bad", "uns"):
            return behaviour(name)
        if name == "helper":  # public callable attribute (a bound method of another object)
            return "result"
        return -32602 if name in ("attr", "items", "child", "buddy") else -32601  # public, not callable
    if kind == "plain":
        return -32602 if name in ("value", "child") else -32601
    return -32602 if name == "child" else -32601  # the recorded functions carry one public attribute


def same_id(a, b):
    if isinstance(a, bool) or isinstance(b, bool) or type(a) is not type(b):
        # 1 and 1.0 are the same JSON number only if written the same; keep int/float apart
        return False
    return a == b


def check_element(chk, tbl_idx, j, r, case):
    """``r`` is the response object for request element ``j`` (or None)."""
    cls = element_class(j)
    if cls in ("invalid", "invalid_by_model"):
        if not (isinstance(r, dict) and r.get("id") is None and isinstance(r.get("error"), dict)
                and r["error"].get("code") == -32600):
            chk.monitor_failure("classification", {"class": cls, "want": -32600},
                                "structurally invalid request not answered by -32600 with null id", case)
        return
    if cls == "grey":
        return
    i = j.get("id")
    if i is None:
        if r is not None:
            chk.monitor_failure("classification", {"class": "notification"}, "notification was answered", case)
        return
    if r is None:
        chk.monitor_failure("classification", {"class": "request", "id_class": id_class(i)},
                            "request with an id got no response", case)
        return
    if not same_id(r.get("id"), i):
        chk.monitor_failure("id_echo", {"id_class": id_class(i)},
                            f"request id of class {id_class(i)} not echoed unchanged", case)
    want = expected_code(TABLE_SPECS[tbl_idx], j["method"])
    got = "result" if "result" in r else (r.get("error") or {}).get("code")
    if got not in (want if isinstance(want, tuple) else (want,)):
        chk.monitor_failure("classification", {"class": "request", "want": want, "got": got},
                            f"conforming request answered by {got}, the property requires {want}", case)
    # the arguments reach the method as sent: nargs reports how many positional arguments and
    # which keyword arguments it received
    elif got == "result" and j["method"].rsplit(".", 1)[-1] == "nargs" and "params" in j:
        p = j["params"]
        expect = [len(p), []] if isinstance(p, list) else [0, list(p.keys())]
        if r["result"] != expect:
            shape = "named" if isinstance(p, dict) else "positional"
            chk.monitor_failure("params_delivered", {"params": shape, "model_key": isinstance(p, dict) and "__model__" in p},
                                f"{shape} params did not reach the method as sent: it saw {r['result']}, expected {expect}", case)


def is_notification(j):
    return element_class(j) in ("strict", "grey") and j.get("id") is None


def escape_cause(parsed_ok, parsed, kind):
    if not parsed_ok:
        return "parse_fail"
    elems = parsed if isinstance(parsed, list) else [parsed]
    causes = set()
    for j in elems:
        if element_class(j) == "invalid_by_model":
            if isinstance(j.get("id"), list | dict):
                causes.add("id_array_or_object")
            if set(j) - KNOWN:
                causes.add("unknown_member")
            if params_status(j.get("params")) == "bad":
                causes.add("invalid_model_param")
        elif element_class(j) in ("strict", "grey") and j.get("id") is not None:
            name = j["method"].rsplit(".", 1)[-1]
            if name == "uns":
                causes.add("unserializable_result")
            if name in ("te_bad", "oth_bad"):
                causes.add("unserializable_error_message")
    if kind == "EValidation":
        causes &= {"id_array_or_object", "unknown_member", "invalid_model_param"}
    elif kind == "ESerialization":
        causes &= {"unserializable_result", "unserializable_error_message"}
    return "+".join(sorted(causes)) or "unexplained"


def monitors(chk, tbl_idx, data, parsed_ok, parsed, outcome, log, case):
    tbl = build_table(tbl_idx, [])
    for e in log:
        if not is_public_entry(tbl, e):
            chk.monitor_failure("only_public", {"entry": "private" if (e[1] or "").startswith("_") else "unmounted"},
                                f"invoked {e} which is not a public method of a mounted object", case)
    if outcome[0] == "escaped":
        chk.monitor_failure("no_exception", {"exc": outcome[2].split(":")[0],
                                             "cause": escape_cause(parsed_ok, parsed, outcome[1])},
                            f"handle_json raised {outcome[2]}", case)
        return
    doc = None
    if outcome[0] == "bytes":
        try:
            doc = parse_response(outcome[1])
        except ValueError as exc:
            chk.monitor_failure("response_parses", {}, f"response is not JSON: {exc}", case)
            return
        if not document_grammar_ok(doc):
            rs = doc if isinstance(doc, list) else [doc]
            shape = "other"
            if all(isinstance(r, dict) for r in rs) and any("result" in r and r.get("id") is None for r in rs):
                elems = parsed if isinstance(parsed, list) else [parsed]
                ids = {id_class(j.get("id")) for j in elems if isinstance(j, dict)}
                shape = "success_null_id:" + ("nonfinite_float" if "nonfinite_float" in ids else "other")
            chk.monitor_failure("response_grammar", {"shape": shape},
                                "response violates the JSON-RPC 2.0 response grammar", case)
    if not parsed_ok:
        if not (isinstance(doc, dict) and doc.get("id") is None and (doc.get("error") or {}).get("code") == -32700):
            chk.monitor_failure("classification", {"class": "parse_error"}, "malformed JSON not answered by -32700", case)
        if log:
            chk.monitor_failure("only_public", {"entry": "on_parse_error"}, "invocation on malformed JSON", case)
        return
    if isinstance(parsed, list):
        if not parsed:
            if not (isinstance(doc, dict) and doc.get("id") is None and (doc.get("error") or {}).get("code") == -32600):
                chk.monitor_failure("batch_shape", {"batch": "empty"}, "empty batch not answered by one -32600", case)
            return
        if any(isinstance(j, dict) and params_status(j.get("params")) == "unknown" for j in parsed):
            return  # whether such an element is answered depends on pydantic's verdict on the model
        answered = [j for j in parsed if not is_notification(j)]
        rs = doc if isinstance(doc, list) else ([] if doc is None else None)
        if rs is None or len(rs) != len(answered):
            chk.monitor_failure("batch_shape", {"batch": "count"},
                                "batch response is not one response per non-notification element", case)
            return
        for j, r in zip(answered, rs):
            check_element(chk, tbl_idx, j, r, case)
    else:
        if isinstance(doc, list):
            chk.monitor_failure("batch_shape", {"batch": "array_for_single"}, "single request answered by array", case)
            return
        check_element(chk, tbl_idx, parsed, doc, case)


# ----------------------------------------------------------------------------
# generators

SEGMENTS = ["child", "buddy", "helper", "items", "o", "core", "x", "f", "a", "b", "g", "te", "uns", "_p", "n", "pub", "count", "nargs", "te_bad",
            "oth", "oth_bad", "_priv", "__class__", "attr", "_hidden", "nope", "", "__call__", "__init__",
            "pub ", "Pub", "value", "describe", "get_version", "playback", "tracklist", "_do", "_log", "é", "\U0001F600"]
GOOD_PATHS = ["o._secret", "o._boom", "core.x._secret", "core.x._boom", "core.playback._secret", "o.child._secret", "o.pub", "o.count", "o.nargs", "o.te", "o.oth", "o.uns", "o.te_bad", "o.oth_bad", "core.x.pub",
              "core.x.count", "f", "a.b", "g.te", "g.uns", "g.count", "_p", "o.attr", "o._priv", "o.nope", "n.value",
              "core.pub", "core.playback.pub", "core.get_version", "core.describe", "o.pub.x.pub", "f.x",
              "o.pub.__call__", "f.__call__", "o.__init__", "o._do", "x.pub", "core.x._priv"]


# attribute chains of 3-5 segments that look valid at every level: each middle segment is a real
# public attribute (an object with public callables, a bound method, a list, an int) of the
# object before it, the first part is a real mount.  None of them may invoke anything.
DEEP_PATHS = [
    "o.child.pub", "o.child.count", "o.child.child.pub", "o.child.child.nargs", "o.buddy.pub", "o.buddy.count",
    "o.child.helper", "o.child.buddy.count", "o.child.child.te", "core.x.child.pub", "core.x.child.child.count",
    "core.x.buddy.te", "core.x.child.buddy.pub", "f.child.pub", "f.child.child.pub", "a.b.child.count", "g.count.child.pub",
    "n.child.pub", "n.child.child.uns", "_p.child.pub", "o.items.clear", "o.items.copy", "o.items.pop", "o.attr.bit_length",
    "o.attr.real", "o.child.items.copy", "o.child.attr.bit_length", "core.x.child.child.items.copy",
    "core.playback.child.pub", "core.tracklist.child.child.count", "core.get_version.child.pub", "core.playback.buddy.pub",
    "core.child.pub", "core.buddy.count", "o.pub.x.child.pub", "o.pub.x.child.child.pub", "o.count.child.pub", "core.pub.child.pub",
    "o.helper.__self__.pub", "o.child._priv", "o.pub.__self__.child.pub", "o.child.child.child.pub", "o.helper.__call__",
]
DIRECT_PATHS = ["o.helper", "core.x.helper", "core.playback.helper", "core.helper", "o.child", "o.buddy", "o.items", "f.child",
                "n.child", "core.playback.child"]


def gen_path(rng):
    k = rng.weighted([("good", 6), ("segments", 3), ("deeper", 1), ("deep_chain", 4), ("direct", 1)])
    if k == "deep_chain":
        return rng.choice(DEEP_PATHS)
    if k == "direct":
        return rng.choice(DIRECT_PATHS)
    if k == "good":
        return rng.choice(GOOD_PATHS)
    if k == "deeper":
        return rng.choice(GOOD_PATHS) + "." + rng.choice(SEGMENTS)
    return ".".join(rng.choice(SEGMENTS) for _ in range(rng.randint(0, 4)))


def gen_json(rng, depth=3):
    k = rng.weighted([("null", 1), ("bool", 1), ("int", 2), ("float", 1), ("str", 2),
                      ("arr", 2 if depth else 0), ("obj", 2 if depth else 0)])
    if k == "null":
        return None
    if k == "bool":
        return rng.random() < 0.5
    if k == "int":
        return rng.choice([0, 1, -1, 7, 2**31, 2**63, -2**63 - 1, 10**30, rng.randint(-1000, 1000)])
    if k == "float":
        return rng.choice([0.0, -0.0, 1.5, 1.0, -2.25, 1e22, 1e-7, 3.141592653589793,
                           Raw("1e400"), Raw("-1e400"), Raw("NaN"), Raw("1E2"), Raw("1e-400")])
    if k == "str":
        return rng.choice(["", "x", "2.0", "jsonrpc", "o.pub", "é", "\U0001F600", "a\nb", "\\", '"', "\x00", "__model__"])
    if depth and rng.random() < 0.12:
        return rng.choice(GOOD_MODELS) if rng.random() < 0.7 else rng.choice(BAD_MODELS)
    if k == "arr":
        return [gen_json(rng, depth - 1) for _ in range(rng.randint(0, 3))]
    keys = ["jsonrpc", "method", "id", "params", "a", "b", "", "__model__", "uri", "é"]
    return {rng.choice(keys): gen_json(rng, depth - 1) for _ in range(rng.randint(0, 3))}


ID_CHOICES = [
    ("absent", 3), ("null", 1), ("int", 4), ("bigint", 1), ("string", 3), ("float", 2), ("nonfinite", 1),
    ("bool", 1), ("array", 1), ("object", 1),
]


def gen_id(rng):
    k = rng.weighted(ID_CHOICES)
    if k == "absent":
        return k, None
    v = {
        "null": lambda: None,
        "int": lambda: rng.choice([0, 1, -1, 42, rng.randint(-10**6, 10**6)]),
        "bigint": lambda: rng.choice([2**63, -2**63 - 1, 10**40, -10**40, 2**64 - 1]),
        "string": lambda: rng.choice(["", "x", "1", "null", "é", "\U0001F600", "a b", "id-" + str(rng.randint(0, 99)), "\x00\x1f",
                                      " x", "x ", "\t7", "7\n", "\u00a0x\u00a0", " "]),
        "float": lambda: rng.choice([1.5, 1.0, -0.0, 0.0, 1e22, 1e-7, Raw("1E2"), Raw("1e-400"), 2.5e-300, 1.7976931348623157e308]),
        "nonfinite": lambda: rng.choice([Raw("1e400"), Raw("-1e400"), Raw("NaN"), Raw("Infinity"), Raw("-Infinity")]),
        "bool": lambda: rng.random() < 0.5,
        "array": lambda: rng.choice([[], [1], [None], ["x", 2]]),
        "object": lambda: rng.choice([{}, {"a": 1}, {"id": 1}]),
    }[k]()
    return k, v


def gen_request(rng, valid_bias=0.5):
    """One request object; each member independently missing / mistyped / extreme."""
    dist = {}
    clean = rng.random() < valid_bias
    req = {}
    kind = "ok" if clean else rng.weighted([("ok", 6), ("absent", 1), ("wrong", 2)])
    dist["jsonrpc"] = kind
    if kind == "ok":
        req["jsonrpc"] = "2.0"
    elif kind == "wrong":
        req["jsonrpc"] = rng.choice(["1.0", "2", 2.0, 2, None, ["2.0"], "2.0 ", "", True, {"v": "2.0"}])
    kind = "str" if clean else rng.weighted([("str", 8), ("absent", 1), ("wrong", 1)])
    dist["method"] = kind
    if kind == "str":
        req["method"] = gen_path(rng)
    elif kind == "wrong":
        req["method"] = rng.choice([5, None, True, ["o.pub"], {"m": "o.pub"}, 1.5])
    if clean:
        kid, vid = gen_id(rng)
        while kid in ("array", "object", "bool") and rng.random() < 0.7:
            kid, vid = gen_id(rng)
    else:
        kid, vid = gen_id(rng)
    dist["id"] = kid
    if kid != "absent":
        req["id"] = vid
    kind = rng.weighted([("absent", 3), ("list", 3), ("dict", 3), ("wrong", 0 if clean else 2)])
    dist["params"] = kind
    if kind == "list":
        req["params"] = [gen_json(rng, 2) for _ in range(rng.randint(0, 3))]
    elif kind == "dict":
        req["params"] = {rng.choice(["a", "b", "uri", "__model__", "", "self", "é"]): gen_json(rng, 2)
                         for _ in range(rng.randint(0, 3))}
    elif kind == "wrong":
        req["params"] = rng.choice([None, 1, "s", True, 1.5])
    if not clean and rng.random() < 0.25:
        dist["extra"] = "yes"
        req[rng.choice(["x", "result", "error", "Jsonrpc", "ID", "", "params ", "__model__"])] = gen_json(rng, 1)
    items = list(req.items())
    rng.shuffle(items)
    return dict(items), dist


def gen_structured(rng):
    if rng.random() < 0.55:
        req, dist = gen_request(rng)
        return req, {"shape:single": 1, **{f"{k}:{v}": 1 for k, v in dist.items()}}
    n = rng.choice([0, 1, 1, 2, 2, 3, 4, 5, 8])
    out = []
    for _ in range(n):
        if rng.random() < 0.12:
            out.append(rng.choice([5, None, "x", [], [1], True, 1.5, [{"jsonrpc": "2.0", "method": "o.pub", "id": 1}]]))
        else:
            out.append(gen_request(rng, valid_bias=0.7)[0])
    return out, {f"shape:batch{min(n, 3)}{'+' if n > 3 else ''}": 1}


METHOD_NAMES = ["pub", "count", "nargs", "te", "oth", "uns", "te_bad", "oth_bad", "helper", "count", "nargs"]


def callable_paths(tbl_idx):
    out = []
    for mount, kind in TABLE_SPECS[tbl_idx].items():
        if kind == "fn":
            out.append(mount)
        elif kind == "rec":
            out += [f"{mount}.{m}" for m in METHOD_NAMES]
    return out


def gen_valid_calls(rng):
    """Directed stream: conforming requests naming callable methods (single, or a batch mixing
    requests and notifications), so that results / -32602 / application errors and the
    history-dependent oracle (count) are exercised as often as the rejections."""
    tbl_idx = rng.choice([0, 0, 1, 3])
    paths = callable_paths(tbl_idx)

    def one():
        req = {"jsonrpc": "2.0", "method": rng.choice(paths)}
        kid, vid = gen_id(rng)
        while kid in ("array", "object", "bool", "nonfinite"):
            kid, vid = gen_id(rng)
        if kid != "absent":
            req["id"] = vid
        k = rng.choice(["absent", "list", "dict"])
        if k == "list":
            req["params"] = [rng.choice([1, "x", None, [1], {"a": 1}, rng.choice(GOOD_MODELS)]) for _ in range(rng.randint(0, 3))]
        elif k == "dict":
            req["params"] = {rng.choice(["a", "b", "uri", "value"]): rng.choice([1, "x", None, rng.choice(GOOD_MODELS)])
                             for _ in range(rng.randint(0, 2))}
        return req

    if rng.random() < 0.5:
        return tbl_idx, one()
    return tbl_idx, [one() for _ in range(rng.randint(1, 6))]


def tag_name_cases(jsonrpc):
    """Requests whose params carry a ``__model__`` tag, for every tag name the implementation itself
    knows (its tag registry and everything mopidy.models exports, read at run time), their
    wrong-case / padded variants, unknown names and non-string tags - bare, with fields, nested, as
    notification and inside a batch."""
    from mopidy import models

    names = set(getattr(models, "__all__", ())) | {n for n in dir(models) if not n.startswith("_")}
    for attr in dir(jsonrpc):
        reg = getattr(jsonrpc, attr)
        if isinstance(reg, dict) and reg and all(isinstance(k, str) for k in reg) and any(k in names for k in reg):
            names |= set(reg)
    tags = []
    for n in sorted(names):
        tags += [n, n.lower(), n.upper(), n + " ", "models." + n]
    tags += ["", "Bogus", "__model__", "object", "dict", "BaseModel", "é"]
    tags = list(dict.fromkeys(tags)) + [5, None, [], {}, True, 1.5, ["Artist"], {"__model__": "Artist"}]
    out = []
    # named params that themselves have a member called "__model__" (a keyword argument of that
    # name, not a model): members that would and would not fit the named model
    for n in sorted(names) + ["Bogus"]:
        for named in ({"__model__": n}, {"__model__": n, "name": "x"}, {"__model__": n, "uri": "u", "type": "track"},
                      {"__model__": n, "junk": 1}, {"__model__": n, "tlid": 1}, {"name": "x", "__model__": n, "value": {"__model__": "Artist"}}):
            out.append((0, enc({"jsonrpc": "2.0", "id": "n1", "method": "o.nargs", "params": named}).encode("utf-8"), "tag_names"))
            out.append((0, enc({"jsonrpc": "2.0", "id": 2, "method": "core.x.pub", "params": named}).encode("utf-8"), "tag_names"))
        out.append((0, enc([{"jsonrpc": "2.0", "id": 1, "method": "o.count"},
                            {"jsonrpc": "2.0", "id": 2, "method": "o.nargs", "params": {"__model__": n, "junk": 1}},
                            {"jsonrpc": "2.0", "method": "o.nargs", "params": {"__model__": n, "name": "x"}},
                            {"jsonrpc": "2.0", "id": 3, "method": "o.count"}]).encode("utf-8"), "tag_names"))
    for tag in tags:
        bare = {"__model__": tag}
        full = {"__model__": tag, "uri": "u"}
        reqs = [
            {"jsonrpc": "2.0", "id": 1, "method": "o.nargs", "params": [bare]},
            {"jsonrpc": "2.0", "id": "t", "method": "o.nargs", "params": {"value": full}},
            {"jsonrpc": "2.0", "method": "o.count", "params": [[{"a": bare}]]},
            [{"jsonrpc": "2.0", "id": 1, "method": "o.count"}, {"jsonrpc": "2.0", "id": 2, "method": "o.nargs", "params": [full, bare]},
             {"jsonrpc": "2.0", "id": 3, "method": "o.count"}],
        ]
        out += [(0, enc(r).encode("utf-8"), "tag_names") for r in reqs]
    return out


PADS = [" ", "  ", "\t", "\n", "\r\n", "\u00a0", "\u2003", "\u3000", "\x0b", "\x1f"]


def whitespace_cases():
    """String ids and method names padded with white space (spaces, tabs, newlines, NBSP and other
    Unicode spaces): an id must be echoed with its padding, padded ids that would collide after
    stripping must stay distinct within a batch, and a padded name of an existing method is not
    that method."""
    out = []
    for pad in PADS:
        for ident in ("x", "7", ""):
            for padded in (pad + ident, ident + pad, pad + ident + pad):
                out.append({"jsonrpc": "2.0", "id": padded, "method": "o.pub"})
                out.append({"jsonrpc": "2.0", "id": padded, "method": "o.nope"})
            out.append([{"jsonrpc": "2.0", "id": ident, "method": "o.count"}, {"jsonrpc": "2.0", "id": ident + pad, "method": "o.count"},
                        {"jsonrpc": "2.0", "id": pad + ident, "method": "o.count"}, {"jsonrpc": "2.0", "id": pad + ident + pad, "method": "o.te"}])
        for meth in ("o.pub", "o.count", "f", "a.b", "core.x.nargs", "o.helper", "o._priv"):
            for padded in (pad + meth, meth + pad, pad + meth + pad, meth.replace(".", pad + ".", 1), meth.replace(".", "." + pad, 1)):
                out.append({"jsonrpc": "2.0", "id": 1, "method": padded})
                out.append({"jsonrpc": "2.0", "method": padded})
        out.append({"jsonrpc": "2.0" + pad, "id": 1, "method": "o.pub"})
        out.append({"jsonrpc": pad + "2.0", "id": 1, "method": "o.pub"})
    return [(0, enc(r).encode("utf-8"), "whitespace") for r in out]


def gen_bytes(rng):
    k = rng.weighted([("random", 2), ("mutated", 5), ("special", 2)])
    if k == "random":
        return bytes(rng.randrange(256) for _ in range(rng.randint(0, 24))), "random"
    if k == "special":
        return rng.choice([
            b"", b" ", b"\xef\xbb\xbf{}", b"\xff\xfe", b"[" * 250 + b"]" * 250, b"[" * 150 + b"]" * 150, b"{" * 10,
            b'{"jsonrpc":"2.0","method":"o.pub","id":"\\ud800"}', b'{"jsonrpc":"2.0","method":"o.pub","id":"\xed\xa0\x80"}',
            b'{"jsonrpc":"2.0","method":"o.pub","id":1}garbage', b'{"jsonrpc":"2.0","method":"o.pub","id":1,}',
            b"{'jsonrpc':'2.0'}", b'{"jsonrpc":"2.0","method":"o.pub","id":01}', b"nul", b"NaN", b"-Infinity", b"[NaN]",
            b'{"jsonrpc":"2.0","jsonrpc":"1.0","method":"o.pub","id":1}', b'{"jsonrpc":"2.0","method":"o.pub","id":1,"id":[]}',
            b'\x00', b'"\x7f"', b'"\x01"', b"1e999999", b"-", b"0x10", b"1.", b".5", b"+1", b'"\\u00"', b'"\\x41"',
            b'{"jsonrpc":"2.0","method":"o.pub","id":1}\n{"jsonrpc":"2.0","method":"o.pub","id":2}',
        ]), "special"
    base = enc(gen_structured(rng)[0]).encode("utf-8", "surrogatepass")
    op = rng.choice(["truncate", "flip", "insert", "delete", "dup", "none"])
    b = bytearray(base)
    if b and op == "truncate":
        b = b[: rng.randrange(len(b))]
    elif b and op == "flip":
        i = rng.randrange(len(b))
        b[i] ^= 1 << rng.randrange(8)
    elif op == "insert":
        b.insert(rng.randrange(len(b) + 1), rng.choice([0, 0x22, 0x5C, 0x7B, 0x2C, 0xFF, 0xC3, 0x20, 0x5D]))
    elif b and op == "delete":
        del b[rng.randrange(len(b))]
    elif op == "dup":
        b = b + b
    return bytes(b), "mutated:" + op


CORPUS_DIR = vlib.VERIF / "corpus" / "C07"


def load_corpus():
    cases = []
    for f in sorted(CORPUS_DIR.glob("*.json")):
        for item in json.loads(f.read_text()):
            data = bytes.fromhex(item["hex"]) if "hex" in item else item["text"].encode("utf-8")
            cases.append((item.get("table", 0), data, f"corpus:{f.stem}"))
    return cases


# ----------------------------------------------------------------------------
# the check


def g_outcome(outcome, chk, case):
    if outcome[0] == "nothing":
        return "ONothing"
    if outcome[0] == "escaped":
        return f"(OEscaped {outcome[1]})"
    try:
        return f"(OBytes {g_json(parse_response(outcome[1]))})"
    except ValueError:
        return "(OBytes JNull)"


def g_log(log):
    return g_list([f"(EMount {g_str(m)})" if a is None else f"(EAttr {g_str(m)} {g_str(a)})" for m, a in log])


def wrapper_stage(chk, jsonrpc):
    quick = chk.tier == "quick"
    n_struct, n_json, n_bytes = (1400, 400, 700) if quick else (24000, 6000, 10000)
    cases = load_corpus() + tag_name_cases(jsonrpc) + whitespace_cases()
    rng = chk.rng
    for _ in range(n_struct):
        v, dist = gen_structured(rng)
        cases.append((rng.choice([0, 0, 0, 1, 1, 2, 3]), enc(v).encode("utf-8"), "structured"))
        for k in dist:
            chk.dist(k)
    for _ in range(n_struct // 3):
        t_, v = gen_valid_calls(rng)
        cases.append((t_, enc(v).encode("utf-8"), "valid_calls"))
    for _ in range(n_json):
        cases.append((rng.choice([0, 1]), enc(gen_json(rng, 4)).encode("utf-8"), "json"))
    for _ in range(n_bytes):
        b, label = gen_bytes(rng)
        cases.append((rng.choice([0, 1]), b, "bytes:" + label))

    rows = []
    for tbl_idx, data, stream in cases:
        parsed_ok, parsed = parse_oracle(data)
        if parsed_ok and rc.json_depth(parsed) > 250:
            parsed_ok_for_coq = None  # too deep to be worth emitting; monitors still run
        else:
            parsed_ok_for_coq = parsed_ok
        outcome, log = run_impl(jsonrpc, tbl_idx, data)
        case = {"table": tbl_idx, "hex": data.hex(), "text": data.decode("utf-8", "replace")[:400], "stream": stream}
        monitors(chk, tbl_idx, data, parsed_ok, parsed, outcome, log, case)
        chk.dist("stream:" + stream.split(":")[0])
        chk.dist("outcome:" + outcome[0])
        elems = parsed if isinstance(parsed, list) else [parsed]
        nontrivial = parsed_ok and any(isinstance(j, dict) and "jsonrpc" in j and "method" in j for j in elems)
        chk.count(1, nontrivial_key=data if nontrivial else None)
        if log:
            chk.dist("invocations>0")
        for m_, a_ in log:
            chk.dist("invoked:" + ("mounted_callable" if a_ is None else "helper_attribute" if a_ == "helper" else "attribute"))
        if outcome[0] == "bytes":
            try:
                rs_ = parse_response(outcome[1])
                for r_ in (rs_ if isinstance(rs_, list) else [rs_]):
                    chk.dist("response:" + ("result" if "result" in r_ else str((r_.get("error") or {}).get("code"))))
                    if "error" in r_ and isinstance(r_["error"].get("data"), dict):
                        chk.dist("error_data_type:" + str(r_["error"]["data"].get("type")))
            except (ValueError, AttributeError):
                pass
        if parsed_ok:
            for j_ in (parsed if isinstance(parsed, list) else [parsed]):
                if isinstance(j_, dict) and "params" in j_:
                    chk.dist("params_models:" + params_status(j_.get("params")))
        if len(rows) % 400 == 0:
            chk.sample({"stream": stream, "table": tbl_idx, "request": case["text"][:200],
                        "response": outcome[1][:200].decode("utf-8", "replace") if outcome[0] == "bytes" else outcome[0],
                        "log": log})
        if parsed_ok_for_coq is None:
            continue
        g_in = f"(Parsed {g_json(parsed)})" if parsed_ok else "ParseFail"
        rows.append((case, f"(T{tbl_idx}, {g_in}, {g_outcome(outcome, chk, case)}, {g_log(log)})", outcome, log))

    header = HEADER + "".join(f"Definition T{i} : mounts := {g_table(i)}.\n" for i in range(len(TABLE_SPECS)))
    shards = [rows[i: i + 500] for i in range(0, len(rows), 500)]
    results = rc.run_shards(vlib, AREA, header, "case", [[r[1] for r in s] for s in shards],
                            [f"case_ok {MODEL_VERSION}", "grammar_ok", "log_public_ok"], jobs=12)
    corr_ok = True
    for shard, (lists, log_text) in zip(shards, results):
        if lists is None:
            corr_ok = False
            chk.corr_failure("wrapper", {"shard": "coq evaluation failed"}, log_text[-1500:])
            continue
        for i in lists[0]:
            corr_ok = False
            case, _, outcome, log = shard[i]
            chk.corr_failure("wrapper", {**case, "impl_outcome": [str(x)[:300] for x in outcome], "impl_log": log})
        for i in lists[1]:
            case, _, outcome, _ = shard[i]
            try:
                py_ok = document_grammar_ok(parse_response(outcome[1]))
            except ValueError:
                py_ok = False
            if py_ok:  # otherwise the Python mirror has reported it already, with its shape key
                chk.monitor_failure("response_grammar", {"shape": "gallina-only"},
                                    "document_ok_b (Gallina) rejects the response document", case)
        for i in lists[2]:
            case, _, _, log = shard[i]
            chk.monitor_failure("only_public", {"entry": "gallina"}, "public_entry_b (Gallina) rejects an invocation", case)
    chk.obligation("corr:wrapper", "correspondence", corr_ok)
    chk.notes.append(f"wrapper stage: {len(cases)} inputs, {len(rows)} evaluated in Coq")


# ----------------------------------------------------------------------------
# the real transport handlers on stubbed transports


def run_http(handlers, jsonrpc, tbl_idx, body):
    raw = []
    tbl = build_table(tbl_idx, raw)
    h = handlers.JsonRpcHandler.__new__(handlers.JsonRpcHandler)
    h.jsonrpc = jsonrpc.Wrapper(objects=tbl)
    h.csrf_protection = False
    h.allowed_origins = set()
    h.request = SimpleNamespace(body=body, headers={}, remote_ip="test")
    out = {"written": [], "error": None}
    h.write = lambda chunk: out["written"].append(chunk) or True
    h.write_error = lambda status, **_kw: out.__setitem__("error", status)
    h.set_header = lambda *_a, **_k: None
    h.set_status = lambda *_a, **_k: None
    h.post()
    return out["written"], out["error"] is not None, finish_log(tbl, raw)


def run_ws(handlers, jsonrpc, tbl_idx, message):
    raw = []
    tbl = build_table(tbl_idx, raw)
    h = handlers.WebSocketHandler.__new__(handlers.WebSocketHandler)
    h.jsonrpc = jsonrpc.Wrapper(objects=tbl)
    h.request = SimpleNamespace(remote_ip="test")
    out = {"written": [], "closed": False}
    h.write_message = lambda m, **_k: out["written"].append(m) or True
    h.close = lambda *_a, **_k: out.__setitem__("closed", True)
    h.on_message(message)
    return out["written"], out["closed"], finish_log(tbl, raw)


def handler_stage(chk, jsonrpc):
    import logging

    from mopidy.http import handlers

    logging.getLogger("mopidy.http.handlers").setLevel(logging.CRITICAL)
    n = 250 if chk.tier == "quick" else 2500
    rng = vlib.Rng(chk.seed, "C07-handlers")
    cases = [(t, d) for t, d, _ in load_corpus()][:200] + [(0, b""), (0, b"\xff"), (0, b'{"jsonrpc":"2.0","method":"o.pub","id":"\xff"}')]
    for _ in range(n):
        if rng.random() < 0.5:
            cases.append((rng.choice([0, 1, 3]), gen_bytes(rng)[0]))
        else:
            cases.append((rng.choice([0, 1, 3]), enc(gen_structured(rng)[0]).encode("utf-8")))
    rows = []
    hlog = logging.getLogger("mopidy.http.handlers")
    hlog.addHandler(logging.NullHandler())
    saved_propagate = hlog.propagate
    hlog.propagate = False
    for tbl_idx, data in cases:
        try:
            text = data.decode("utf-8")
            utf8_ok = True
        except UnicodeDecodeError:
            text, utf8_ok = None, False
        parsed_ok, parsed = parse_oracle(data)
        runs = []
        # the log level is an extra dimension: the answer must not depend on it
        for level_name, level in (("quiet", logging.CRITICAL), ("debug", logging.DEBUG)):
            hlog.setLevel(level)
            logging.getLogger("mopidy").setLevel(level)
            try:
                per_level = [("http", run_http(handlers, jsonrpc, tbl_idx, data)), ("ws-binary", run_ws(handlers, jsonrpc, tbl_idx, data))]
                if text is not None:
                    per_level.append(("ws-text", run_ws(handlers, jsonrpc, tbl_idx, text)))
            except Exception as exc:  # noqa: BLE001
                chk.monitor_failure("no_exception", {"exc": "transport", "cause": "escaped_handler", "log_level": level_name},
                                    f"{type(exc).__name__} left the transport handler (log level {level_name})",
                                    {"table": tbl_idx, "hex": data.hex(), "text": data.decode("utf-8", "replace")[:300], "log_level": level_name})
                continue
            finally:
                hlog.setLevel(logging.CRITICAL)
                logging.getLogger("mopidy").setLevel(logging.WARNING)
            if level_name == "debug":
                quiet = {t: (w, f, l) for t, (w, f, l) in runs}
                for t, obs in per_level:
                    if t in quiet and quiet[t] != obs:
                        chk.monitor_failure("no_exception", {"exc": "transport", "cause": "depends_on_log_level"},
                                            f"the {t} answer differs when DEBUG logging is enabled for mopidy.http.handlers",
                                            {"table": tbl_idx, "hex": data.hex(), "text": data.decode("utf-8", "replace")[:300], "transport": t})
                per_level = [(t + "@debug", obs) for t, obs in per_level]
            runs += per_level
        for transport, (written, failed, log) in runs:
            case = {"table": tbl_idx, "hex": data.hex(), "text": data.decode("utf-8", "replace")[:300], "transport": transport}
            chk.count(1, nontrivial_key=(transport, data) if data and not utf8_ok or (parsed_ok and isinstance(parsed, dict | list)) else None)
            chk.dist("handler:" + transport)
            if failed and data:
                chk.monitor_failure("no_exception", {"exc": "transport", "cause": "invalid_utf8" if not utf8_ok else "other"},
                                    "the transport handler answered with HTTP 500 / closed the socket instead of a JSON-RPC response", case)
            if len(written) > 1:
                chk.monitor_failure("response_parses", {"n": "many"}, "more than one response document written", case)
                continue
            if failed:
                g_out = "EpTransportError"
            elif not data:
                g_out = "EpNoMessage" if not written else "(EpOut (OBytes JNull))"
            elif not written:
                g_out = "(EpOut ONothing)"
            else:
                w = written[0] if isinstance(written[0], bytes) else str(written[0]).encode()
                g_out = f"(EpOut {g_outcome(('bytes', w), chk, case)})"
                try:
                    if not document_grammar_ok(parse_response(w)) and not any(
                            id_class(j.get("id")) == "nonfinite_float"
                            for j in (parsed if isinstance(parsed, list) else [parsed]) if isinstance(j, dict)):
                        chk.monitor_failure("response_grammar", {"shape": "handler"}, "handler response violates the grammar", case)
                except ValueError:
                    chk.monitor_failure("response_parses", {}, "handler response is not JSON", case)
            g_in = f"(Parsed {g_json(parsed)})" if parsed_ok else "ParseFail"
            rows.append((case, f"(T{tbl_idx}, {vlib.g_bool(not data)}, {vlib.g_bool(utf8_ok)}, {g_in}, {g_out}, {g_log(log)})"))
    hlog.propagate = saved_propagate
    header = HEADER + "".join(f"Definition T{i} : mounts := {g_table(i)}.\n" for i in range(len(TABLE_SPECS)))
    shards = [rows[i: i + 500] for i in range(0, len(rows), 500)]
    results = rc.run_shards(vlib, AREA, header, "ep_case", [[r[1] for r in s] for s in shards],
                            [f"ep_case_ok {MODEL_VERSION}"], jobs=12)
    ok = True
    for shard, (lists, log_text) in zip(shards, results):
        if lists is None:
            ok = False
            chk.corr_failure("handlers", {"shard": "coq evaluation failed"}, log_text[-1500:])
            continue
        for i in lists[0]:
            ok = False
            chk.corr_failure("handlers", shard[i][0])
    chk.obligation("corr:handlers", "correspondence", ok)


# ----------------------------------------------------------------------------
# Inspector.describe (what core.describe returns) over generated classes and functions

ARG_NAMES = ["self", "a", "b", "uri", "uris", "tl_track", "value", "cls", "query", "x1", "kwargs_", "args_"]
DEFAULTS = ["None", "0", "1", "-5", "True", "False", "'x'", "''", "[]", "[1, 'a']", "{}", "1.5", "'é'"]
MEMBER_NAMES = ["pub", "get_x", "set_x", "play", "_priv", "__dunder__", "attr", "lookup", "search", "Zed", "a1", "defer", "self"]


def gen_function_source(rng, name, first=None):
    n = rng.choice([0, 1, 1, 2, 3, 4])
    pool = [a for a in ARG_NAMES if not (first and a in ("self", "cls"))]
    args = list(rng.sample(pool, n))
    if args and rng.random() < 0.5 and "self" in args:
        args.remove("self")
        args.insert(0, "self")
    if first:
        args.insert(0, first)
    ndef = rng.randint(0, len(args))
    parts = []
    for i, a in enumerate(args):
        parts.append(a if i < len(args) - ndef else f"{a}={rng.choice(DEFAULTS)}")
    if rng.random() < 0.25:
        parts.append("*rest")
    if rng.random() < 0.25:
        parts.append("**opts")
    doc = rng.choice(["", '    """Doc of %s.\n\n    second line é\n    """\n' % name, '    "one line"\n'])
    return f"def {name}({', '.join(parts)}):\n{doc}    return None\n"


def gen_inspected(rng):
    """-> dict mount -> class or function, built from generated source."""
    objects = {}
    for i in range(rng.randint(0, 4)):
        mount = rng.choice(["core.x", "o", "core.playback", "a.b", "f", "core.get_version", "o.pub", "_p", "core"]) + (str(i) if rng.random() < 0.3 else "")
        ns = {}
        if rng.random() < 0.4:
            exec(gen_function_source(rng, "fn"), ns)  # noqa: S102 - generated test input
            objects[mount] = ns["fn"]
            continue
        body = []
        for name in rng.sample(MEMBER_NAMES, rng.randint(0, 6)):
            kind = rng.weighted([("method", 6), ("static", 1), ("classm", 1), ("prop", 1), ("attr", 2), ("nested", 1), ("lambda", 1)])
            src = gen_function_source(rng, name, first="cls" if kind == "classm" else None)
            ind = "".join("    " + line + "\n" for line in src.splitlines())
            if kind == "method":
                body.append(ind)
            elif kind == "static":
                body.append("    @staticmethod\n" + ind)
            elif kind == "classm":
                body.append("    @classmethod\n" + ind)
            elif kind == "prop":
                body.append(f"    @property\n    def {name}(self):\n        return 1\n")
            elif kind == "attr":
                body.append(f"    {name} = {rng.choice(DEFAULTS)}\n")
            elif kind == "nested":
                body.append(f"    class {name}:\n        def inner(self):\n            return 1\n")
            else:
                body.append(f"    {name} = lambda self, q=1: q\n")
        exec("class K:\n" + ("".join(body) or "    pass\n"), ns)  # noqa: S102
        objects[mount] = ns["K"]
    if rng.random() < 0.05:
        objects[""] = len
    return objects


def g_sig(fn):
    import inspect

    import pydantic_core

    try:
        spec = inspect.getfullargspec(fn)
    except TypeError:  # builtins without a signature (only private ones occur: never described)
        return "(mkSig [] [] None None None)"
    defaults = [g_json(json.loads(pydantic_core.to_json(d))) for d in (spec.defaults or ())]
    doc = inspect.getdoc(fn)
    return (f"(mkSig {g_list([g_str(a) for a in spec.args])} {g_list(defaults)} {vlib.g_opt(spec.varargs, g_str)} "
            f"{vlib.g_opt(spec.varkw, g_str)} {vlib.g_opt(doc, g_str)})")


def g_itable(objects):
    import inspect

    items = []
    for mount, obj in objects.items():
        if inspect.isroutine(obj):
            items.append(f"({g_str(mount)}, IRoutine {g_sig(obj)})")
        else:
            members = [f"({g_str(n)}, {'IMRoutine ' + g_sig(v) if inspect.isroutine(v) else 'IMOther'})"
                       for n, v in inspect.getmembers(obj)]
            items.append(f"({g_str(mount)}, IClass {g_list(members)})")
    return g_list(items)


def instance_of(obj):
    import inspect

    if inspect.isroutine(obj):
        return obj
    try:
        return obj()
    except TypeError:
        return object.__new__(obj)  # the core controllers need arguments; methods are there without __init__


def g_instances(objects):
    """The wrapper table that goes with an inspector table: the functions, instances of the classes."""
    import inspect

    items = []
    for mount, obj in objects.items():
        inst = instance_of(obj)
        attrs = []
        for a in dir(inst):
            try:
                val = getattr(inst, a)
            except Exception:  # noqa: BLE001 - a property of an uninitialised controller
                continue
            attrs.append(f"({g_str(a)}, {'ACallable' if callable(val) else 'APlain'})")
        items.append(f"({g_str(mount)}, mkObj {vlib.g_bool(callable(inst))} {g_list(attrs)})")
    return g_list(items)


def inspector_stage(chk, jsonrpc):
    import inspect

    rng = vlib.Rng(chk.seed, "C07-inspector")
    tables = []
    try:
        from mopidy import core

        tables.append({
            "core.get_uri_schemes": core.Core.get_uri_schemes, "core.get_version": core.Core.get_version,
            "core.history": core.HistoryController, "core.library": core.LibraryController, "core.mixer": core.MixerController,
            "core.playback": core.PlaybackController, "core.playlists": core.PlaylistsController,
            "core.tracklist": core.TracklistController})
        chk.dist("inspector:real_core_classes")
    except Exception as exc:  # noqa: BLE001
        chk.notes.append(f"inspector: core classes not importable here: {exc!r}")
    tables.append({"o": Rec, "f": behave, "n": Plain})
    for _ in range(150 if chk.tier == "quick" else 2500):
        tables.append(gen_inspected(rng))
    rows, rows2 = [], []
    for objects in tables:
        case = {"mounts": {m: (getattr(o, "__name__", "?"), "routine" if inspect.isroutine(o) else "class") for m, o in objects.items()}}
        chk.count(1, nontrivial_key="inspector:" + json.dumps(case, sort_keys=True) if objects else None)
        try:
            insp = jsonrpc.Inspector(objects=objects)
        except AttributeError:
            rows.append((case, f"({g_itable(objects)}, None)"))
            chk.dist("inspector:empty_mount_refused")
            continue
        w = jsonrpc.Wrapper(objects={"core.describe": insp.describe})
        try:
            resp = json.loads(w.handle_json(b'{"jsonrpc":"2.0","id":1,"method":"core.describe"}'))
            described = resp["result"]
        except Exception as exc:  # noqa: BLE001
            chk.monitor_failure("no_exception", {"exc": type(exc).__name__, "cause": "core.describe"}, f"core.describe failed: {exc!r}", case)
            continue
        chk.dist(f"inspector:methods:{min(len(described), 5)}{'+' if len(described) > 5 else ''}")
        # monitors: only public routines of the mounted classes / the mounted functions are described,
        # "self" is never a parameter, and every described name is callable through a Wrapper on instances
        instances = {m: instance_of(o) for m, o in objects.items()}
        wi = jsonrpc.Wrapper(objects=instances)
        for name, desc in described.items():
            ok = name in objects and inspect.isroutine(objects[name])
            if not ok and "." in name:
                mount, attr = name.rsplit(".", 1)
                for m, o in objects.items():
                    if name == f"{m}.{attr}" or (name.startswith(m + ".") and name[len(m) + 1:] == attr):
                        ok = ok or (not inspect.isroutine(o) and not attr.startswith("_") and inspect.isroutine(getattr(o, attr, None)))
            if not ok:
                chk.monitor_failure("only_public", {"entry": "described"}, f"core.describe lists {name!r}, not a public routine of a mount", case)
            if any(p.get("name") == "self" for p in desc["params"]):
                chk.monitor_failure("only_public", {"entry": "described_self"}, f"{name!r} is described with a self parameter", case)
            try:
                wi._get_method(name)
            except jsonrpc.JsonRpcError:
                chk.monitor_failure("classification", {"class": "described_not_callable"},
                                    f"{name!r} is described but not callable through the wrapper", case)
        rows.append((case, f"({g_itable(objects)}, Some {g_json(described)})"))
        rows2.append((case, f"({g_itable(objects)}, {g_instances(objects)})"))
    for name, case_type, rr, ev in (("inspector", "itable * option json", rows, "describe_case_ok"),
                                    ("inspector_resolves", "itable * mounts", rows2, "describe_resolves_ok")):
        shards = [rr[i: i + 100] for i in range(0, len(rr), 100)]
        results = rc.run_shards(vlib, AREA, HEADER, case_type, [[r[1] for r in sh] for sh in shards], [ev], jobs=12)
        ok = True
        for shard, (lists, log_text) in zip(shards, results):
            if lists is None:
                ok = False
                chk.corr_failure(name, {"shard": "coq evaluation failed"}, log_text[-1500:])
                continue
            for i in lists[0]:
                ok = False
                chk.corr_failure(name, shard[i][0])
        chk.obligation(f"corr:{name}", "correspondence", ok)


# ----------------------------------------------------------------------------
# sequences of requests on ONE wrapper whose mounts change in between


def expected_dynamic(objects, method):
    """What the property requires of a conforming request on the mount table as it is NOW."""
    def behaviour(name):
        return {"te": -32602, "te_bad": (-32602, 0), "oth": 0, "oth_bad": 0, "uns": 0}.get(name, "result")

    if callable(objects.get(method)):
        return behaviour(method.rsplit(".", 1)[-1])
    if "." not in method:
        return -32601
    mount, name = method.rsplit(".", 1)
    if name.startswith("_") or mount not in objects:
        return -32601
    sentinel = object()
    v = getattr(objects[mount], name, sentinel)
    if v is sentinel:
        return -32601
    if not callable(v):
        return -32602
    return behaviour("pub" if name == "helper" else name)


def sequence_stage(chk, jsonrpc):
    """One Wrapper, many requests, the mount table mutated between them: a mount removed, replaced
    by another object, added; an attribute of a mounted object deleted, shadowed by a non-callable
    or replaced; wrapper.objects rebound to a new dict.  Every answer must be the one the table
    AS IT IS NOW requires, and only callables of the current table may be invoked (a callable that
    was valid earlier is not)."""
    rng = vlib.Rng(chk.seed, "C07-sequence")
    rows = []
    n_seq = 60 if chk.tier == "quick" else 700
    counter = [0]

    def fresh(kind, mount, raw):
        counter[0] += 1
        label = f"{mount}#{counter[0]}"
        if kind == "rec":
            return Rec(label, raw, depth=1)
        if kind == "plain":
            return Plain(label, raw)
        fn = mk_callable(mount, raw)
        fn._rec_key = ("f", label)
        inner_log_key = fn._rec_key

        def recorded(*a, **k):
            n = len(raw)
            raw.append(inner_log_key)
            return behave(mount.rsplit(".", 1)[-1], n, a, k)

        recorded._rec_key = inner_log_key
        return recorded

    directed = [
        [("call", "o.pub"), ("remove", "o"), ("call", "o.pub"), ("call", "o.count")],
        [("call", "f"), ("replace", "f", "fn"), ("call", "f"), ("replace", "f", "plain"), ("call", "f")],
        [("call", "o.helper"), ("delattr", "o", "helper"), ("call", "o.helper"), ("call", "o.pub")],
        [("call", "o.pub"), ("shadow", "o", "pub"), ("call", "o.pub"), ("call", "o.count")],
        [("call", "o.count"), ("replace", "o", "rec"), ("call", "o.count"), ("call", "o.pub")],
        [("call", "core.x.nargs"), ("rebind",), ("call", "core.x.nargs"), ("call", "o.pub")],
        [("call", "x.pub"), ("add", "x", "rec"), ("call", "x.pub"), ("remove", "x"), ("call", "x.pub")],
        [("call", "o.pub"), ("replace", "o", "fn"), ("call", "o.pub"), ("call", "o")],
        [("call", "o.te"), ("call", "o.te"), ("remove", "o"), ("call", "o.te")],
    ]
    for s_idx in range(len(directed) + n_seq):
        raw = []
        objects = {"o": Rec("o", raw, depth=1), "core.x": Rec("core.x", raw, depth=1), "f": mk_callable("f", raw)}
        w = jsonrpc.Wrapper(objects=objects)
        if s_idx < len(directed):
            steps = directed[s_idx]
        else:
            steps = []
            for _ in range(rng.randint(3, 9)):
                mounts_now = ["o", "core.x", "f", "x"]
                k = rng.weighted([("call", 6), ("remove", 1), ("replace", 2), ("add", 1), ("delattr", 1), ("shadow", 1), ("rebind", 0.5)])
                m = rng.choice(mounts_now)
                if k == "call":
                    steps.append(("call", rng.choice([f"{m}.{a}" for a in ("pub", "count", "nargs", "te", "helper", "uns", "attr")] + [m, "f"])))
                elif k in ("replace", "add"):
                    steps.append((k, m, rng.choice(["rec", "fn", "plain"])))
                elif k == "delattr":
                    steps.append((k, m, rng.choice(["helper", "buddy", "child"])))
                elif k == "shadow":
                    steps.append((k, m, rng.choice(["pub", "count", "helper"])))
                else:
                    steps.append((k, m) if k == "remove" else (k,))
        history = []
        for step in steps:
            op = step[0]
            objects = w.objects
            if op == "remove":
                objects.pop(step[1], None)
            elif op in ("replace", "add"):
                objects[step[1]] = fresh(step[2], step[1], raw)
            elif op == "delattr":
                try:
                    delattr(objects.get(step[1]), step[2])
                except (AttributeError, TypeError):
                    pass
            elif op == "shadow":
                if isinstance(objects.get(step[1]), Rec):
                    setattr(objects[step[1]], step[2], 5)
            elif op == "rebind":
                w.objects = dict(objects)
                w.objects["core.x"] = fresh("rec", "core.x", raw)
            history.append(list(step))
            if op != "call":
                continue
            method = step[1]
            notification = rng.random() < 0.25 and s_idx >= len(directed)
            req = {"jsonrpc": "2.0", "method": method, "params": [1]} if notification else {"jsonrpc": "2.0", "id": len(history), "method": method}
            data = enc(req).encode("utf-8")
            raw.clear()
            objects = w.objects
            case = {"sequence": [list(h) for h in history], "request": req, "text": data.decode(), "mounts_now": sorted(objects)}
            try:
                out = w.handle_json(data)
                outcome = ("nothing",) if out is None else ("bytes", bytes(out))
            except Exception as exc:  # noqa: BLE001
                chk.monitor_failure("no_exception", {"exc": type(exc).__name__, "cause": "sequence"}, f"handle_json raised {exc!r}", case)
                continue
            log = finish_log(objects, list(raw))
            chk.count(1, nontrivial_key="seq:" + json.dumps(history))
            chk.dist("sequence:step_after_" + (history[-2][0] if len(history) > 1 else "start"))
            for e in log:
                if not is_public_entry(objects, e):
                    chk.monitor_failure("only_public", {"entry": "stale_or_unmounted", "after": history[-2][0] if len(history) > 1 else "start"},
                                        f"invoked {e}, which is not a public callable of the mount table as it is now", case)
            want = expected_dynamic(objects, method)
            if notification:
                if outcome[0] != "nothing":
                    chk.monitor_failure("classification", {"class": "notification", "stage": "sequence"}, "notification was answered", case)
                if want == -32601 and log:
                    chk.monitor_failure("only_public", {"entry": "stale_or_unmounted", "after": "notification"},
                                        "a method that is not found now was invoked by a notification", case)
            else:
                try:
                    r = parse_response(outcome[1])
                    got = "result" if "result" in r else r["error"]["code"]
                except Exception:  # noqa: BLE001
                    got = "unparseable"
                if got not in (want if isinstance(want, tuple) else (want,)):
                    chk.monitor_failure("classification", {"class": "sequence", "want": want, "got": got,
                                                           "after": history[-2][0] if len(history) > 1 else "start"},
                                        f"after {history[-2] if len(history) > 1 else 'start'} the request was answered by {got}, "
                                        f"the mount table now requires {want}", case)
            parsed_ok, parsed = parse_oracle(data)
            rows.append((case, f"({g_table(0, objects)}, Parsed {g_json(parsed)}, {g_outcome(outcome, chk, case)}, {g_log(log)})"))
    shards = [rows[i: i + 100] for i in range(0, len(rows), 100)]
    results = rc.run_shards(vlib, AREA, HEADER, "case", [[r[1] for r in sh] for sh in shards], [f"case_ok {MODEL_VERSION}", "log_public_ok"], jobs=12)
    ok = True
    for shard, (lists, log_text) in zip(shards, results):
        if lists is None:
            ok = False
            chk.corr_failure("sequence", {"shard": "coq evaluation failed"}, log_text[-1500:])
            continue
        for i in lists[0]:
            ok = False
            chk.corr_failure("sequence", shard[i][0])
        for i in lists[1]:
            chk.monitor_failure("only_public", {"entry": "gallina", "stage": "sequence"}, "public_entry_b (Gallina) rejects an invocation", shard[i][0])
    chk.obligation("corr:sequence", "correspondence", ok)


def search_hook(jsonrpc):
    """Directed search after a tie break: mutate the disagreeing request and look for an
    input on which a monitor (the property predicate) fails."""
    def hook(cf):
        case = cf.get("case") or {}
        if "hex" not in case:
            return None
        probe = vlib.Check("C07", AREA)
        base = bytes.fromhex(case["hex"])
        rng = vlib.Rng(0, "C07-search")
        candidates = [base]
        ok, parsed = parse_oracle(base)
        if ok:
            elems = parsed if isinstance(parsed, list) else [parsed]
            for j in elems:
                if isinstance(j, dict):
                    for idv in (1, "x", 1.5, [], {}, True):
                        candidates.append(enc({**j, "id": idv}).encode())
                    candidates.append(enc([j, j]).encode())
                    candidates.append(enc({**j, "x": 1}).encode())
                    for m in GOOD_PATHS:
                        candidates.append(enc({**j, "method": m, "id": 1}).encode())
        for _ in range(200):
            b = bytearray(base)
            if b:
                b[rng.randrange(len(b))] ^= 1 << rng.randrange(8)
            candidates.append(bytes(b))
        for data in candidates:
            for tbl_idx in (case.get("table", 0),):
                p_ok, p = parse_oracle(data)
                outcome, log = run_impl(jsonrpc, tbl_idx, data)
                c = {"table": tbl_idx, "hex": data.hex(), "text": data.decode("utf-8", "replace")[:400], "stream": "search"}
                monitors(probe, tbl_idx, data, p_ok, p, outcome, log, c)
                for mf in probe.monitor_failures:
                    if not any(vlib.finding_matches(e, mf["monitor"], mf["key"]) for e in vlib.load_findings("C07")):
                        return mf
                probe.monitor_failures.clear()
        return None
    return hook


def run(chk):
    chk.rule = ("inputs from three streams (structured requests/batches with each member independently "
                "missing/mistyped/extreme, arbitrary JSON values, arbitrary and mutated bytes) over 4 mount tables; "
                "non-trivial = parses and contains at least one element with both jsonrpc and method members; "
                "distinct by request bytes")
    chk.trusted_base = [
        "Coq 8.16.1 kernel + vm_compute (no native_compute)",
        "harness/c07.py generators, recording mounts, Gallina emitter (harness/rpc_common.py)",
        "pydantic_core.from_json as the byte->JSON oracle (input of the model is ParseFail | Parsed json)",
        "pydantic Request model (extra=forbid, smart union id) transcribed in JsonRpc.validate (correspondence-checked)",
        "mounted callables as an oracle (call : log -> entry -> params -> result); CorrC07.corr_call mirrors the recorder",
    ]
    chk.assumptions = [
        "objects handed over by the parser have unique keys (from_json keeps the last duplicate)",
        "mounted callables raise only Exception subclasses (BaseException such as KeyboardInterrupt is out of scope)",
        "getattr on a mounted object has no side effects (no properties on mounts; pykka proxies are not modelled)",
    ]
    chk.proof_stage(PROP_FILES, thorough_coqchk=(chk.tier == "thorough"))
    vlib.setup_impl()
    from mopidy.internal import jsonrpc

    chk.search_hook = search_hook(jsonrpc)
    wrapper_stage(chk, jsonrpc)
    handler_stage(chk, jsonrpc)
    inspector_stage(chk, jsonrpc)
    sequence_stage(chk, jsonrpc)
