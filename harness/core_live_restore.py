"""Monitor-only stage (no model): a saved tracklist state restored into a LIVE tracklist.

The model's Load starts a new process (that is what Core._setup does).  TracklistController.
_load_state itself promises more: it keeps max(saved next_tlid, current next_tlid), so that even a
restore arriving after IDs were handed out in this process never re-issues one.  Here the real
TracklistController of a real Core gets: a random history of add/remove/clear/move, a snapshot
taken somewhere in it (TracklistController._save_state), more history, then the snapshot loaded
back with a random coverage, then more adds.  Checked: no ID returned by add() is ever returned
twice in the life of the process, the IDs in the tracklist are pairwise distinct, the version
never decreases."""

from __future__ import annotations

from common import vlib

import core_run


def run_stage(chk, prop="C01", runs=120):
    rng = vlib.Rng(chk.seed, f"{prop}-live-restore")
    n = 0
    for _ in range(runs if chk.tier == "quick" else runs * 6):
        max_len = rng.choice([3, 5, 10000, 10000])
        case = {"kinds": ["playable"] * 6, "lens": [1000] * 6, "script": [], "max_len": max_len, "volume": None,
                "mute": None, "profile": "live-restore", "ops": []}
        r = core_run.Runner(case)
        try:
            tl = r.core.tracklist
            issued, snap, log = [], None, []
            version = tl.get_version()
            steps = rng.randint(3, 12)
            snap_at = rng.randrange(steps)
            load_at = rng.randint(snap_at, steps - 1)
            bad = None
            for i in range(steps + 3):
                if i == snap_at:
                    snap = tl._save_state()
                    log.append(["snapshot", [t.tlid for t in snap.tl_tracks], int(snap.next_tlid)])
                k = rng.weighted([("add", 6), ("remove", 2), ("clear", 1.5), ("move", 1)]) if i < steps else "add"
                try:
                    if k == "add":
                        trks = [r.env.track(rng.randrange(6)) for _ in range(rng.randint(1, 4))]
                        pos = None if rng.random() < 0.6 else rng.randint(0, tl.get_length())
                        log.append(["add", len(trks), pos])
                        new = [t.tlid for t in tl.add(tracks=trks, at_position=pos)]
                        log[-1].append(new)
                        again = sorted(set(new) & set(issued))
                        issued += new
                        if again:
                            bad = ("ids_never_reissued", f"add() returned the tracklist IDs {again} a second time in this process")
                    elif k == "remove" and tl.get_length():
                        x = rng.choice([t.tlid for t in tl.get_tl_tracks()])
                        log.append(["remove", x])
                        tl.remove({"tlid": [x]})
                    elif k == "clear":
                        log.append(["clear"])
                        tl.clear()
                    elif k == "move" and tl.get_length() >= 2:
                        log.append(["move", 0, 1, tl.get_length() - 1])
                        tl.move(0, 1, tl.get_length() - 1)
                except Exception as e:  # noqa: BLE001
                    log[-1].append(type(e).__name__)
                    # a partly served add(): its entries are in the list, their IDs count as issued
                    issued += [t.tlid for t in tl.get_tl_tracks() if t.tlid not in issued]
                if i == load_at and snap is not None:
                    cov = ["tracklist"] if rng.random() < 0.7 else rng.choice([["mode"], ["tracklist", "mode"], []])
                    log.append(["load_into_live_tracklist", cov])
                    tl._load_state(snap, cov)
                ids = [t.tlid for t in tl.get_tl_tracks()]
                if bad is None and len(ids) != len(set(ids)):
                    bad = ("ids_unique", f"two entries share a tracklist ID: {ids}")
                if bad is None and tl.get_version() < version:
                    bad = ("version_monotone", f"the version went from {version} to {tl.get_version()}")
                version = tl.get_version()
                if bad:
                    chk.monitor_failure(bad[0], {"stage": "live-restore"}, f"{bad[1]} [{bad[0]}]",
                                        {"case": {"profile": "live-restore", "max_len": max_len, "history": log}, "step": i})
                    break
            n += 1
            chk.count(1, nontrivial_key=str(log) if any(x[0] == "load_into_live_tracklist" for x in log) else None)
            chk.dist("profile:live-restore")
        finally:
            r.close()
    chk.notes.append(f"live-restore stage (monitor-only, real TracklistController): {n} histories")
    return n
