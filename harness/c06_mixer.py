"""C06 stage T6: software mixer volume/mute read-back (coq/Audio/Mixer.v).

The real SoftwareMixer + SoftwareMixerAdapter + Audio.set_uri save/restore drive a fake
`volume` element that stores the property as a Python float (binary64, like gdouble).
Compared with the model: return values, MixerListener events, and the element's volume as
exact (mantissa, exponent) plus mute after every operation.  The 101 volumes are swept
exhaustively in both tiers.
"""

from __future__ import annotations

import math

import c06_driver as drv
from common import vlib
from common.vlib import g_bool, g_list, g_z

AREA = "Audio"
HEADER = (vlib.COQ_HEADER + "From Common Require Import Cases.\nFrom Audio Require Import Mixer.\n")


def run_ops(ops, attach_first=False):
    rig = drv.Rig(attach_mixer=False)
    try:
        return [rig.mixer_apply(o) for o in ops]
    finally:
        rig.close()


def e_op(o):
    k = o[0]
    if k == "setvol":
        return f"MSetVolume {g_z(o[1])}"
    if k == "setmute":
        return f"MSetMute {g_bool(o[1])}"
    return {"setup": "MSetup", "teardown": "MTeardown", "getvol": "MGetVolume", "getmute": "MGetMute",
            "track": "MTrackChange"}[k]


def e_ret(r):
    if r[0] == "none":
        return "MRNone"
    if r[0] == "bool":
        return f"(MRBool {g_bool(r[1])})"
    if r[0] == "vol":
        return f"(MRVol {'None' if r[1] is None else '(Some ' + g_z(r[1]) + ')'})"
    if r[0] == "mute":
        return f"(MRMute {'None' if r[1] is None else '(Some ' + g_bool(r[1]) + ')'})"
    return "MRAssert"


def e_mev(e):
    name, kw = e
    if name == "volume_changed":
        return f"MEvVolume {g_z(kw['volume'])}"
    if name == "mute_changed":
        return f"MEvMute {g_bool(kw['mute'])}"
    raise ValueError(e)


def e_obs(o):
    return (f"mkMO {e_ret(o['ret'])} {g_list([e_mev(e) for e in o['events']])} "
            f"({g_z(o['vol'][0])}, {g_z(o['vol'][1])}) {g_bool(o['mute'])}")


def gen_ops(rng):
    n = rng.randint(1, 25)
    ops = []
    attached = False
    for _ in range(n):
        k = rng.weighted([("setvol", 6), ("getvol", 4), ("setmute", 2), ("getmute", 2), ("track", 3),
                          ("setup", 1.2 if not attached else 0.2), ("teardown", 0.4)])
        if k == "setvol":
            ops.append(("setvol", rng.choice([0, 1, 29, 57, 58, 99, 100, rng.randint(0, 100), rng.randint(0, 100)])))
        elif k == "setmute":
            ops.append(("setmute", rng.random() < 0.5))
        else:
            ops.append((k,))
            if k == "setup":
                attached = True
            if k == "teardown":
                attached = False
    return ops


def monitor_roundtrip(chk):
    """T6 on the real objects, for all 101 volumes and both mute values."""
    rig = drv.Rig(attach_mixer=False)
    try:
        rig.mixer_apply(("setup",))
        for v in range(101):
            o = rig.mixer_apply(("setvol", v))
            g = rig.mixer_apply(("getvol",))
            x1 = g["vol_float"]
            t = rig.mixer_apply(("track",))
            g2 = rig.mixer_apply(("getvol",))
            chk.count(1, nontrivial_key=f"vol{v}")
            if o["ret"] != ("bool", True) or o["events"] != [("volume_changed", {"volume": v})]:
                chk.monitor_failure("volume_roundtrip", {"call": "set_volume", "clause": "report"},
                                    f"set_volume({v}) -> {o['ret']} {o['events']}", {"volume": v})
            if g["ret"] != ("vol", v):
                chk.monitor_failure("volume_roundtrip", {"call": "get_volume", "clause": "readback"},
                                    f"get_volume() after set_volume({v}) = {g['ret'][1]}", {"volume": v})
            if g2["ret"] != ("vol", v) or math.copysign(1, g2["vol_float"]) != math.copysign(1, x1) or g2["vol_float"] != x1:
                chk.monitor_failure("volume_roundtrip", {"call": "set_uri", "clause": "track_change"},
                                    f"volume {v} became {g2['ret'][1]} / {g2['vol_float']!r} after a track change", {"volume": v})
            if t["events"] != [("volume_changed", {"volume": v})]:
                chk.monitor_failure("volume_roundtrip", {"call": "set_uri", "clause": "report"},
                                    f"track change at volume {v} reported {t['events']}", {"volume": v})
        for b in (True, False, True):
            o = rig.mixer_apply(("setmute", b))
            g = rig.mixer_apply(("getmute",))
            if o["ret"] != ("bool", True) or o["events"] != [("mute_changed", {"mute": b})] or g["ret"] != ("mute", b):
                chk.monitor_failure("mute_roundtrip", {"call": "set_mute"}, f"set_mute({b}) -> {o}, get_mute -> {g['ret']}", {"mute": b})
    finally:
        rig.close()
    # a volume set before the audio actor attached the mixer is applied at setup
    for v in (0, 1, 33, 100):
        obs = run_ops([("setvol", v), ("getvol",), ("setup",), ("getvol",)])
        if [o["ret"] for o in obs] != [("bool", False), ("vol", None), ("none",), ("vol", v)]:
            chk.monitor_failure("volume_roundtrip", {"call": "setup", "clause": "deferred"},
                                f"deferred volume {v}: {[o['ret'] for o in obs]}", {"volume": v})


def round_cases(rng, n):
    xs = [k + 0.5 for k in range(0, 202)] + [float(k) for k in range(0, 102)]
    xs += [v / 100.0 * 100 for v in range(101)] + [0.49999999999999994, 2.675, 1e-300, 5e-324, 2.0 ** 52 + 0.5, 2.0 ** 53]
    xs += [rng.uniform(0, 200) for _ in range(n)]
    xs += [rng.randrange(0, 400) / 4.0 for _ in range(n // 2)]
    out = []
    for x in xs:
        for sx in (x, -x):
            fm, fe = math.frexp(abs(sx))
            mz, ex = (0, -2154) if sx == 0 else (int(fm * 2 ** 53), fe - 53)
            if mz >= 2 ** 53 or not (-2101 < ex + 2101 < 2 ** 62):
                continue
            out.append((mz, ex, sx < 0 or (sx == 0 and math.copysign(1, sx) < 0), round(sx)))
    return out


def run(chk):
    quick = chk.tier == "quick"
    monitor_roundtrip(chk)

    # correspondence 1: operation sequences
    seqs = [[("setup",)] + [op for v in range(101) for op in (("setvol", v), ("getvol",), ("track",), ("getvol",))],
            [("track",), ("setvol", 30), ("setmute", True), ("getvol",), ("getmute",), ("setup",), ("getvol",), ("getmute",),
             ("setvol", 50), ("teardown",), ("getvol",), ("setvol", 70), ("track",), ("setup",), ("getvol",)]]
    seqs += [gen_ops(chk.rng) for _ in range(150 if quick else 2000)]
    cases = []
    for ops in seqs:
        obs = run_ops(ops)
        cases.append((ops, obs))
        chk.count(1, nontrivial_key="mix:" + repr(ops) if any(o[0] == "setvol" for o in ops) and any(o[0] == "setup" for o in ops) else None)
        for o in ops:
            chk.dist("mixer:" + o[0])
    shards = [cases[i: i + 300] for i in range(0, len(cases), 300)]
    texts = [HEADER + "Definition cases : list (list mop * list mobs) :=\n "
             + g_list([f"({g_list([e_op(o) for o in ops])}, {g_list([e_obs(o) for o in obs])})" for ops, obs in shard])
             + ".\nEval vm_compute in mismatches mcase_ok cases.\n" for shard in shards]
    ok = True
    for shard, (rc, out) in zip(shards, vlib.coq_eval_many(AREA, texts)):
        bad = vlib.parse_nat_list(out)
        if rc != 0 or bad is None:
            ok = False
            chk.corr_failure("mixer", {"shard": "coq evaluation failed"}, out[-1500:])
            continue
        for i in bad:
            ok = False
            ops, obs = shard[i]
            chk.corr_failure("mixer", {"ops": ops}, {"impl": [(o["ret"], o["events"], o["vol"], o["mute"]) for o in obs][:40]})
    chk.obligation("corr:mixer", "correspondence", ok)

    # correspondence 2: Python round() on exactly transmitted floats
    rc_cases = round_cases(chk.rng, 400 if quick else 5000)
    text = (HEADER + "Definition cases : list (Z * Z * bool * Z) :=\n "
            + g_list([f"({g_z(m)}, {g_z(e)}, {g_bool(neg)}, {g_z(r)})" for m, e, neg, r in rc_cases])
            + ".\nEval vm_compute in mismatches round_ok cases.\n")
    rc, out = vlib.coq_eval(AREA, text, name="round")
    bad = vlib.parse_nat_list(out)
    ok = rc == 0 and bad == []
    if not ok:
        chk.corr_failure("py_round", {"cases": [rc_cases[i] for i in (bad or [])[:5]]}, out[-800:] if bad is None else "")
    chk.count(len(rc_cases))
    chk.dist("round:floats", len(rc_cases))
    chk.obligation("corr:py_round", "correspondence", ok)
