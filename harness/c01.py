"""C01 - tracklist is a faithful, versioned sequence with never-reused track IDs."""
import core_check

AREA = "Core"


def run(chk):
    chk.rule = ("op sequences generated online against the real Core (tracklist-heavy mix, small "
                "max_tracklist_length in half the cases, 16 mode combinations, playback ops and "
                "save/load interleaved); non-trivial = at least 2 tracklist_changed events and at "
                "least one rejected call; distinct by op sequence")
    core_check.run_core(chk, "C01", [("tracklist", 6), ("schedule", 2), ("restore", 1)], ["Property_C01.v"])
    if not chk.replay:
        # a snapshot restored into a LIVE tracklist (the model's Load starts a new process)
        import core_live_restore

        core_live_restore.run_stage(chk, "C01")
