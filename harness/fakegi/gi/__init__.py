"""Minimal stand-in for PyGObject so that /repo/src/mopidy imports without GStreamer.

Harness machinery only (see DESIGN.md section 0).  Nothing here emulates GStreamer; it
provides names, an ordered Gst.State enum with .value_name, and catch-all attributes.
"""
__version__ = "3.99.0"
version_info = (3, 99, 0)


def require_version(_name, _version):
    return None
