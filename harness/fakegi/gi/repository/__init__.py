import enum
import sys
import types


class _Auto:
    """Base for auto-created fake classes: any attribute is another fake."""

    def __init__(self, *args, **kwargs):
        self._args = args
        self._kwargs = kwargs

    def __getattr__(self, name):
        if name.startswith("__"):
            raise AttributeError(name)
        return _AutoCallable(name)


class _AutoCallable:
    def __init__(self, name):
        self._name = name

    def __call__(self, *args, **kwargs):
        return _Auto()

    def __getattr__(self, name):
        if name.startswith("__"):
            raise AttributeError(name)
        return _AutoCallable(f"{self._name}.{name}")


class _AutoMeta(type):
    def __getattr__(cls, name):
        if name.startswith("__"):
            raise AttributeError(name)
        return _AutoCallable(f"{cls.__name__}.{name}")


class _FakeModule(types.ModuleType):
    def __getattr__(self, name):
        if name.startswith("__"):
            raise AttributeError(name)
        klass = _AutoMeta(name, (_Auto,), {})
        setattr(self, name, klass)
        return klass


class _NamedIntEnum(enum.IntEnum):
    @property
    def value_name(self):
        return self._value_name_prefix() + self.name

    @property
    def value_nick(self):
        return self.name.lower().replace("_", "-")

    @classmethod
    def _value_name_prefix(cls):
        return ""


class State(_NamedIntEnum):
    VOID_PENDING = 0
    NULL = 1
    READY = 2
    PAUSED = 3
    PLAYING = 4

    @classmethod
    def _value_name_prefix(cls):
        return "GST_STATE_"


class StateChangeReturn(_NamedIntEnum):
    FAILURE = 0
    SUCCESS = 1
    ASYNC = 2
    NO_PREROLL = 3

    @classmethod
    def _value_name_prefix(cls):
        return "GST_STATE_CHANGE_"


class MessageType(enum.IntFlag):
    UNKNOWN = 0
    EOS = 1 << 0
    ERROR = 1 << 1
    WARNING = 1 << 2
    INFO = 1 << 3
    TAG = 1 << 4
    BUFFERING = 1 << 5
    STATE_CHANGED = 1 << 6
    ELEMENT = 1 << 15
    ASYNC_DONE = 1 << 21
    STREAM_START = 1 << 28


class BufferingMode(_NamedIntEnum):
    STREAM = 0
    DOWNLOAD = 1
    TIMESHIFT = 2
    LIVE = 3

    @classmethod
    def _value_name_prefix(cls):
        return "GST_BUFFERING_"


class EventType(_NamedIntEnum):
    UNKNOWN = 0
    SEGMENT = 17934


class Format(_NamedIntEnum):
    UNDEFINED = 0
    DEFAULT = 1
    BYTES = 2
    TIME = 3

    @staticmethod
    def get_name(fmt):
        return Format(fmt).name.lower()


class GLibError(Exception):
    def __init__(self, message="", domain="fake", code=0):
        super().__init__(message)
        self.message = message
        self.domain = domain
        self.code = code


class GLibDate:
    def __init__(self, year=0, month=0, day=0):
        self._y, self._m, self._d = year, month, day

    @classmethod
    def new_dmy(cls, day, month, year):
        return cls(year, month, day)

    def valid(self):
        return True

    def get_year(self):
        return self._y

    def get_month(self):
        return self._m

    def get_day(self):
        return self._d


class GstDateTime:
    """Gst.DateTime with arbitrary precision: fields may be absent."""

    def __init__(self, year=None, month=None, day=None, hour=None, minute=None, second=None):
        self._f = (year, month, day, hour, minute, second)

    def has_year(self):
        return self._f[0] is not None

    def has_month(self):
        return self._f[1] is not None

    def has_day(self):
        return self._f[2] is not None

    def has_time(self):
        return self._f[3] is not None

    def has_second(self):
        return self._f[5] is not None

    def get_year(self):
        return self._f[0]

    def get_month(self):
        return self._f[1]

    def get_day(self):
        return self._f[2]

    def get_hour(self):
        return self._f[3]

    def get_minute(self):
        return self._f[4]

    def get_second(self):
        return self._f[5]

    def to_iso8601_string(self):
        y, mo, d, h, mi, s = self._f
        out = f"{y:04d}"
        if mo is None:
            return out
        out += f"-{mo:02d}"
        if d is None:
            return out
        out += f"-{d:02d}"
        if h is None:
            return out
        out += f"T{h:02d}:{mi:02d}"
        if s is not None:
            out += f":{s:02d}"
        return out + "Z"


def _make_gst():
    m = _FakeModule("gi.repository.Gst")
    m.State = State
    m.StateChangeReturn = StateChangeReturn
    m.MessageType = MessageType
    m.BufferingMode = BufferingMode
    m.EventType = EventType
    m.Format = Format
    m.DateTime = GstDateTime
    m.MSECOND = 1000000
    m.SECOND = 1000000000
    m.CLOCK_TIME_NONE = 18446744073709551615
    tags = {
        "TAG_TRACK_NUMBER": "track-number",
        "TAG_TRACK_COUNT": "track-count",
        "TAG_TITLE": "title",
        "TAG_PERFORMER": "performer",
        "TAG_ORGANIZATION": "organization",
        "TAG_LOCATION": "location",
        "TAG_GENRE": "genre",
        "TAG_DATE_TIME": "datetime",
        "TAG_DATE": "date",
        "TAG_COPYRIGHT": "copyright",
        "TAG_COMPOSER": "composer",
        "TAG_BITRATE": "bitrate",
        "TAG_ARTIST": "artist",
        "TAG_ALBUM_VOLUME_NUMBER": "album-disc-number",
        "TAG_ALBUM_VOLUME_COUNT": "album-disc-count",
        "TAG_ALBUM_ARTIST": "album-artist",
        "TAG_ALBUM": "album",
        "TAG_COMMENT": "comment",
    }
    for k, v in tags.items():
        setattr(m, k, v)
    m.init = lambda _argv=None: None
    m.version = lambda: (1, 24, 0, 0)
    m.version_string = lambda: "GStreamer 1.24.0 (fake)"
    return m


def _make_glib():
    m = _FakeModule("gi.repository.GLib")
    m.Error = GLibError
    m.GError = GLibError
    m.Date = GLibDate
    m.SOURCE_REMOVE = False
    m.SOURCE_CONTINUE = True
    m.PRIORITY_DEFAULT = 0
    m.set_prgname = lambda _n: None
    m.set_application_name = lambda _n: None
    m.get_user_config_dir = lambda: "/nonexistent-verif-config"
    return m


Gst = _make_gst()
GLib = _make_glib()
GObject = _FakeModule("gi.repository.GObject")
GstPbutils = _FakeModule("gi.repository.GstPbutils")
Gio = _FakeModule("gi.repository.Gio")

for _name, _mod in (
    ("Gst", Gst),
    ("GLib", GLib),
    ("GObject", GObject),
    ("GstPbutils", GstPbutils),
    ("Gio", Gio),
):
    sys.modules[f"gi.repository.{_name}"] = _mod
