"""Developer driver: run N generated cases, report the first model/implementation diffs."""
import sys, json, logging
from common import vlib
vlib.setup_impl()
logging.disable(logging.CRITICAL)
import core_gen, core_run

FIELDS = ["ret", "tl", "ver(up,down)", "modes", "state/cur/pend/pos", "events", "acalls", "attempts", "vol/mute/hist/queue/auri/astate"]
def split(o):
    out, cur = [], []
    for x in o:
        if x == core_run.SEP: out.append(cur); cur = []
        else: cur.append(x)
    out.append(cur); return out

def main():
    profile, n, seed = sys.argv[1], int(sys.argv[2]), int(sys.argv[3]) if len(sys.argv) > 3 else 0
    rng = vlib.Rng(seed, "dev-" + profile)
    pairs = []
    for i in range(n):
        case, obs, trace = core_gen.generate_and_run(rng, profile)
        pairs.append((case, obs))
    class C:  # minimal chk stub
        def corr_failure(self, *a): print("CORR FAIL", a[0], str(a[2])[-1500:])
    bad = core_run.check_cases(C(), pairs, "dev")
    print("mismatching cases:", len(bad), "of", n)
    for i in bad[:3]:
        case, obs = pairs[i]
        mobs, out = core_run.model_obs(case)
        if mobs is None: print(out[-2000:]); continue
        for j, (a, b) in enumerate(zip(mobs, obs)):
            if a != b:
                print(f"--- case {i} step {j} op={case['ops'][j]}  kinds={case['kinds']} lens={case['lens']} script={case['script']} max={case['max_len']}")
                print("    ops so far:", json.dumps(case['ops'][:j+1]))
                for name, x, y in zip(FIELDS, split(a), split(b)):
                    if x != y: print(f"    {name}: model={x} impl={y}")
                break
        else:
            print(f"--- case {i}: length differs model={len(mobs)} impl={len(obs)}")
main()
