"""Monitor stages on the real actor stack that other properties' checks can call.

    import c18_shared
    c18_shared.saved_session_survives_interrupted_start(chk, prop="C10")
    c18_shared.core_request_returns_with_listeners(chk, prop="C04")
    c18_shared.no_component_left_running(chk, prop="C18")

Each takes the vlib ``Check`` object of the calling property, runs the real code in the C18
subprocess worker (harness/c18_rt.py; scripted GStreamer/GLib, real pykka actors, watchdog),
records coverage with ``chk.count`` / ``chk.dist`` and reports a failing input with
``chk.monitor_failure``.  A few seconds each; quiet on the unchanged tree.
"""

from __future__ import annotations

import c18

OK, DECL, OTHER, DIES, INTR, LATE = 0, 1, 2, 3, 4, 5
LQUIT, LKBD, LEXC = 0, 1, 2


def interrupt_points():
    """Every single point at which start-up can be interrupted (or the main loop ended), with all
    other components starting normally: mixer / audio / each of two backends / core / each of two
    frontends, before the actor exists (INTR) or once it is up but before the start helper has
    returned (LATE); plus the three ways the main loop ends and a failing sibling for good measure."""
    base = {"hm": 1, "om": OK, "oa": OK, "early": 0, "obs": [OK, OK], "oc": OK, "ofs": [OK, OK], "ol": LQUIT}
    pts = []
    for kind in (INTR, LATE):
        name = "before-start" if kind == INTR else "after-start"
        pts.append((f"mixer {name}", dict(base, om=kind)))
        pts.append((f"audio {name}", dict(base, oa=kind)))
        for i in range(2):
            pts.append((f"backend{i} {name}", dict(base, obs=[kind if j == i else OK for j in range(2)])))
        pts.append((f"core {name}", dict(base, oc=kind)))
        for i in range(2):
            pts.append((f"frontend{i} {name}", dict(base, ofs=[kind if j == i else OK for j in range(2)])))
    for ol, n in ((LQUIT, "quit"), (LKBD, "keyboard-interrupt"), (LEXC, "exception")):
        pts.append((f"main loop {n}", dict(base, ol=ol)))
    pts.append(("core after-start, a backend died, no mixer", dict(base, hm=0, obs=[DIES, OK], oc=LATE)))
    pts.append(("core after-start, frontends fail", dict(base, ofs=[DECL, OTHER], oc=LATE, ol=LKBD)))
    return pts


def saved_session_survives_interrupted_start(chk, prop="C10"):
    """restore_state on and a state file from a previous run (tracklist with a removed entry,
    repeat on): for every interrupt point during start-up, after RootCommand.run returns a state
    file exists and loading it yields the session that was there before."""
    pts = interrupt_points()
    results = c18.run_parallel("session", [c for _, c in pts], per_case_timeout=40, jobs=8)
    for i, (name, case) in enumerate(pts):
        r = results.get(i)
        if r is None or r.get("skipped"):
            continue
        chk.count(1, nontrivial_key=("interrupted-start", name))
        chk.dist(f"{prop}:interrupted_start_points")
        key = {"property": prop, "interrupt": name.split(",")[0]}
        if "hang" in r or "harness_error" in r:
            chk.monitor_failure("saved_session_survives_interrupted_start", key,
                                "the run command did not return / the scenario could not be run",
                                {"interrupt_point": name, "oracle": case, "detail": r})
            continue
        if r["before"] is None or r["first_saves"] != 1:
            chk.monitor_failure("saved_session_survives_interrupted_start", {**key, "phase": "seed"},
                                "the first (uninterrupted) run did not save the session",
                                {"interrupt_point": name, "observed": r})
            continue
        if r["after"] != r["before"]:
            what = ("no state file is left: the saved session is lost" if r["after"] is None
                    else "the state file no longer holds the session that was saved before")
            chk.monitor_failure(
                "saved_session_survives_interrupted_start", key,
                f"start-up interrupted at '{name}' with restore_state on: {what}",
                {"interrupt_point": name, "oracle": case, "session_before": r["before"],
                 "session_after": r["after"], "second_run": r["second"],
                 "replay": "first run: add s0:t0..t2, repeat on, remove s0:t1, quit; second run: the oracle"})
    return len(pts)


def core_request_returns_with_listeners(chk, prop="C04", runs=2, bound_s=8):
    """Real Core, backends and frontends whose event handlers call back into the core (a frontend
    querying playback state / mixer on every event, a backend emitting playlists_loaded while it
    serves core.playlists.refresh): every core request issued by concurrent clients returns
    within the bound."""
    cases = [{"seed": 4242 + i, "clients": 2 + 2 * i, "ops": 40, "backends": 2, "frontends": 2, "sync_atf": i % 2,
              "deadline": bound_s, "skip_busy": 1} for i in range(runs)]
    results = c18.run_parallel("waitfor", cases, per_case_timeout=bound_s + 10, jobs=runs, chunk=1)
    for i, case in enumerate(cases):
        r = results.get(i, {"hang": {"hang": "no result"}})
        if r.get("skipped"):
            continue
        chk.count(1, nontrivial_key=("listeners-call-back", case["seed"]))
        chk.dist(f"{prop}:runs_with_listeners_calling_back")
        key = {"property": prop, "listeners": "call-back-into-core"}
        if "hang" in r:
            chk.monitor_failure(
                "core_request_returns_with_listeners", key,
                f"a core request did not return within {bound_s} s while event listeners call back into the core",
                {"schedule": case, "threads": r["hang"].get("threads") if isinstance(r["hang"], dict) else r["hang"],
                 "waits_seen": r["hang"].get("edges") if isinstance(r["hang"], dict) else None})
        elif "harness_error" in r or r.get("errors"):
            chk.monitor_failure("core_request_returns_with_listeners", {**key, "error": True},
                                "a core request failed / timed out while event listeners call back into the core",
                                {"schedule": case, "detail": r.get("errors") or r.get("harness_error")})
        elif not r.get("events"):
            chk.notes.append(f"{prop}: listener run {case['seed']} saw no events (scenario did not happen)")
    return len(cases)


def no_component_left_running(chk, prop="C18"):
    """Helper actors that are not among the registered frontend classes (per-connection sessions)
    and respawn while they are being torn down: when RootCommand.run returns nothing is registered
    and no actor thread is alive."""
    base = {"hm": 1, "om": OK, "oa": OK, "early": 0, "obs": [OK], "oc": OK, "ofs": [OK, OK], "restore": 0}
    cases = []
    for sessions, respawns in ((1, 0), (1, 1), (2, 1), (1, 3), (3, 2)):
        for ol in (LQUIT, LKBD):
            cases.append(dict(base, ol=ol, sessions=sessions, respawns=respawns))
    results = c18.run_parallel("shutdown", cases, per_case_timeout=40, jobs=5)
    for i, case in enumerate(cases):
        r = results.get(i)
        if r is None or r.get("skipped"):
            continue
        chk.count(1, nontrivial_key=("sessions", case["sessions"], case["respawns"], case["ol"]))
        chk.dist("leftover_sessions_respawning" if case["respawns"] else "leftover_sessions")
        key = {"property": prop, "respawn": bool(case["respawns"])}
        if "hang" in r or "harness_error" in r:
            chk.monitor_failure("no_component_left_running", {**key, "hang": True},
                                "RootCommand.run did not return", {"case": case, "detail": r})
            continue
        ordered = [c for c in r["stops"] if c != 900]
        if r["left"] != 0 or r["threads_left"] or r["escaped"] or r["status"] not in (0, 1):
            chk.monitor_failure(
                "no_component_left_running", key,
                f"{r['left']} actor(s) still registered / {len(r['threads_left'])} actor thread(s) alive when "
                "RootCommand.run returned",
                {"scenario": f"frontend 0 starts {case['sessions']} session actor(s) that are not registered "
                             f"frontend classes; a session being stopped respawns one, {case['respawns']} time(s)",
                 "oracle": case, "observed": {k: r[k] for k in ("status", "escaped", "stops", "starts", "left",
                                                                 "threads_left", "respawns_unused")}})
        elif r["stops"].count(900) != case["sessions"] + case["respawns"]:
            # Shutdown.sweep_while: every session and every respawn is eventually stopped
            chk.corr_failure("leftover-sweep", {"oracle": case, "observed": r["stops"]},
                             "number of leftover actors stopped differs from sessions + respawns")
        elif ordered != sorted(ordered, key=lambda c: {2: 3, 1: 4, 3: 1}.get(c, 0 if c >= 200 else 2)):
            chk.monitor_failure("no_component_left_running", {**key, "order": True},
                                "registered components were not stopped in order before the leftovers",
                                {"oracle": case, "observed": r["stops"]})
    return len(cases)


def shutdown_with_misbehaving_components(chk, prop="C18"):
    """Components that misbehave while the run command shuts down (restore_state on): a mixer
    answering ill-typed / out-of-range volume or mute when the state is collected, and a backend
    whose playback raises while a track is current.  Whatever they answer, run() returns an exit
    status and leaves nothing running; with a merely odd mixer the state is still saved exactly once
    (an unusable answer is stored as unknown)."""
    base = {"hm": 1, "om": OK, "oa": OK, "early": 0, "obs": [OK], "oc": OK, "ofs": [OK], "restore": 1, "ol": LQUIT}
    cases = []
    for vol in (62.5, 62, 150, -3, "loud", None, 1e3, True):
        cases.append(("mixer", dict(base, mixer_volume=vol)))
    for mute in ("yes", 1, None, 0.5):
        cases.append(("mixer", dict(base, mixer_mute=mute, ol=LKBD)))
    cases.append(("mixer", dict(base, mixer_volume=33.3, mixer_mute="no", ol=LEXC)))
    for fault in (0, 1):
        for ol in (LQUIT, LKBD):
            cases.append(("backend", dict(base, play=1, backend_fault=fault, ol=ol)))
    results = c18.run_parallel("shutdown", [c for _, c in cases], per_case_timeout=40, jobs=6)
    for i, (kind, case) in enumerate(cases):
        r = results.get(i)
        if r is None or r.get("skipped"):
            continue
        chk.count(1, nontrivial_key=("misbehaving", kind, repr(sorted(case.items()))))
        chk.dist(f"misbehaving_{kind}_at_shutdown")
        key = {"property": prop, "component": kind}
        what_in = ({k: case[k] for k in ("mixer_volume", "mixer_mute") if k in case} if kind == "mixer"
                   else {"backend playback.get_time_position raises at shutdown": bool(case["backend_fault"]),
                         "a track is current": True})
        if "hang" in r or "harness_error" in r:
            chk.monitor_failure("shutdown_with_misbehaving_components", {**key, "hang": True},
                                "RootCommand.run did not return", {"scenario": what_in, "oracle": case, "detail": r})
            continue
        obs = {k: r[k] for k in ("status", "escaped", "stops", "saves", "state_file", "left", "threads_left", "loop")}
        if r["escaped"] or r["status"] not in (0, 1):
            chk.monitor_failure("exit_status", {**key, "escaped": r["escaped"]},
                                f"RootCommand.run raised {r['escaped']} instead of returning an exit status",
                                {"scenario": what_in, "oracle": case, "observed": obs})
        if r["left"] != 0 or r["threads_left"]:
            chk.monitor_failure("no_component_left_running", key,
                                f"{r['left']} actor(s) still registered when RootCommand.run returned",
                                {"scenario": what_in, "oracle": case, "observed": obs})
        if kind == "mixer" and (r["saves"] != 1 or not r["state_file"] or r["state_digest"] is None
                                or r["state_digest"].get("unreadable")):
            chk.monitor_failure("state_saved", {**key, "reply": "ill-typed-or-out-of-range"},
                                "restore_state on, core running: the state was not saved exactly once because of "
                                "what the mixer answered at shutdown",
                                {"scenario": what_in, "oracle": case, "observed": obs})
        if kind == "backend":
            if "playing" not in r["loop"]:
                chk.notes.append(f"{prop}: backend-fault scenario did not get a current track: {r['loop']}")
            if case["backend_fault"] and r["saves"] == 0:
                chk.dist("backend_fault_state_not_saved (outside the quantifier: noted)")
    return len(cases)


def state_saved_after_failed_restore(chk, prop="C18"):
    """restore_state on and a stored session that says "was playing"; at the next start the backend
    that owns the track is out of service (playback.play raises), so Core._load_state ends in the
    "Restore state: Unexpected error" handler after having consumed (deleted) the state file.  The
    command keeps running and, whenever it is terminated, must still save the state exactly once;
    the tracklist that was restored before the failure must be in it."""
    base = {"hm": 1, "om": OK, "oa": OK, "early": 0, "obs": [OK], "oc": OK, "ofs": [OK], "seed_play": 1}
    cases = [dict(base, ol=ol, play_fault=f) for f in ("play", "change_track", None) for ol in (LQUIT, LKBD, LEXC)]
    results = c18.run_parallel("session", cases, per_case_timeout=40, jobs=5)
    happened = 0
    for i, case in enumerate(cases):
        r = results.get(i)
        if r is None or r.get("skipped"):
            continue
        chk.count(1, nontrivial_key=("failed-restore", case["play_fault"], case["ol"]))
        key = {"property": prop, "restore": "failed" if case["play_fault"] == "play" else "clean"}
        scenario = {"first run": "add s0:t0, s0:t1; play (track current); quit -> state saved as playing",
                    "second run": f"backend playback.{case['play_fault']} raises" if case["play_fault"] else "no fault",
                    "main loop ends by": ["quit", "KeyboardInterrupt", "exception"][case["ol"]]}
        if "hang" in r or "harness_error" in r:
            chk.monitor_failure("state_saved", {**key, "hang": True}, "the scenario did not complete",
                                {"scenario": scenario, "oracle": case, "detail": r})
            continue
        sec = r["second"]
        if sec["restore_raised"]:
            happened += 1
            chk.dist("restore_failed_then_shutdown")
        else:
            chk.dist("restore_clean_then_shutdown")
        if r["first_saves"] != 1 or r["before"] is None or r["before"].get("playback") != "playing":
            chk.notes.append(f"{prop}: failed-restore scenario: seeding run did not store a playing session: {r}")
            continue
        if sec["saves"] != 1 or r["after"] is None or r["after"].get("unreadable") \
                or r["after"]["tracks"] != r["before"]["tracks"]:
            chk.monitor_failure(
                "state_saved", key,
                "restore_state on, core running: after a start-up whose state restore "
                + ("ended in an error " if sec["restore_raised"] else "")
                + f"the state was saved {sec['saves']} time(s) at shutdown"
                + (" and no state file is left (the old one was consumed by the restore)" if r["after"] is None else ""),
                {"scenario": scenario, "oracle": case, "restore_raised": sec["restore_raised"],
                 "session_before": r["before"], "session_after": r["after"], "second_run": sec})
    if not happened:
        chk.obligation("scenario:failed-restore", "audit", False, "no run had Core._load_state raise")
    return len(cases)


def _phase(code):
    return {3: 1, 2: 3, 1: 4}.get(code, 0 if code >= 200 else 2)


def stops_complete_per_instance(chk, prop="C18"):
    """Two or more running actors matched by one registered frontend / backend class (the instance the
    run command started spawns siblings of its own class), the first one with a slow on_stop: every
    instance must have finished stopping (on_stop done) before any component of a later phase starts
    to stop (frontends, core, backends, audio, mixer), and all of them before run() returns."""
    base = {"hm": 1, "om": OK, "oa": OK, "early": 0, "obs": [OK, OK], "oc": OK, "ofs": [OK, OK], "restore": 1}
    cases = []
    for kind in ("frontend", "backend"):
        for n, slow_index in ((1, 0), (2, 0), (2, 1)):
            cases.append(dict(base, ol=LQUIT if n == 1 else LKBD,
                              siblings={"kind": kind, "n": n, "slow": 0.4, "slow_index": slow_index}))
    cases.append(dict(base, ol=LQUIT, siblings={"kind": "frontend", "n": 0, "slow": 0.2}))
    results = c18.run_parallel("shutdown", cases, per_case_timeout=40, jobs=7, chunk=1)
    for i, case in enumerate(cases):
        r = results.get(i)
        if r is None or r.get("skipped"):
            continue
        sib = case["siblings"]
        chk.count(1, nontrivial_key=("siblings", sib["kind"], sib["n"], sib.get("slow_index", 0)))
        chk.dist(f"instances_per_class={1 + sib['n']}")
        key = {"property": prop, "instances": "several" if sib["n"] else "one", "kind": sib["kind"]}
        scenario = (f"{sib['kind']} class 0 runs {1 + sib['n']} instance(s) (siblings started from its on_start); "
                    f"on_stop of instance {sib.get('slow_index', 0)} takes {sib['slow']} s")
        if "hang" in r or "harness_error" in r:
            chk.monitor_failure("stops_complete_per_instance", {**key, "hang": True}, "RootCommand.run did not return",
                                {"scenario": scenario, "oracle": case, "detail": r})
            continue
        if f"instances={1 + sib['n']}" not in r["loop"]:
            chk.notes.append(f"{prop}: sibling scenario did not come up: {r['loop']}")
            continue
        ev, at_ret = r["stop_events"], r["stop_events_at_return"]
        begun = [(c, n) for k, c, n in at_ret if k == "begin"]
        ended = [(c, n) for k, c, n in at_ret if k == "end"]
        unfinished = [b for b in begun if b not in ended]
        obs = {"status": r["status"], "escaped": r["escaped"], "left": r["left"], "stop_events_at_return": at_ret,
               "stop_events_later": ev[len(at_ret):]}
        if unfinished or r["left"] or r["escaped"]:
            chk.monitor_failure(
                "no_component_left_running", key,
                f"when RootCommand.run returned {len(unfinished)} component instance(s) were still shutting down "
                f"(class code, instance): {unfinished}",
                {"scenario": scenario, "oracle": case, "observed": obs})
        # per-instance order: nothing of a later phase may begin to stop before this instance has ended
        open_, bad = {}, None
        for k, c, n in ev:
            if k == "begin":
                late = [(oc, on) for (oc, on) in open_ if _phase(oc) < _phase(c)]
                if late and bad is None:
                    bad = {"began": [c, n], "while_still_stopping": late}
                open_[(c, n)] = True
            else:
                open_.pop((c, n), None)
        if bad:
            chk.monitor_failure(
                "stop_order", {**key, "per_instance": True},
                "a component of a later phase began to stop while an instance of an earlier phase was still "
                "shutting down (order frontends, core, backends, audio, mixer)",
                {"scenario": scenario, "oracle": case, "violation": bad, "observed": obs})
    return len(cases)
