"""C18 runtime worker: runs the real mopidy actors (under the fake gi) in a subprocess.

    python c18_rt.py shutdown <cases.json> <out.jsonl>
    python c18_rt.py waitfor  <cases.json> <out.jsonl>

Every case is written to <out.jsonl> as one JSON line as soon as it finishes; a watchdog
thread kills the process (exit 3, after writing a ``{"hang": ...}`` record with a thread
dump) when a single case exceeds its deadline, so the parent never waits on a deadlock.
"""

from __future__ import annotations

import argparse
import json
import os
import shutil
import sys
import tempfile
import threading
import time
import traceback

sys.path.insert(0, os.path.dirname(os.path.abspath(__file__)))
from common import vlib  # noqa: E402

vlib.setup_impl()

import logging  # noqa: E402

import pykka  # noqa: E402
from gi.repository import GLib, Gst, _Auto  # noqa: E402
from pykka.messages import ProxyCall  # noqa: E402

logging.disable(logging.CRITICAL)

OK, DECL, OTHER, DIES, INTR, LATE = 0, 1, 2, 3, 4, 5
LQUIT, LKBD, LEXC = 0, 1, 2

# ---------------------------------------------------------------------------------------
# scripted GStreamer elements (environment; nothing of GStreamer is emulated beyond what
# Audio needs to start, change state and report volume)


class GstWorld:
    """Queue of pending bus messages / signals, delivered by a harness 'gst' thread."""

    def __init__(self):
        self.lock = threading.Lock()
        self.pending = []
        self.playbin = None
        self.sync_about_to_finish = False  # emit about-to-finish re-entrantly from set_state


WORLD = GstWorld()


class FakeMsg:
    def __init__(self, mtype, src, payload=None):
        self.type = mtype
        self.src = src
        self._payload = payload

    def parse_state_changed(self):
        return self._payload


class FakeBus(_Auto):
    def __init__(self):
        super().__init__()
        self.handlers = {}

    def add_signal_watch(self):
        return None

    def remove_signal_watch(self):
        return None

    def connect(self, name, func, *args):
        self.handlers[name] = func
        return 1

    def disconnect(self, _hid):
        self.handlers.clear()


class FakeElement(_Auto):
    def __init__(self, factory, name=None):
        super().__init__()
        self.factory = factory
        self.props_ = {"volume": 1.0, "mute": False}
        self.signals = {}
        self.bus = FakeBus()
        self.state = Gst.State.NULL

    def __hash__(self):
        return id(self)

    def __eq__(self, other):
        return self is other

    def set_property(self, k, v):
        self.props_[k] = v

    def get_property(self, k):
        return self.props_.get(k)

    def connect(self, event, func, *args):
        self.signals[event] = (func, args)
        return len(self.signals)

    def disconnect(self, _sid):
        return None

    def get_bus(self):
        return self.bus

    def query_position(self, _fmt):
        return True, 1000 * Gst.MSECOND

    def seek_simple(self, *_a):
        return True

    def get_state(self, timeout=None):
        return (Gst.StateChangeReturn.SUCCESS, self.state, Gst.State.VOID_PENDING)

    def set_state(self, state):
        old, self.state = self.state, state
        if self.factory == "playbin":
            with WORLD.lock:
                WORLD.pending.append(("msg", FakeMsg(Gst.MessageType.STATE_CHANGED, self,
                                                      (old, state, Gst.State.VOID_PENDING))))
                if state == Gst.State.PLAYING and old != Gst.State.PLAYING:
                    WORLD.pending.append(("msg", FakeMsg(Gst.MessageType.STREAM_START, self)))
                    WORLD.pending.append(("about-to-finish", None))
            if WORLD.sync_about_to_finish and state == Gst.State.PLAYING and "about-to-finish" in self.signals:
                # GStreamer may emit the signal synchronously from within set_state, i.e. on
                # the audio actor's own thread
                func, args = self.signals["about-to-finish"]
                func(self, *args)
        return Gst.StateChangeReturn.SUCCESS


def install_fake_elements():
    def make(factory, name=None):
        el = FakeElement(factory, name)
        if factory == "playbin":
            WORLD.playbin = el
        return el

    Gst.ElementFactory.make = staticmethod(make)


def gst_deliver_one():
    """Deliver one pending bus message / signal on the calling (gst) thread."""
    with WORLD.lock:
        if not WORLD.pending:
            return False
        kind, item = WORLD.pending.pop(0)
    pb = WORLD.playbin
    if pb is None:
        return True
    if kind == "msg":
        h = pb.bus.handlers.get("message")
        if h is not None:
            h(pb.bus, item)
            if item.type == Gst.MessageType.STREAM_START:
                # a TAG message follows stream start; its conversion needs real Gst taglists, so
                # the notification _Handler.on_tag would emit is sent directly (same listener path)
                from mopidy.audio.listener import AudioListener

                AudioListener.send("tags_changed", tags=["title"])
    elif kind == "about-to-finish" and "about-to-finish" in pb.signals:
        func, args = pb.signals["about-to-finish"]
        func(pb, *args)
    return True


# ---------------------------------------------------------------------------------------
# instrumentation of pykka (the oracle library): who waits on whom, who stopped when

THREAD_COMPONENT = {}  # thread ident -> component name
EDGES = {}  # (waiter, awaited) -> count
EDGE_LOCK = threading.Lock()
STOPS = []
STARTS = []
STOP_EVENTS = []  # ["begin"|"end", class code, instance index]: a stop starts / its on_stop has finished
DIED = []
CLASS_CODE = {}  # class -> numeric code (shutdown mode)


def component_of_class(cls):
    from mopidy import backend as backend_mod
    from mopidy import mixer as mixer_mod
    from mopidy.audio.actor import Audio
    from mopidy.core import Core

    if issubclass(cls, Core):
        return "Core"
    if issubclass(cls, Audio):
        return "Audio"
    if issubclass(cls, mixer_mod.Mixer):
        return "Mixer"
    if issubclass(cls, backend_mod.Backend):
        return "Backend"
    return "Frontend"


def current_component():
    return THREAD_COMPONENT.get(threading.get_ident(), "Unknown")


def install_pykka_instrumentation():
    from pykka import _actor, _ref, _threading

    orig_loop = _actor.Actor._actor_loop

    def actor_loop(self):
        THREAD_COMPONENT[threading.get_ident()] = component_of_class(type(self))
        try:
            return orig_loop(self)
        finally:
            THREAD_COMPONENT.pop(threading.get_ident(), None)

    _actor.Actor._actor_loop = actor_loop

    from pykka import _registry

    orig_register = _registry.ActorRegistry.register.__func__

    def register(cls, actor_ref):
        STARTS.append(CLASS_CODE.get(actor_ref.actor_class, actor_ref.actor_class.__name__))
        return orig_register(cls, actor_ref)

    _registry.ActorRegistry.register = classmethod(register)

    orig_setup = _actor.Actor._actor_loop_setup

    def _actor_loop_setup(self):
        r = orig_setup(self)
        if self.actor_stopped.is_set():  # on_start failed: the actor unregistered itself
            DIED.append(CLASS_CODE.get(type(self), type(self).__name__))
        return r

    _actor.Actor._actor_loop_setup = _actor_loop_setup

    orig_stop = _actor.Actor._stop

    def _stop(self):
        code = CLASS_CODE.get(type(self), type(self).__name__)
        inst = getattr(self, "_verif_idx", 0)
        STOPS.append(code)
        STOP_EVENTS.append(["begin", code, inst])
        try:
            return orig_stop(self)  # unregisters, then runs on_stop
        finally:
            STOP_EVENTS.append(["end", code, inst])

    _actor.Actor._stop = _stop

    orig_ask = _ref.ActorRef.ask

    def ask(self, message, *, block=True, timeout=None):
        fut = orig_ask(self, message, block=False)
        try:
            fut._verif_target = component_of_class(self.actor_class)
        except Exception:  # noqa: BLE001
            pass
        if block:
            return fut.get(timeout=timeout)
        return fut

    _ref.ActorRef.ask = ask

    orig_get = _threading.ThreadingFuture.get

    def get(self, *, timeout=None):
        tgt = getattr(self, "_verif_target", None)
        if tgt is not None:
            key = (current_component(), tgt)
            with EDGE_LOCK:
                EDGES[key] = EDGES.get(key, 0) + 1
        return orig_get(self, timeout=timeout)

    _threading.ThreadingFuture.get = get


# ---------------------------------------------------------------------------------------
# watchdog

class Watchdog:
    def __init__(self, out):
        self.out = out
        self.deadline = None
        self.label = None
        self.lock = threading.Lock()
        t = threading.Thread(target=self._run, name="verif-watchdog", daemon=True)
        t.start()

    def arm(self, label, seconds):
        with self.lock:
            self.label, self.deadline = label, time.monotonic() + seconds

    def disarm(self):
        with self.lock:
            self.deadline = None

    def _run(self):
        while True:
            time.sleep(0.05)
            with self.lock:
                dl, label = self.deadline, self.label
            if dl is not None and time.monotonic() > dl:
                frames = sys._current_frames()
                dump = {}
                for th in threading.enumerate():
                    fr = frames.get(th.ident)
                    if fr is not None:
                        dump[th.name] = [f"{os.path.basename(f.filename)}:{f.lineno}:{f.name}"
                                         for f in traceback.extract_stack(fr)][-6:]
                blocked = sorted(f"{THREAD_COMPONENT.get(th.ident, th.name)}" for th in threading.enumerate()
                                 if th.ident in THREAD_COMPONENT)
                self.out.write(json.dumps({"hang": label, "threads": dump, "components_alive": blocked,
                                           "edges": sorted(f"{a}->{b}" for (a, b) in EDGES)}) + "\n")
                self.out.flush()
                os._exit(3)


# ---------------------------------------------------------------------------------------
# scripted components


def make_config(tmp, mixer_name, restore):
    return {
        "audio": {"mixer": mixer_name, "mixer_volume": 40, "output": "testoutput", "buffer_time": None},
        "proxy": {},
        "core": {"restore_state": restore, "data_dir": tmp, "cache_dir": tmp, "config_dir": tmp,
                 "max_tracklist_length": 10000},
    }


def raise_for(outcome, kind):
    from mopidy import exceptions

    if outcome == DECL:
        raise {"mixer": exceptions.MixerError, "backend": exceptions.BackendError,
               "frontend": exceptions.FrontendError, "audio": exceptions.MixerError,
               "core": exceptions.BackendError}[kind](f"scripted {kind} failure")
    if outcome == OTHER:
        raise RuntimeError(f"scripted {kind} crash")
    if outcome == INTR:
        raise KeyboardInterrupt


UNSET = "<unset>"
BACKEND_FAULT = [False]  # scripted backends' playback.get_time_position raises while set
PLAY_FAULT = [None]      # "play" / "change_track": that playback call of the scripted backends raises


def make_mixer_class(outcome, volume_reply=UNSET, mute_reply=UNSET):
    from mopidy.softwaremixer.mixer import SoftwareMixer

    class ScriptedSoftwareMixer(SoftwareMixer):
        name = "software"

        # a mixer (think: hardware mixer) answering whatever it likes
        def get_volume(self):
            return super().get_volume() if volume_reply == UNSET else volume_reply

        def get_mute(self):
            return super().get_mute() if mute_reply == UNSET else mute_reply

        def __init__(self, config):
            raise_for(outcome, "mixer")
            super().__init__(config)

        def on_start(self):
            if outcome == DIES:
                raise RuntimeError("scripted mixer dies in on_start")

        @classmethod
        def start(cls, *a, **kw):
            ref = super().start(*a, **kw)
            if outcome == LATE:  # the interrupt arrives once the actor is up
                raise KeyboardInterrupt
            return ref

    return ScriptedSoftwareMixer


def make_backend_class(i, outcome, with_providers=False):
    from mopidy import backend as backend_mod
    from mopidy.models import Ref, SearchResult, Track

    scheme = f"s{i}"

    class Library(backend_mod.LibraryProvider):
        root_directory = Ref.directory(uri=f"{scheme}:root", name=f"root{i}")

        def browse(self, uri):
            if uri.endswith(":slow"):  # keeps the calling core thread busy until the harness says so
                SLOW_RELEASE.wait(20)
            return [Ref.track(uri=f"{scheme}:t{k}", name=f"t{k}") for k in range(3)]

        def lookup(self, uri):
            return [Track(uri=uri, name=uri, length=60000)]

        def lookup_many(self, uris):
            return {u: [Track(uri=u, name=u, length=60000)] for u in uris}

        def search(self, query=None, uris=None, exact=False):
            return SearchResult(uri=f"{scheme}:search", tracks=(Track(uri=f"{scheme}:t0", name="t0"),))

        def get_distinct(self, field, query=None):
            return {f"{scheme}-x"}

        def get_images(self, uris):
            return {}

        def refresh(self, uri=None):
            return None

    class Playlists(backend_mod.PlaylistsProvider):
        def as_list(self):
            return [Ref.playlist(uri=f"{scheme}:pl", name="pl")]

        def get_items(self, uri):
            return [Ref.track(uri=f"{scheme}:t0", name="t0")]

        def lookup(self, uri):
            return None

        def refresh(self):
            backend_mod.BackendListener.send("playlists_loaded")

        def create(self, name):
            return None

        def delete(self, uri):
            return False

        def save(self, playlist):
            return None

    class FaultyPlayback(backend_mod.PlaybackProvider):
        def play(self):
            if PLAY_FAULT[0] == "play":
                raise RuntimeError("scripted backend fault: service unavailable")
            return super().play()

        def change_track(self, track):
            if PLAY_FAULT[0] == "change_track":
                raise RuntimeError("scripted backend fault: service unavailable")
            return super().change_track(track)

        def get_time_position(self):
            if BACKEND_FAULT[0]:
                raise RuntimeError("scripted backend fault: device gone")
            return super().get_time_position()

    class ScriptedBackend(pykka.ThreadingActor, backend_mod.Backend):
        uri_schemes = [scheme]  # noqa: RUF012

        def __init__(self, config, audio):
            raise_for(outcome, "backend")
            super().__init__()
            self.audio = audio
            if with_providers:
                self.library = Library(backend=self)
                self.playback = FaultyPlayback(audio=audio, backend=self)
                self.playlists = Playlists(backend=self)

        def on_start(self):
            if outcome == DIES:
                raise RuntimeError("scripted backend dies in on_start")

        @classmethod
        def start(cls, *a, **kw):
            ref = super().start(*a, **kw)
            if outcome == LATE:
                raise KeyboardInterrupt
            return ref

    ScriptedBackend.__name__ = f"ScriptedBackend{i}"
    return ScriptedBackend


EVENTS_SEEN = []
SLOW_RELEASE = threading.Event()


SESSION_BUDGET = [0]


def add_siblings(cls, n, slow_s, slow_index=0):
    """Several running instances matched by one registered class: instance 0 (the one the run
    command starts) starts n more instances of its own class from on_start; the on_stop of
    instance slow_index takes slow_s seconds."""
    state = {"count": 0}
    orig_init, orig_on_start = cls.__init__, cls.on_start

    def __init__(self, *a, **kw):
        orig_init(self, *a, **kw)
        self._verif_idx = state["count"]
        state["count"] += 1
        self._verif_args = (a, kw)

    def on_start(self):
        orig_on_start(self)
        if self._verif_idx == 0:
            a, kw = self._verif_args
            for _ in range(n):
                type(self).start(*a, **kw)

    def on_stop(self):
        if self._verif_idx == slow_index:
            time.sleep(slow_s)

    cls.__init__, cls.on_start, cls.on_stop = __init__, on_start, on_stop
    return cls


class SessionActor(pykka.ThreadingActor):
    """A per-connection helper actor of a network frontend: not one of the registered frontend
    classes (only process.stop_remaining_actors stops it); when it is torn down the client
    reconnects and the frontend's still-listening socket spawns a fresh session - while the
    respawn budget lasts."""

    def on_stop(self):
        if SESSION_BUDGET[0] > 0:
            SESSION_BUDGET[0] -= 1
            SessionActor.start()


def make_frontend_class(i, outcome, consume=False, sessions=0):
    from mopidy.core import CoreListener

    class ScriptedFrontend(pykka.ThreadingActor, CoreListener):
        def __init__(self, config, core):
            raise_for(outcome, "frontend")
            super().__init__()
            self.core = core

        def on_start(self):
            if outcome == DIES:
                raise RuntimeError("scripted frontend dies in on_start")
            for _ in range(sessions):
                SessionActor.start()  # clients connected while we run

        @classmethod
        def start(cls, *a, **kw):
            ref = super().start(*a, **kw)
            if outcome == LATE:
                raise KeyboardInterrupt
            return ref

        def on_event(self, event, **kwargs):
            EVENTS_SEEN.append(event)
            if consume:
                # a frontend reacting to an event by querying the core (downward, blocking)
                self.core.playback.get_state().get(timeout=20)
                if event == "volume_changed":
                    self.core.mixer.get_mute().get(timeout=20)

    ScriptedFrontend.__name__ = f"ScriptedFrontend{i}"
    return ScriptedFrontend


class patched:
    """Temporarily replace attributes (restored on exit)."""

    def __init__(self):
        self.saved = []

    def set(self, obj, name, value):
        self.saved.append((obj, name, getattr(obj, name), name in vars(obj) if hasattr(obj, "__dict__") else True))
        setattr(obj, name, value)

    def __enter__(self):
        return self

    def __exit__(self, *exc):
        for obj, name, old, own in reversed(self.saved):
            if own:
                setattr(obj, name, old)
            else:
                try:
                    delattr(obj, name)
                except AttributeError:
                    setattr(obj, name, old)
        return False


# ---------------------------------------------------------------------------------------
# shutdown mode: one execution of the real RootCommand.run


def run_shutdown_case(case, wd, data_dir=None, providers=False, work=None):
    from mopidy import commands
    from mopidy.audio.actor import Audio
    from mopidy.core import Core
    from mopidy.internal import storage

    tmp = data_dir or tempfile.mkdtemp(prefix="verif-c18-")
    SESSION_BUDGET[0] = int(case.get("respawns", 0))
    del STOPS[:]
    del STARTS[:]
    del STOP_EVENTS[:]
    del DIED[:]
    CLASS_CODE.clear()
    EDGES.clear()
    saves = []
    loop_log = []
    try:
        hm = bool(case["hm"])
        mixer_cls = make_mixer_class(case["om"], case.get("mixer_volume", UNSET), case.get("mixer_mute", UNSET))
        BACKEND_FAULT[0] = False
        PLAY_FAULT[0] = case.get("play_fault")
        if case.get("play"):
            providers = True

            def work(core):  # noqa: F811 - play a track so that one is current at shutdown
                core.tracklist.add(uris=["s0:t0", "s0:t1"]).get(timeout=20)
                core.playback.play().get(timeout=20)
                t_end = time.monotonic() + 3
                while time.monotonic() < t_end:
                    while gst_deliver_one():  # bus messages: stream start makes the track current
                        pass
                    if core.playback.get_current_tl_track().get(timeout=20) is not None:
                        break
                    time.sleep(0.002)
                loop_log.append("playing" if core.playback.get_current_tl_track().get(timeout=20) else "not-playing")
                BACKEND_FAULT[0] = bool(case.get("backend_fault"))
        backends = [make_backend_class(i, o, with_providers=providers) for i, o in enumerate(case["obs"])]
        frontends = [make_frontend_class(i, o, sessions=int(case.get("sessions", 0)) if i == 0 else 0)
                     for i, o in enumerate(case["ofs"])]
        CLASS_CODE[SessionActor] = 900
        sib = case.get("siblings")
        sib_cls = None
        if sib:
            sib_cls = add_siblings((frontends if sib["kind"] == "frontend" else backends)[0], sib["n"], sib["slow"],
                                   sib.get("slow_index", 0))
        CLASS_CODE[mixer_cls] = 1
        CLASS_CODE[Audio] = 2
        CLASS_CODE[Core] = 3
        for i, b in enumerate(backends):
            CLASS_CODE[b] = 100 + i
        for i, f in enumerate(frontends):
            CLASS_CODE[f] = 200 + i
        config = make_config(tmp, "software" if hm else "none", bool(case["restore"]))
        args = argparse.Namespace(registry={"mixer": [mixer_cls], "backend": backends, "frontend": frontends})

        class ScriptedLoop:
            def __init__(self):
                self.quits = 0

            def run(self):
                loop_log.append("run")
                core_refs = pykka.ActorRegistry.get_by_class(Core)
                if sib_cls is not None:  # let every instance come up before termination is requested
                    t_end = time.monotonic() + 3
                    while len(pykka.ActorRegistry.get_by_class(sib_cls)) < 1 + sib["n"] and time.monotonic() < t_end:
                        time.sleep(0.002)
                    loop_log.append(f"instances={len(pykka.ActorRegistry.get_by_class(sib_cls))}")
                if core_refs and work is not None:
                    work(core_refs[0].proxy())
                elif core_refs and case.get("work", True):
                    try:  # some traffic through the running stack; failures are not the loop's
                        p = core_refs[0].proxy()
                        p.get_uri_schemes().get(timeout=20)
                        p.mixer.set_volume(55).get(timeout=20)
                        p.mixer.get_volume().get(timeout=20)
                    except Exception:  # noqa: BLE001
                        loop_log.append("work-failed")
                ol = case["ol"]
                if ol == LKBD:
                    raise KeyboardInterrupt
                if ol == LEXC:
                    raise RuntimeError("scripted main loop failure")
                # LQUIT: a SIGTERM arrives: GLib calls the handler registered by run()
                cb = sig.get("cb")
                if cb is not None:
                    loop_log.append(("sigterm", cb[0](*cb[1]) is GLib.SOURCE_REMOVE))

            def quit(self):
                self.quits += 1
                loop_log.append("quit")
                finally_entered.set()

        sig = {}
        finally_entered = threading.Event()

        def unix_signal_add(_prio, _signum, func, *a):
            sig["cb"] = (func, a)
            return 1

        orig_audio_init, orig_audio_start = Audio.__init__, Audio.on_start
        orig_core_init = Core.__init__
        orig_dump = storage.dump

        def audio_init(self, config, mixer):
            raise_for(case["oa"], "audio")
            orig_audio_init(self, config, mixer)

        proxy_made = threading.Event()
        early = bool(case.get("early", 0))

        def audio_on_start(self):
            if case["oa"] == DIES:
                if not early:
                    proxy_made.wait(10)  # die only after start_audio has built its proxy
                raise RuntimeError("scripted audio dies in on_start")
            orig_audio_start(self)

        orig_audio_start_cm = Audio.start.__func__
        orig_proxy = pykka.ActorRef.proxy

        def audio_start_cm(cls, *a, **kw):
            ref = orig_audio_start_cm(cls, *a, **kw)
            if case["oa"] == DIES and early:
                t_end = time.monotonic() + 10
                while ref.is_alive() and time.monotonic() < t_end:
                    time.sleep(0.0005)
            if case["oa"] == LATE:
                raise KeyboardInterrupt
            return ref

        def ref_proxy(self):
            try:
                return orig_proxy(self)
            finally:
                if self.actor_class is Audio:
                    proxy_made.set()

        def core_init(self, *a, **kw):
            raise_for(case["oc"], "core")
            orig_core_init(self, *a, **kw)

        orig_load_state = Core._load_state
        restore = {"raised": None}

        def core_load_state(self, coverage):
            try:
                return orig_load_state(self, coverage)
            except Exception as e:
                restore["raised"] = type(e).__name__
                raise

        def core_on_start(self):
            if case["oc"] == DIES:
                raise RuntimeError("scripted core dies in on_start")

        orig_core_setup = Core._setup

        setup_done = threading.Event()

        def core_setup(self):
            try:
                orig_core_setup(self)
            finally:
                setup_done.set()

        cur_ask = pykka.ActorRef.ask

        def ask_interrupted(self, message, *, block=True, timeout=None):
            # oc == LATE: Ctrl-C / process.exit_process() reaches run() while it is blocked waiting
            # for Core._setup (which by then has consumed the state file): the KeyboardInterrupt
            # surfaces inside future.get(), i.e. before start_core returns
            if (case["oc"] == LATE and block and isinstance(message, ProxyCall)
                    and message.attr_path == ("_setup",)):
                cur_ask(self, message, block=False)
                setup_done.wait(10)
                raise KeyboardInterrupt
            return cur_ask(self, message, block=block, timeout=timeout)

        def dump(path, data):
            r = orig_dump(path, data)
            saves.append(str(path))
            return r

        status, escaped = -1, None
        with patched() as p:
            p.set(GLib, "MainLoop", ScriptedLoop)
            p.set(GLib, "unix_signal_add", unix_signal_add)
            p.set(Audio, "__init__", audio_init)
            p.set(Audio, "on_start", audio_on_start)
            p.set(Audio, "start", classmethod(audio_start_cm))
            p.set(pykka.ActorRef, "proxy", ref_proxy)
            p.set(Core, "__init__", core_init)
            p.set(Core, "on_start", core_on_start)
            p.set(Core, "_load_state", core_load_state)
            p.set(Core, "_setup", core_setup)
            p.set(pykka.ActorRef, "ask", ask_interrupted)
            p.set(storage, "dump", dump)
            THREAD_COMPONENT[threading.get_ident()] = "Main"
            wd.arm(case, 12)
            try:
                status = commands.RootCommand().run(args, config)
            except BaseException as e:  # noqa: BLE001
                escaped = type(e).__name__
            wd.disarm()
        stop_events_at_return = [list(e) for e in STOP_EVENTS]
        left = len(pykka.ActorRegistry.get_all())
        # actor threads must end: wait briefly for them
        t_end = time.monotonic() + (5 if left == 0 else 0)
        while time.monotonic() < t_end:
            live = [t for t in threading.enumerate()
                    if t is not threading.current_thread() and t.name != "verif-watchdog" and t.is_alive()]
            if not live:
                break
            time.sleep(0.002)
        live = [t.name for t in threading.enumerate()
                if t is not threading.current_thread() and t.name != "verif-watchdog" and t.is_alive()]
        state_file = os.path.join(tmp, "core", "state.json.gz")
        return {
            "status": status if isinstance(status, int) and not isinstance(status, bool) else -2,
            "escaped": escaped,
            "stops": [s if isinstance(s, int) else -1 for s in STOPS],
            "stop_names": [s for s in STOPS if not isinstance(s, int)],
            "starts": [s if isinstance(s, int) else -1 for s in STARTS],
            "died": sorted(s if isinstance(s, int) else -1 for s in DIED),
            "saves": len(saves),
            "state_file": os.path.exists(state_file),
            "state_digest": session_digest(state_file) if os.path.exists(state_file) else None,
            "left": left,
            "respawns_unused": SESSION_BUDGET[0],
            "stop_events_at_return": stop_events_at_return,
            "stop_events": [list(e) for e in STOP_EVENTS],
            "restore_raised": restore["raised"],
            "threads_left": live,
            "loop": [x if isinstance(x, str) else list(x) for x in loop_log],
            "edges": sorted(f"{a}->{b}" for (a, b) in EDGES),
        }
    finally:
        try:
            pykka.ActorRegistry.stop_all(block=True, timeout=5)
        except Exception:  # noqa: BLE001
            pass
        SESSION_BUDGET[0] = 0
        BACKEND_FAULT[0] = False
        PLAY_FAULT[0] = None
        with WORLD.lock:
            del WORLD.pending[:]
        if data_dir is None:
            shutil.rmtree(tmp, ignore_errors=True)


# ---------------------------------------------------------------------------------------
# session mode: a saved session must survive a start-up that is interrupted at any point


def session_digest(path):
    """The stored session (tracklist, modes, history, mixer) of a state file, or None."""
    from mopidy.internal import storage

    if not os.path.exists(path):
        return None
    import pathlib

    data = storage.load(pathlib.Path(path))
    if data is None:
        return {"unreadable": True}
    st = data.state
    tl = st.tracklist
    return {
        "tracks": [[t.tlid, t.track.uri] for t in tl.tl_tracks],
        "modes": [bool(tl.consume), bool(tl.random), bool(tl.repeat), bool(tl.single)],
        "next_tlid": tl.next_tlid,
        "history": len(st.history.history),
        "playback": str(st.playback.state),
    }


def run_session_case(case, wd):
    data_dir = tempfile.mkdtemp(prefix="verif-c18s-")
    state_file = os.path.join(data_dir, "core", "state.json.gz")
    try:
        def seed(core):
            core.tracklist.add(uris=["s0:t0", "s0:t1", "s0:t2"]).get(timeout=20)
            core.tracklist.set_repeat(True).get(timeout=20)
            core.tracklist.set_consume(False).get(timeout=20)
            core.tracklist.remove({"uri": ["s0:t1"]}).get(timeout=20)

        first_case = {"hm": 1, "om": OK, "oa": OK, "early": 0, "obs": [OK], "oc": OK, "ofs": [OK],
                      "ol": LQUIT, "restore": 1}
        if case.get("seed_play"):  # the stored session says "was playing"
            first_case["play"] = 1
        first = run_shutdown_case(first_case, wd, data_dir=data_dir, providers=True, work=seed)
        before = session_digest(state_file)
        second = run_shutdown_case({k: v for k, v in dict(case, restore=1).items() if k != "seed_play"}, wd,
                                   data_dir=data_dir, providers=True, work=lambda core: None)
        after = session_digest(state_file)
        return {"before": before, "after": after, "first_saves": first["saves"], "first_loop": first["loop"],
                "second": {k: second[k] for k in ("status", "escaped", "stops", "starts", "saves", "left", "loop",
                                                  "restore_raised")}}
    finally:
        shutil.rmtree(data_dir, ignore_errors=True)


# ---------------------------------------------------------------------------------------
# wait-for mode: the whole stack under concurrent clients, edges recorded


def run_waitfor_case(case, wd):
    import random

    from mopidy.audio.actor import Audio
    from mopidy.core import Core
    from mopidy.core.playback import PlaybackController
    from mopidy.http import handlers
    from mopidy.softwaremixer.mixer import SoftwareMixer

    tmp = tempfile.mkdtemp(prefix="verif-c18-")
    EDGES.clear()
    del EVENTS_SEEN[:]
    with WORLD.lock:
        del WORLD.pending[:]
    WORLD.sync_about_to_finish = bool(case.get("sync_atf", False))
    errors = []
    atf = {"calls": 0, "threads": set(), "done_flags": []}
    result = {}
    stop_flag = threading.Event()
    THREAD_COMPONENT[threading.get_ident()] = "Main"
    orig_atf = PlaybackController._on_about_to_finish

    def atf_wrapper(self):
        atf["calls"] += 1
        atf["threads"].add(current_component())
        time.sleep(0.001)
        r = orig_atf(self)
        atf["done_flags"].append(True)
        if atf.get("hook"):
            atf["hook"]()
        return r

    wd.arm({"waitfor": case}, case.get("deadline", 60))
    try:
        with patched() as p:
            p.set(PlaybackController, "_on_about_to_finish", atf_wrapper)
            config = make_config(tmp, "software", False)
            mixer = SoftwareMixer.start(config=config).proxy()
            mixer.ping().get(timeout=10)
            audio = Audio.start(config=config, mixer=mixer).proxy()
            backends = []
            for i in range(case.get("backends", 2)):
                backends.append(make_backend_class(i, OK, with_providers=True).start(config=config, audio=audio).proxy())
            for b in backends:
                b.ping().get(timeout=10)
            core = Core.start(config=config, mixer=mixer, backends=backends, audio=audio).proxy()
            core.actor_ref.ask(ProxyCall(attr_path=("_setup",), args=(), kwargs={}), block=True, timeout=10)
            for i in range(case.get("frontends", 2)):
                make_frontend_class(i, OK, consume=True).start(config=config, core=core)
            rpc = handlers.make_jsonrpc_wrapper(core)
            uris = [f"s{i}:t{k}" for i in range(case.get("backends", 2)) for k in range(3)]
            core.tracklist.add(uris=uris).get(timeout=20)

            def client(idx, seed, nops):
                THREAD_COMPONENT[threading.get_ident()] = "Frontend"
                rng = random.Random(seed)
                try:
                    for _ in range(nops):
                        if stop_flag.is_set():
                            break
                        op = rng.choice(["play", "pause", "resume", "next", "previous", "stop", "seek", "vol",
                                         "getvol", "mute", "browse", "search", "lookup", "playlists", "schemes",
                                         "rpc", "rpc_batch", "refresh", "pos", "images", "distinct"])
                        if op == "play":
                            core.playback.play().get(timeout=30)
                        elif op == "pause":
                            core.playback.pause().get(timeout=30)
                        elif op == "resume":
                            core.playback.resume().get(timeout=30)
                        elif op == "next":
                            core.playback.next().get(timeout=30)
                        elif op == "previous":
                            core.playback.previous().get(timeout=30)
                        elif op == "stop":
                            core.playback.stop().get(timeout=30)
                        elif op == "seek":
                            core.playback.seek(rng.randint(0, 5000)).get(timeout=30)
                        elif op == "vol":
                            core.mixer.set_volume(rng.randint(0, 100)).get(timeout=30)
                        elif op == "getvol":
                            core.mixer.get_volume().get(timeout=30)
                        elif op == "mute":
                            core.mixer.set_mute(rng.random() < 0.5).get(timeout=30)
                        elif op == "browse":
                            core.library.browse(rng.choice([None, "s0:root", "s1:root"])).get(timeout=30)
                        elif op == "search":
                            core.library.search({"any": ["x"]}).get(timeout=30)
                        elif op == "lookup":
                            core.library.lookup(uris=[rng.choice(uris)]).get(timeout=30)
                        elif op == "playlists":
                            core.playlists.as_list().get(timeout=30)
                        elif op == "refresh":
                            core.playlists.refresh().get(timeout=30)
                        elif op == "schemes":
                            core.get_uri_schemes().get(timeout=30)
                        elif op == "pos":
                            core.playback.get_time_position().get(timeout=30)
                        elif op == "images":
                            core.library.get_images([rng.choice(uris)]).get(timeout=30)
                        elif op == "distinct":
                            core.library.get_distinct("artist").get(timeout=30)
                        elif op == "rpc":
                            m = rng.choice(["core.playback.get_state", "core.tracklist.get_length",
                                            "core.mixer.get_volume", "core.playback.play", "core.get_uri_schemes"])
                            rpc.handle_json(json.dumps({"jsonrpc": "2.0", "id": idx, "method": m}))
                        elif op == "rpc_batch":
                            rpc.handle_json(json.dumps([
                                {"jsonrpc": "2.0", "id": 1, "method": "core.playback.next"},
                                {"jsonrpc": "2.0", "id": 2, "method": "core.playback.get_current_tl_track"}]))
                except BaseException as e:  # noqa: BLE001
                    errors.append(f"client{idx}: {type(e).__name__}: {e}")
                finally:
                    THREAD_COMPONENT.pop(threading.get_ident(), None)

            def gst_thread():
                THREAD_COMPONENT[threading.get_ident()] = "GstThread"
                try:
                    while not stop_flag.is_set():
                        if not gst_deliver_one():
                            time.sleep(0.0005)
                    for _ in range(200):
                        if not gst_deliver_one():
                            break
                except BaseException as e:  # noqa: BLE001
                    errors.append(f"gst: {type(e).__name__}: {e}")
                finally:
                    THREAD_COMPONENT.pop(threading.get_ident(), None)

            g = threading.Thread(target=gst_thread, name="verif-gst")
            g.start()
            clients = [threading.Thread(target=client, args=(i, case["seed"] * 1000 + i, case["ops"]),
                                        name=f"verif-client{i}") for i in range(case["clients"])]
            for t in clients:
                t.start()
            for t in clients:
                t.join()
            # --- the end-of-track callback, deterministically -----------------------------
            core.playback.play().get(timeout=30)
            time.sleep(0.02)
            stop_flag.set()
            g.join()
            audio_ref = audio.actor_ref
            n0 = atf["calls"]
            # (a) from the audio actor's own thread: must refuse to call back
            audio_ref.ask(ProxyCall(attr_path=("_on_about_to_finish",), args=(None,), kwargs={}),
                          block=True, timeout=20)
            result["own_thread_calls"] = atf["calls"] - n0
            # (b) from a foreign (streaming) thread: served by the core thread, caller blocked
            n1, d1 = atf["calls"], len(atf["done_flags"])
            box = {}

            def foreign():
                THREAD_COMPONENT[threading.get_ident()] = "GstThread"
                try:
                    # the handler Audio connected to the playbin's about-to-finish signal
                    func, args = WORLD.playbin.signals["about-to-finish"]
                    func(WORLD.playbin, *args)
                    box["done_when_returned"] = len(atf["done_flags"]) - d1
                except BaseException as e:  # noqa: BLE001
                    errors.append(f"foreign: {type(e).__name__}: {e}")
                finally:
                    THREAD_COMPONENT.pop(threading.get_ident(), None)

            ft = threading.Thread(target=foreign, name="verif-foreign")
            ft.start()
            ft.join()
            result["foreign_calls"] = atf["calls"] - n1
            result["foreign_done_when_returned"] = box.get("done_when_returned")
            if not case.get("skip_busy"):
                # (c) the same with the core thread busy: the caller must stay blocked until the core
                #     has got round to the callback, however long that takes
                SLOW_RELEASE.clear()
                order = []
                d2 = len(atf["done_flags"])
                orig_wrapper_hook = atf.get("hook")
                atf["hook"] = lambda: order.append("core-served")
                slow_future = core.library.browse("s0:slow")  # core blocks in backend.library.browse().get()
                time.sleep(0.05)
                order.append("core-busy")
                box2 = {}

                def foreign_busy():
                    THREAD_COMPONENT[threading.get_ident()] = "GstThread"
                    try:
                        func, args = WORLD.playbin.signals["about-to-finish"]
                        order.append("callback-issued")
                        t0 = time.monotonic()
                        func(WORLD.playbin, *args)
                        box2["served_when_caller_returned"] = len(atf["done_flags"]) - d2
                        box2["caller_blocked_s"] = round(time.monotonic() - t0, 2)
                        order.append("caller-returned")
                    except BaseException as e:  # noqa: BLE001
                        errors.append(f"foreign-busy: {type(e).__name__}: {e}")
                    finally:
                        THREAD_COMPONENT.pop(threading.get_ident(), None)

                fb = threading.Thread(target=foreign_busy, name="verif-foreign-busy")
                fb.start()
                fb.join(case.get("hold", 1.3))
                early = not fb.is_alive()
                order.append("core-released")
                SLOW_RELEASE.set()
                fb.join(20)
                slow_future.get(timeout=20)
                atf["hook"] = orig_wrapper_hook
                result["busy_core"] = {"caller_returned_before_release": early, "order": order,
                                       "served_when_caller_returned": box2.get("served_when_caller_returned"),
                                       "caller_blocked_s": box2.get("caller_blocked_s")}
            result["callback_threads"] = sorted(atf["threads"])
            result["callback_total"] = atf["calls"]
            # orderly stop, top down
            for klass in [r.actor_class for r in pykka.ActorRegistry.get_all()
                          if component_of_class(r.actor_class) == "Frontend"]:
                for r in pykka.ActorRegistry.get_by_class(klass):
                    r.stop(block=True, timeout=20)
            for comp in ["Core", "Backend", "Audio", "Mixer"]:
                for r in pykka.ActorRegistry.get_all():
                    if component_of_class(r.actor_class) == comp:
                        r.stop(block=True, timeout=20)
        result["left"] = len(pykka.ActorRegistry.get_all())
        result["errors"] = errors[:5]
        result["edges"] = {f"{a}->{b}": n for (a, b), n in sorted(EDGES.items())}
        result["events"] = len(EVENTS_SEEN)
        result["event_kinds"] = sorted(set(EVENTS_SEEN))
        wd.disarm()
        return result
    finally:
        stop_flag.set()
        try:
            pykka.ActorRegistry.stop_all(block=True, timeout=5)
        except Exception:  # noqa: BLE001
            pass
        shutil.rmtree(tmp, ignore_errors=True)


# ---------------------------------------------------------------------------------------
# pykka mode: scripted Tell/Call programs on plain pykka actors (semantics of the oracle library)


def run_pykka_case(case, wd):
    n = case["n"]
    code = {(a, h): instrs for a, h, instrs in case["table"]}
    counts = {}
    lock = threading.Lock()
    pending = [0]
    quiet = threading.Event()
    deadlock = []
    refs = []

    def sent():
        with lock:
            pending[0] += 1

    def finished():
        with lock:
            pending[0] -= 1
            if pending[0] == 0:
                quiet.set()

    class Scripted(pykka.ThreadingActor):
        def __init__(self, me):
            super().__init__()
            self.me = me

        def on_receive(self, message):
            h = message
            try:
                with lock:
                    counts[(self.me, h)] = counts.get((self.me, h), 0) + 1
                for kind, t, h2 in code.get((self.me, h), []):
                    if deadlock:
                        return None
                    sent()
                    if kind == "tell":
                        refs[t].tell(h2)
                    else:
                        try:
                            refs[t].ask(h2, block=True, timeout=case.get("ask_timeout"))
                        except pykka.Timeout:
                            deadlock.append((self.me, t))
                            quiet.set()
                            return None
                return None
            finally:
                finished()

    wd.arm({"pykka": case}, 30)
    try:
        for a in range(n):
            refs.append(Scripted.start(a))
        for a, h in case["inject"]:
            sent()
            refs[a].tell(h)
        if not case["inject"]:
            quiet.set()
        quiet.wait(25)
        time.sleep(0.002)
        with lock:
            res = {"counts": sorted([a, h, c] for (a, h), c in counts.items()), "total": sum(counts.values()),
                   "deadlock": bool(deadlock), "quiet": quiet.is_set(), "pending": pending[0]}
        wd.disarm()
        return res
    finally:
        for r in refs:
            try:
                r.stop(block=False)
            except Exception:  # noqa: BLE001
                pass
        t_end = time.monotonic() + 3
        while pykka.ActorRegistry.get_all() and time.monotonic() < t_end:
            time.sleep(0.002)


# ---------------------------------------------------------------------------------------
# dispatch mode: the real listener.send / CoreListener.send / Listener.on_event

DISPATCH_EVENTS = [  # code -> (event name, kwargs)
    ("playlists_loaded", {}),
    ("volume_changed", {"volume": 5}),
    ("mute_changed", {"mute": True}),
    ("tracklist_changed", {}),
    ("no_such_event", {}),              # no handler of that name
    ("seeked", {"foo": 1}),             # a handler exists but does not take these arguments
    ("options_changed", {}),
]
DISPATCH_NAMES = [n for n, _ in DISPATCH_EVENTS]


def run_dispatch_case(case, wd):
    from mopidy.core import CoreListener

    handled = {}
    dies = {}  # actor_urn -> set of event codes at which the actor stops just before the tell
    current = {"code": None}

    def make_listener(idx, custom, raise_on):
        log = handled.setdefault(idx, [])

        def handler(code):
            def h(self, **kw):
                if code in raise_on:
                    raise RuntimeError(f"scripted failure in listener {idx} on event {code}")
                log.append(code)
            return h

        body = {}
        if custom:
            def on_event(self, event, **kw):
                code = DISPATCH_NAMES.index(event)
                if code in raise_on:
                    raise RuntimeError(f"scripted failure in on_event override {idx} on {code}")
                log.append(code)
            body["on_event"] = on_event
        else:
            for code, (name, kw) in enumerate(DISPATCH_EVENTS):
                if name != "no_such_event" and set(kw) != {"foo"}:
                    body[name] = handler(code)
        return type(f"ScriptedListener{idx}", (pykka.ThreadingActor, CoreListener), body)

    orig_tell = pykka.ActorRef.tell

    def tell(self, message):
        if current["code"] in dies.get(self.actor_urn, ()):
            self.stop(block=True, timeout=5)  # the actor stops after the registry lookup
        return orig_tell(self, message)

    wd.arm({"dispatch": case}, 30)
    refs = []
    sender = []
    try:
        with patched() as p:
            p.set(pykka.ActorRef, "tell", tell)
            for idx, (custom, raise_on, dies_at) in enumerate(case["listeners"]):
                ref = make_listener(idx, bool(custom), set(raise_on)).start()
                refs.append(ref)
                dies[ref.actor_urn] = set(dies_at)
            for code in case["events"]:
                name, kw = DISPATCH_EVENTS[code]
                current["code"] = code
                try:
                    CoreListener.send(name, **kw)
                    sender.append(0)
                except pykka.ActorDeadError:
                    sender.append(1)
                except Exception:  # noqa: BLE001
                    sender.append(2)
                current["code"] = None
                for ref in refs:  # let every mailbox drain before the next send
                    try:
                        ref.ask("sync", block=True, timeout=10)
                    except pykka.ActorDeadError:
                        pass
            time.sleep(0.002)
            final = [[bool(ref.is_alive()), list(handled.get(i, []))] for i, ref in enumerate(refs)]
        wd.disarm()
        return {"sender": sender, "final": final}
    finally:
        pykka.ActorRegistry.stop_all(block=True, timeout=5)


def main():
    mode, cases_path, out_path = sys.argv[1:4]
    cases = json.loads(open(cases_path).read())
    install_fake_elements()
    install_pykka_instrumentation()
    with open(out_path, "w") as out:
        wd = Watchdog(out)
        for idx, case in cases:
            t0 = time.monotonic()
            try:
                res = {"shutdown": run_shutdown_case, "waitfor": run_waitfor_case,
                       "pykka": run_pykka_case, "dispatch": run_dispatch_case,
                       "session": run_session_case}[mode](case, wd)
            except BaseException as e:  # noqa: BLE001
                res = {"harness_error": f"{type(e).__name__}: {e}", "tb": traceback.format_exc()[-1500:]}
            res["elapsed_s"] = round(time.monotonic() - t0, 3)
            out.write(json.dumps({"idx": idx, "res": res}) + "\n")
            out.flush()
    os._exit(0)


if __name__ == "__main__":
    main()
