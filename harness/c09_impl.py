"""C09 implementation driver: scripted fake backends/mixer around the real controllers.

A *case* is a JSON-able dict

  {"backends": [{"schemes": [str], "info_ok": bool, "lib": bool, "browse": bool,
                 "playback": bool, "playlists": bool, "answers": {method: resp}}],
   "mixer": None | {method: resp},
   "op": {"name": ..., ...}}

  resp  := ["raise", kind] | ["none"] | ["wrong"] | ["map", [[uri, mval], ...]]
         | ["list", [entry, ...]] | ["val", cls, id] | ["bool", b] | ["int", n]
  mval  := "bad" | [entry, ...]
  entry := "junk" | [cls, id, has_uri]

The controllers under test are the real mopidy.core.library.LibraryController,
mopidy.core.playlists.PlaylistsController, mopidy.core.mixer.MixerController and
mopidy.core.actor.Backends, constructed directly (no actor threads).  The fakes only
provide what pykka proxies provide: attribute/method access returning a future with
``.get()``, and ``actor_ref.actor_class.__name__``.
"""

from __future__ import annotations

import logging
import urllib.parse

KINDS = ["exception", "validation", "type", "lookup", "assertion", "notimpl", "base"]
CLASSES = ["track", "image", "ref", "search", "playlist", "str", "int"]
LIB_METHODS = ["lookup_many", "get_images", "search", "browse", "root_directory", "get_distinct", "refresh"]
PL_METHODS = ["as_list", "get_items", "pl_lookup", "create", "save", "delete", "pl_refresh"]
MIXER_METHODS = ["get_volume", "set_volume", "get_mute", "set_mute"]
# provider methods that only read (compared as a set) / that act (compared as a multiset)
QUERY_METHODS = {"lookup_many", "get_images", "search", "browse", "root_directory", "get_distinct",
                 "as_list", "get_items", "pl_lookup", "get_volume", "get_mute"}


class Fatal(BaseException):
    """Stands for KeyboardInterrupt/SystemExit: not an ordinary runtime error."""


_M = {}


def mods():
    if not _M:
        from mopidy import exceptions, models
        from mopidy.core import library, mixer, playlists
        from mopidy.core.actor import Backends

        for name in ("mopidy.core.library", "mopidy.core.playlists", "mopidy.core.mixer",
                     "mopidy.core.actor", "mopidy.internal.deprecation"):
            logging.getLogger(name).disabled = True
        _M.update(exceptions=exceptions, models=models, library=library, mixer=mixer,
                  playlists=playlists, Backends=Backends)
    return _M


def make_exc(kind):
    m = mods()
    return {
        "exception": RuntimeError("scripted"),
        "validation": m["exceptions"].ValidationError("scripted"),
        "type": TypeError("scripted"),
        "lookup": KeyError("scripted"),
        "assertion": AssertionError("scripted"),
        "notimpl": NotImplementedError("scripted"),
        "base": Fatal("scripted"),
    }[kind]


def exc_kind(e):
    m = mods()
    if isinstance(e, Fatal):
        return "base"
    if isinstance(e, m["exceptions"].ValidationError):
        return "validation"
    if isinstance(e, TypeError):
        return "type"
    if isinstance(e, LookupError):
        return "lookup"
    if isinstance(e, AssertionError):
        return "assertion"
    if isinstance(e, NotImplementedError):
        return "notimpl"
    if isinstance(e, Exception):
        return "exception"
    return "base"


# ---------------------------------------------------------------------------------------
# rendering scripted answers as Python objects


class Junk:
    def __repr__(self):
        return "<junk>"


def render_obj(cls, ident, has_uri=True):
    mo = mods()["models"]
    uri = f"obj:{cls}:{ident}"
    if cls == "track":
        return mo.Track(uri=uri if has_uri else None, name=str(ident))
    if cls == "image":
        return mo.Image(uri=uri)
    if cls == "ref":
        return mo.Ref.directory(uri=uri, name=str(ident % 3))
    if cls == "search":
        return mo.SearchResult(uri=uri)
    if cls == "playlist":
        return mo.Playlist(uri=uri if has_uri else None, name=str(ident))
    if cls == "str":
        return f"s{ident}"
    if cls == "int":
        return int(ident)
    raise ValueError(cls)


def canon_obj(o):
    """Inverse of render_obj: [cls, id, has_uri] or 'junk'."""
    mo = mods()["models"]
    if isinstance(o, bool):
        return "junk"
    if isinstance(o, int):
        return ["int", o, True]
    if isinstance(o, str):
        if o.startswith("s") and o[1:].lstrip("-").isdigit():
            return ["str", int(o[1:]), True]
        return ["uristr", o]  # some other string (e.g. a dict key that leaked into a result)
    for cls, typ in (("track", mo.Track), ("image", mo.Image), ("ref", mo.Ref),
                     ("search", mo.SearchResult), ("playlist", mo.Playlist)):
        if type(o) is typ:
            if cls in ("track", "playlist") and o.uri is None:
                return [cls, int(o.name), False]
            parts = (o.uri or "").split(":")
            if len(parts) == 3 and parts[0] == "obj" and parts[1] == cls:
                return [cls, int(parts[2]), True]
    return "junk"


JUNK_ENTRIES = [lambda: 1.5, lambda: None, lambda: b"abc", lambda: Junk(), lambda: ["nested"]]
BAD_MVALS = [lambda: None, lambda: "abc", lambda: 12345, lambda: iter([]), lambda: Junk()]
WRONGS = [lambda: "abc", lambda: Junk(), lambda: 3.5]


def render_entry(e, salt):
    if e == "junk":
        return JUNK_ENTRIES[salt % len(JUNK_ENTRIES)]()
    cls, ident, has_uri = e
    return render_obj(cls, ident, has_uri)


def concrete(resp, key, args, kwargs):
    """An ["echo", cls, ids] script answers exactly the URIs it is asked about."""
    if resp[0] != "echo":
        return resp
    uris = list(dict.fromkeys(canon_args(key, args, kwargs).get("uris") or []))
    return ["map", [[u, [[resp[1], i, True] for i in resp[2]]] for u in uris]]


def render_resp(resp, salt=0):
    """Python object a scripted backend returns from ``future.get()`` (raise handled by caller)."""
    tag = resp[0]
    if tag == "none":
        return None
    if tag == "wrong":
        return WRONGS[salt % len(WRONGS)]()
    if tag == "map":
        out = {}
        for i, (uri, mv) in enumerate(resp[1]):
            if mv == "bad":
                out[uri] = BAD_MVALS[(salt + i) % len(BAD_MVALS)]()
            else:
                seq = [render_entry(e, salt + i + j) for j, e in enumerate(mv)]
                out[uri] = tuple(seq) if (salt + i) % 3 == 1 else seq
        return out
    if tag == "list":
        seq = [render_entry(e, salt + j) for j, e in enumerate(resp[1])]
        return tuple(seq) if salt % 4 == 1 else seq
    if tag == "val":
        return render_obj(resp[1], resp[2], True)
    if tag == "bool":
        return bool(resp[1])
    if tag == "int":
        return int(resp[1])
    raise ValueError(resp)


# ---------------------------------------------------------------------------------------
# fakes


class Future:
    def __init__(self, resp, salt, owner=None):
        self._resp = resp
        self._salt = salt
        self._obj = None
        self._done = False
        self._owner = owner

    def get(self, timeout=None):
        if self._resp[0] == "raise":
            raise make_exc(self._resp[1])
        if not self._done:
            self._obj = render_resp(self._resp, self._salt)
            self._done = True
            if self._owner is not None:
                self._owner.append(self._obj)
        return self._obj


class Const:
    def __init__(self, v, fail=False):
        self.v = v
        self.fail = fail

    def get(self, timeout=None):
        if self.fail:
            raise RuntimeError("backend info unavailable")
        return self.v


class ActorRef:
    def __init__(self, name):
        self.actor_class = type(name, (), {})


DEFAULT = ["none"]


class Provider:
    """Stands for backend.library / backend.playlists proxies."""

    def __init__(self, fake, names):
        self._fake = fake
        self._names = names  # provider attribute name -> method key

    def __getattr__(self, name):
        names = object.__getattribute__(self, "_names")
        fake = object.__getattribute__(self, "_fake")
        if name not in names:
            raise AttributeError(name)
        key = names[name]
        if key == "root_directory":  # a proxied attribute: every access is a request
            return fake.request(key, (), {})
        return lambda *a, **kw: fake.request(key, a, kw)


class FakeBackend:
    def __init__(self, idx, spec, log, salt):
        self.idx = idx
        self.spec = spec
        self.log = log
        self.salt = salt
        self.returned = []  # objects handed to the core (identity used for pass-through detection)
        self.ncalls = 0
        self.actor_ref = ActorRef(f"FakeBackend{idx}")
        self.uri_schemes = Const(list(spec["schemes"]))
        self.library = Provider(self, {"lookup_many": "lookup_many", "get_images": "get_images",
                                       "search": "search", "browse": "browse",
                                       "root_directory": "root_directory",
                                       "get_distinct": "get_distinct", "refresh": "refresh"})
        self.playlists = Provider(self, {"as_list": "as_list", "get_items": "get_items",
                                         "lookup": "pl_lookup", "create": "create", "save": "save",
                                         "delete": "delete", "refresh": "pl_refresh"})

    def _flag(self, name):
        return lambda: Const(bool(self.spec[name]), fail=not self.spec.get("info_ok", True))

    def __getattr__(self, name):
        if name in ("has_library", "has_library_browse", "has_playback", "has_playlists"):
            key = {"has_library": "lib", "has_library_browse": "browse", "has_playback": "playback",
                   "has_playlists": "playlists"}[name]
            return self._flag(key)
        raise AttributeError(name)

    def request(self, key, args, kwargs):
        self.log.append([self.idx, key, canon_args(key, args, kwargs)])
        self.ncalls += 1
        return Future(concrete(self.spec["answers"].get(key, DEFAULT), key, args, kwargs), self.salt + self.ncalls,
                      self.returned)


class FakeMixer:
    def __init__(self, answers, log, salt):
        self.answers = answers
        self.log = log
        self.salt = salt
        self.returned = []
        self.actor_ref = ActorRef("FakeMixer")

    def __getattr__(self, name):
        if name in MIXER_METHODS:
            def call(*a, **kw):
                self.log.append([-1, name, [canon_scalar(x, as_int=(name == "set_volume")) for x in a]])
                return Future(self.answers.get(name, DEFAULT), self.salt, self.returned)
            return call
        raise AttributeError(name)


def canon_scalar(x, as_int=False):
    if isinstance(x, bool) and as_int:
        return ["int", int(x)]  # the mixer is handed True/False, which are the ints 1/0
    if isinstance(x, bool):
        return ["bool", x]
    if isinstance(x, int):
        return ["int", x]
    return ["other", repr(x)]


def canon_args(key, args, kwargs):
    """Canonical, JSON-able form of the arguments a provider method was called with."""
    mo = mods()["models"]
    if key in ("lookup_many", "get_images"):
        (uris,) = args
        return {"uris": list(uris)}
    if key == "search":
        q = kwargs.get("query", args[0] if args else None)
        uris = kwargs.get("uris", args[1] if len(args) > 1 else None)
        exact = kwargs.get("exact", args[2] if len(args) > 2 else False)
        return {"query": query_token(q), "uris": None if uris is None else list(uris), "exact": bool(exact)}
    if key in ("browse", "get_items", "pl_lookup", "delete"):
        (uri,) = args
        return {"uri": uri}
    if key == "refresh":
        uri = args[0] if args else kwargs.get("uri")
        return {"uri": uri}
    if key == "get_distinct":
        field = args[0] if args else kwargs.get("field")
        q = args[1] if len(args) > 1 else kwargs.get("query")
        return {"field": field, "query": query_token(q)}
    if key == "create":
        (name,) = args
        return {"name": name}
    if key == "save":
        (pl,) = args
        return {"playlist": [pl.uri, pl.name] if isinstance(pl, mo.Playlist) else repr(pl)}
    if key in ("root_directory", "as_list", "pl_refresh"):
        return {}
    raise ValueError(key)


QUERIES = {"none": None, "empty": {}, "good": {"any": ["x"]}, "good2": {"artist": ["y"], "album": ["z"]},
           "str": {"any": "x"}, "bad": {"bogus": ["x"]}, "blank": {"any": [" "]}}


def query_token(q):
    for tok, val in QUERIES.items():
        if q == val:
            return tok
    if q == {"any": ["x"]}:
        return "good"
    return "other:" + repr(q)


# ---------------------------------------------------------------------------------------
# running one case


RAW_AS = {"lookup": "lookup", "get_images": "get_images", "search": "search", "browse": "browse",
          "get_distinct": "get_distinct", "refresh": "refresh", "get_items": "get_items", "delete": "delete",
          "set_volume": "set_volume", "set_mute": "set_mute"}


def canon_result(op, value, returned):
    """Canonical form of a core call's return value (exception handled by the caller)."""
    name = op["name"]
    if name == "raw":
        typed = {"name": RAW_AS[op["raw"]]}
        if op["raw"] == "browse":
            a = op["args"][0]
            typed["uri"] = None if a[0] == "none" else (a[1] if a[0] == "str" else "")
        return canon_result(typed, value, returned)
    if name in ("lookup", "get_images"):
        if not isinstance(value, dict):
            return ["wrong", repr(type(value))]
        return ["map", sorted([k, [canon_obj(x) for x in v]] for k, v in value.items())]
    if name in ("browse", "search", "as_list", "get_items", "get_distinct"):
        if value is None:
            return ["none"]
        if isinstance(value, str) or not hasattr(value, "__iter__"):
            return ["wrong", repr(type(value))]
        items = [canon_obj(x) for x in value]
        if name in ("search", "as_list", "get_distinct") or (name == "browse" and op.get("uri") is None):
            items = sorted(items, key=repr)  # order across backends is not part of the property
        return ["list", items]
    if name in ("refresh", "pl_refresh"):
        return ["none"] if value is None else ["wrong", repr(type(value))]
    if name in ("pl_lookup", "create", "save"):
        if value is None:
            return ["none"]
        c = canon_obj(value)
        return ["wrong", repr(type(value))] if c == "junk" else ["val", c[0], c[1]]
    if name in ("get_uri_schemes", "core_schemes"):
        return ["strs", list(value)]
    if name in ("delete", "get_volume", "set_volume", "get_mute", "set_mute"):
        if value is None:
            return ["none"]
        if isinstance(value, bool):
            return ["bool", value]
        if isinstance(value, int):
            return ["int", value]
        if any(value is o for o in returned):
            return ["raw"]  # the backend's own object handed through unchanged
        return ["wrong", repr(type(value))]
    if name == "construct":
        return ["none"]
    raise ValueError(name)


def make_fakes(case, log, salt):
    """Default proxies: synchronous fakes.  Returns (backend proxies, mixer proxy or None,
    list of lists of objects handed to the core)."""
    fakes = [FakeBackend(i, spec, log, salt + 7 * i) for i, spec in enumerate(case["backends"])]
    mixer_fake = None if case.get("mixer") is None else FakeMixer(case["mixer"], log, salt)
    return fakes, mixer_fake, [f.returned for f in fakes] + ([mixer_fake.returned] if mixer_fake else [])


def run_case(case, salt=0, make=make_fakes):
    """Returns {"outcome": ["ok", value] | ["raise", kind], "log": [...], "tables": ...}."""
    m = mods()
    log = []
    fakes, mixer_fake, returned_lists = make(case, log, salt)
    index_of = {id(f): i for i, f in enumerate(fakes)}
    settle = getattr(make, "settle", lambda: None)  # real actors: let every issued call be executed
    op = case["op"]
    returned = []
    try:
        backends = m["Backends"](fakes)
    except BaseException as e:  # noqa: BLE001
        return {"outcome": ["raise", exc_kind(e)], "log": canon_log(log), "stage": "construct"}
    after_startup = getattr(make, "after_startup", None)
    if after_startup is not None:
        after_startup()
    tables = {
        name: sorted([s, index_of[id(b)]] for s, b in getattr(backends, attr).items())
        for name, attr in (("lib", "with_library"), ("browse", "with_library_browse"),
                           ("playback", "with_playback"), ("playlists", "with_playlists"))
    }
    lib = m["library"].LibraryController(backends=backends, core=None)
    pls = m["playlists"].PlaylistsController(backends=backends, core=None)
    mix = m["mixer"].MixerController(mixer=mixer_fake)
    name = op["name"]
    events = []
    import mopidy.listener as _listener

    real_send = _listener.send

    def recording_send(cls, event, **kwargs):
        # the real mopidy.listener.send still runs; every core event is recorded first
        events.append([event, {k: canon_event_value(v) for k, v in sorted(kwargs.items())}])
        return real_send(cls, event, **kwargs)

    _listener.send = recording_send
    try:
        return _run_call(m, case, op, name, lib, pls, mix, backends, fakes, log, tables, settle, returned,
                         returned_lists, events)
    finally:
        _listener.send = real_send


def canon_event_value(v):
    if isinstance(v, str):
        return ["str", v]
    if isinstance(v, bool) or v is None:
        return ["scalar", v]
    c = canon_obj(v)
    return ["wrong", type(v).__name__] if c == "junk" or c[0] == "uristr" else ["val", c[0], c[1]]


def _run_call(m, case, op, name, lib, pls, mix, backends, fakes, log, tables, settle, returned, returned_lists, events):
    try:
        if name == "construct":
            value = None
        elif name == "lookup":
            value = lib.lookup(list(op["uris"]))
        elif name == "get_images":
            value = lib.get_images(list(op["uris"]))
        elif name == "search":
            value = lib.search(dict(QUERIES[op["query"]]) if QUERIES[op["query"]] is not None else None,
                               uris=None if op["uris"] is None else list(op["uris"]), exact=op["exact"])
        elif name == "browse":
            value = lib.browse(op["uri"])
        elif name == "get_distinct":
            q = QUERIES[op["query"]]
            value = lib.get_distinct(op["field"], None if q is None else dict(q))
        elif name == "refresh":
            value = lib.refresh(op["uri"])
        elif name == "as_list":
            value = pls.as_list()
        elif name == "get_items":
            value = pls.get_items(op["uri"])
        elif name == "pl_lookup":
            value = pls.lookup(op["uri"])
        elif name == "create":
            value = pls.create(op["pname"], op["scheme"])
        elif name == "save":
            value = pls.save(m["models"].Playlist(uri=op["uri"], name=op["pname"]))
        elif name == "delete":
            value = pls.delete(op["uri"])
        elif name == "pl_refresh":
            value = pls.refresh(op["scheme"])
        elif name == "get_uri_schemes":
            value = pls.get_uri_schemes()
        elif name == "raw":
            import c09_validation as V

            a = [V.obj_of(x) for x in op["args"]]
            raw = op["raw"]
            if raw == "lookup":
                value = lib.lookup(a[0])
            elif raw == "get_images":
                value = lib.get_images(a[0])
            elif raw == "search":
                q = QUERIES[op["query"]]
                value = lib.search(dict(q), uris=a[0], exact=a[1])
            elif raw == "browse":
                value = lib.browse(a[0])
            elif raw == "get_distinct":
                q = QUERIES[op["query"]]
                value = lib.get_distinct(a[0], None if q is None else dict(q))
            elif raw == "refresh":
                value = lib.refresh(a[0])
            elif raw == "get_items":
                value = pls.get_items(a[0])
            elif raw == "delete":
                value = pls.delete(a[0])
            elif raw == "set_volume":
                value = mix.set_volume(a[0])
            elif raw == "set_mute":
                value = mix.set_mute(a[0])
            else:
                raise ValueError(name)
        elif name == "core_schemes":
            import types

            from mopidy.core.actor import Core

            value = Core.get_uri_schemes(types.SimpleNamespace(backends=backends))
        elif name == "get_volume":
            value = mix.get_volume()
        elif name == "set_volume":
            value = mix.set_volume(op["volume"])
        elif name == "get_mute":
            value = mix.get_mute()
        elif name == "set_mute":
            value = mix.set_mute(op["mute"])
        else:
            raise ValueError(name)
    except BaseException as e:  # noqa: BLE001
        if isinstance(e, ValueError) and not isinstance(e, m["exceptions"].ValidationError) and str(e) == name:
            raise
        settle()
        return {"outcome": ["raise", exc_kind(e)], "log": canon_log(log), "tables": tables, "stage": "call",
                "events": events}
    settle()
    for lst in returned_lists:
        returned.extend(lst)
    return {"outcome": ["ok", canon_result(op, value, returned)], "log": canon_log(log), "tables": tables,
            "stage": "call", "events": events}


def canon_log(log):
    """Query calls as a set, commands as a multiset; both sorted."""
    seen, out = set(), []
    for b, key, args in log:
        tok = repr((b, key, args))
        if key in QUERY_METHODS:
            if tok in seen:
                continue
            seen.add(tok)
        out.append([b, key, args])
    return sorted(out, key=repr)


def scheme_of(uri):
    """The oracle the core uses to route: urllib.parse.urlparse(uri).scheme."""
    return urllib.parse.urlparse(uri).scheme
