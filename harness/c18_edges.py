"""C18 translator: Python source of mopidy -> Gallina list of inter-component call sites.

Walks the AST of every ``*.py`` under ``$VERIF_REPO/src/mopidy`` and emits, for every
*blocking construct* and every *non-awaited proxy call / listener.send*, a ``site``

    (waiter component, awaited component, Blocking | Tell, file, line, construct)

The result is rendered as ``Edges_gen.v`` (``Definition sites : list site``); the
wait-for edges of the Coq development are ``filter is_blocking sites``.

Bounded waits (a ``timeout=`` argument other than the literal ``None``, or a blocking
construct inside ``try: .. except (pykka.)Timeout``) are emitted as ``BlockingTimeout``: still a
wait-for edge for the rank check, but the GstThread -> Core end-of-track callback site must be
an unbounded ``Blocking`` (``callback_unbounded_b``).

Fail-closed rules
-----------------
* a blocking construct whose receiver cannot be classified  -> awaited = ``Unknown``
* a blocking construct in a file/class that has no component -> waiter = ``Unknown``
* a callback that performs a blocking call and escapes its registration point, or an
  ``Audio`` method invoking the about-to-finish callback without the thread-identity
  guard -> an extra edge with the unsafe waiter (``Audio``) is emitted
``Unknown`` has no rank, so any of these makes ``rank_ok_b`` evaluate to ``false``.

Blocking constructs recognised
------------------------------
``X.get()`` / ``X.get(timeout=..)`` (no positional argument), ``pykka.get_all(..)``,
``X.ask(..)`` unless ``block=False``, ``X.stop()`` / ``X.stop(block=..)`` unless it is a
method of the enclosing object / a same-file non-actor class, ``ActorRegistry.stop_all``
unless ``block=False``, ``X.join()`` / ``X.join(timeout=..)``, ``X.wait()``, ``X.result()``,
``X.acquire()``.

The module is also a CLI:  ``python c18_edges.py [--write]`` prints (or writes into
coq/Actors/Edges_gen.v) the file for ``$VERIF_REPO``.
"""

from __future__ import annotations

import ast
import fnmatch
import io
import os
import sys
import tokenize
from pathlib import Path

COMPONENTS = ["Main", "Frontend", "GstThread", "Core", "Backend", "Mixer", "Audio", "Unknown"]
ACTOR_COMPONENTS = ["Frontend", "Core", "Backend", "Mixer", "Audio"]  # what Main may stop

# --- waiter side: file (glob, relative to src/mopidy) -> component -----------------------
FILE_COMPONENT = [
    ("commands.py", "Main"),
    ("__main__.py", "Main"),
    ("internal/process.py", "Main"),
    ("http/*.py", "Frontend"),
    ("internal/jsonrpc.py", "Frontend"),
    ("zeroconf.py", "Frontend"),
    ("core/*.py", "Core"),
    ("backend.py", "Backend"),
    ("file/*.py", "Backend"),
    ("m3u/*.py", "Backend"),
    ("stream/*.py", "Backend"),
    ("internal/playlists.py", "Backend"),
    ("internal/http.py", "Backend"),
    ("audio/scan.py", "Backend"),  # the scanner runs its own pipeline on the caller's (backend) thread
    ("audio/tags.py", "Backend"),
    ("mixer.py", "Mixer"),
    ("softwaremixer/*.py", "Mixer"),
    ("audio/actor.py", "Audio"),
    ("audio/utils.py", "Audio"),
    ("audio/listener.py", "Audio"),
    ("audio/__init__.py", "Audio"),
    ("listener.py", "Listeners"),  # handled specially (send is executed by every sender)
]
# (file, class) overrides: code that runs on a foreign thread
CLASS_COMPONENT = {
    ("audio/actor.py", "_Handler"): "GstThread",  # bus messages / pad probes: GLib / streaming threads
}
# callbacks handed to the audio layer; their body runs on whichever thread invokes the
# audio-side attribute (computed from audio/actor.py, see callback_contexts)
CALLBACKS = {
    # (file, function name) -> (audio attribute that stores it, registration method)
    ("core/playback.py", "_on_about_to_finish_callback"): ("_about_to_finish_callback", "set_about_to_finish_callback"),
}
# Audio methods connected to GStreamer signals: run on a streaming thread (or, for
# about-to-finish, possibly re-entrantly on the audio actor's own thread)
AUDIO_SIGNAL_METHODS = {"_on_about_to_finish", "_on_source_setup"}

# --- awaited side: receiver root -> component --------------------------------------------
RECEIVER_COMPONENT = {
    "self._audio": "Audio",
    "self.audio": "Audio",
    "audio": "Audio",
    "self._audio_mixer": "Audio",  # AudioProxy.mixer sub-proxy handed to the software mixer
    "mixer_ref": "Audio",
    "backend": "Backend",
    "b": "Backend",
    "backends": "Backend",
    "self.backends": "Backend",
    "self._mixer": "Mixer",
    "mixer": "Mixer",
    "self.core": "Core",
    "self._core": "Core",
    "core": "Core",
    "core_actor": "Core",
    "core_proxy": "Core",
    "frontend": "Frontend",
}
REGISTRY_CLASS_COMPONENT = {"Core": "Core", "Audio": "Audio"}
FILE_RECEIVER_COMPONENT = {
    ("internal/process.py", "actor"): "AnyActor",
    ("internal/jsonrpc.py", "result"): "Core",  # the mounted objects are core proxies (http/handlers.py)
    ("listener.py", "listener"): "Listeners",
}
# receivers known not to be futures/actors although they have a zero-argument .get()
NON_BLOCKING_RECEIVERS = {"Gst.Registry"}
LISTENER_TARGET = {
    "CoreListener": "Frontend",
    "AudioListener": "Core",
    "BackendListener": "Core",
    "MixerListener": "Core",
}
# dict/list/set methods: never a proxy call worth listing as a Tell site
CONTAINER_METHODS = {"get", "values", "keys", "items", "add", "setdefault", "append", "remove", "update",
                     "extend", "pop", "copy", "clear", "index", "count", "sort", "insert"}
BLOCKING_ZERO_ARG = {"get", "join", "wait", "result", "acquire"}
CANDIDATE_NAMES = BLOCKING_ZERO_ARG | {"ask", "get_all"}
KNOWN_EXEMPTIONS = ["receiver is not a future: Gst.Registry",
                    "method of the enclosing object / same-file non-actor class",
                    "ActorRegistry.get_all: registry listing"]


def _dotted(expr):
    """Dotted path of a Name/Attribute chain, or None."""
    parts = []
    while isinstance(expr, ast.Attribute):
        parts.append(expr.attr)
        expr = expr.value
    if isinstance(expr, ast.Name):
        parts.append(expr.id)
        return ".".join(reversed(parts))
    return None


def _chain_root(expr):
    """Strip calls/subscripts/attributes: the Name/``self.x`` an expression hangs off."""
    while True:
        if isinstance(expr, ast.Call):
            expr = expr.func
        elif isinstance(expr, ast.Subscript):
            expr = expr.value
        elif isinstance(expr, ast.Attribute):
            d = _dotted(expr)
            if d is None:
                expr = expr.value
                continue
            parts = d.split(".")
            return ".".join(parts[:2]) if parts[0] == "self" and len(parts) >= 2 else parts[0]
        elif isinstance(expr, ast.Name):
            return expr.id
        elif isinstance(expr, (ast.Await, ast.Starred)):
            expr = expr.value
        else:
            return None


def _kw(call, name):
    for k in call.keywords:
        if k.arg == name:
            return k.value
    return None


def _is_false(node):
    return isinstance(node, ast.Constant) and node.value is False


class _FileScan(ast.NodeVisitor):
    def __init__(self, rel, tree, out):
        self.rel = rel
        self.tree = tree
        self.out = out
        self.cls = []
        self.fn = []
        self.consumed = set()
        self.timeout_try = 0
        self.local_classes = {n.name: n for n in ast.walk(tree) if isinstance(n, ast.ClassDef)}

    # -- context -----------------------------------------------------------------------
    def file_component(self):
        for pat, comp in FILE_COMPONENT:
            if fnmatch.fnmatch(self.rel, pat):
                return comp
        return "Unknown"

    def waiters(self):
        """Components whose thread may execute the current code location."""
        cls = self.cls[-1].name if self.cls else None
        fn = self.fn[0].name if self.fn else None  # outermost function
        if (self.rel, fn) in CALLBACKS:
            return self.out.callback_contexts[(self.rel, fn)]
        if (self.rel, cls) in CLASS_COMPONENT:
            return [CLASS_COMPONENT[(self.rel, cls)]]
        if self.rel == "audio/actor.py" and cls == "Audio" and fn in AUDIO_SIGNAL_METHODS:
            return self.out.audio_signal_contexts.get(fn, ["GstThread", "Audio"])
        return [self.file_component()]

    def visit_ClassDef(self, node):
        self.cls.append(node)
        self.generic_visit(node)
        self.cls.pop()

    def visit_FunctionDef(self, node):
        self.fn.append(node)
        self.generic_visit(node)
        self.fn.pop()

    visit_AsyncFunctionDef = visit_FunctionDef

    # -- receiver classification ---------------------------------------------------------
    def classify_root(self, root):
        if root is None:
            return None
        if (self.rel, root) in FILE_RECEIVER_COMPONENT:
            return FILE_RECEIVER_COMPONENT[(self.rel, root)]
        return RECEIVER_COMPONENT.get(root)

    def classify_expr(self, expr, depth=0):
        """Component an expression's value (a proxy / future / collection of futures) belongs to."""
        if isinstance(expr, ast.IfExp):
            return self.classify_expr(expr.body, depth + 1) | self.classify_expr(expr.orelse, depth + 1)
        if isinstance(expr, ast.Call) and isinstance(expr.func, ast.Attribute) and expr.func.attr == "get_by_class" \
                and (_dotted(expr.func.value) or "").endswith("ActorRegistry"):
            # registry lookup: refs of the named actor class (unknown class: any actor)
            arg = _dotted(expr.args[0]) if expr.args else None
            return {REGISTRY_CLASS_COMPONENT.get((arg or "").split(".")[-1], "AnyActor")}
        root = _chain_root(expr)
        comp = self.classify_root(root)
        if comp is not None:
            return {comp}
        if root is not None and "." not in root and depth < 4:
            return self.resolve_name(root, depth + 1)
        if isinstance(expr, (ast.List, ast.Tuple, ast.Set)):
            res = set()
            for e in expr.elts:
                res |= self.classify_expr(e, depth + 1)
            return res
        return set()

    def resolve_name(self, name, depth):
        """Light def-use inside the enclosing function: what flows into ``name``."""
        if not self.fn:
            return set()
        res = set()
        fn = self.fn[0]

        def comp_targets(target):
            return {n.id for n in ast.walk(target) if isinstance(n, ast.Name)}

        for node in ast.walk(fn):
            if isinstance(node, (ast.For, ast.AsyncFor, ast.comprehension)) and name in comp_targets(node.target):
                it = node.iter
                if isinstance(it, ast.Call) and isinstance(it.func, ast.Attribute) and it.func.attr in {
                        "items", "values", "keys"} and not it.args:
                    it = it.func.value
                if not (isinstance(it, ast.Name) and it.id == name):
                    res |= self.classify_expr(it, depth)
            elif isinstance(node, ast.Assign):
                for t in node.targets:
                    if isinstance(t, ast.Name) and t.id == name:
                        res |= self.classify_value(node.value, depth)
                    elif isinstance(t, ast.Subscript) and isinstance(t.value, ast.Name) and t.value.id == name:
                        res |= self.classify_value(node.value, depth)
            elif isinstance(node, ast.AnnAssign) and isinstance(node.target, ast.Name) and node.target.id == name \
                    and node.value is not None:
                res |= self.classify_value(node.value, depth)
            elif isinstance(node, ast.Call) and isinstance(node.func, ast.Attribute) and node.func.attr in {
                    "append", "add", "extend"} and isinstance(node.func.value, ast.Name) \
                    and node.func.value.id == name and node.args:
                res |= self.classify_value(node.args[0], depth)
        return res

    def classify_value(self, value, depth):
        if isinstance(value, ast.DictComp):
            return self.classify_expr(value.value, depth)
        if isinstance(value, (ast.ListComp, ast.SetComp, ast.GeneratorExp)):
            return self.classify_expr(value.elt, depth)
        if isinstance(value, ast.Dict):
            res = set()
            for v in value.values:
                res |= self.classify_expr(v, depth)
            return res
        if isinstance(value, (ast.List, ast.Tuple, ast.Set)) and not value.elts:
            return set()
        if isinstance(value, ast.Constant):
            return set()
        return self.classify_expr(value, depth)

    def awaited_of(self, expr):
        comps = self.classify_expr(expr)
        comps.discard(None)
        if not comps:
            return ["Unknown"]
        out = []
        for c in sorted(comps):
            if c == "AnyActor":
                out.extend(ACTOR_COMPONENTS)
            elif c == "Listeners":
                out.extend(sorted(set(LISTENER_TARGET.values())))
            else:
                out.append(c)
        return out

    # -- local (same-object / same-file non-actor) calls -----------------------------------
    def is_local_method(self, recv, meth):
        """``self.m()`` or ``self.attr.m()`` where attr is built from a class of this file that
        defines ``m`` and is not an actor: a plain function call on the current thread."""
        if isinstance(recv, ast.Name) and recv.id == "self":
            return True
        d = _dotted(recv)
        if d and d.startswith("self.") and d.count(".") == 1 and self.cls:
            attr = d.split(".")[1]
            for node in ast.walk(self.cls[-1]):
                if isinstance(node, ast.Assign) and isinstance(node.value, ast.Call):
                    for t in node.targets:
                        if _dotted(t) == d:
                            cname = _dotted(node.value.func)
                            cdef = self.local_classes.get(cname or "")
                            if cdef is not None and not self._is_actor_class(cdef) and any(
                                    isinstance(m, ast.FunctionDef) and m.name == meth for m in cdef.body):
                                return True
            del attr
        return False

    def is_proxy_expr(self, recv):
        """A proxy (not an ActorRef): classified receiver whose path does not end in actor_ref."""
        d = _dotted(recv)
        if d is not None and (d.endswith("actor_ref") or d.endswith("_ref")):
            return False
        comp = self.classify_root(_chain_root(recv))
        return comp is not None and comp not in {"AnyActor", "Listeners"}

    @staticmethod
    def _is_actor_class(cdef):
        return any("Actor" in (_dotted(b) or "") for b in cdef.bases)

    # -- the rules -------------------------------------------------------------------------
    def bounded(self, node):
        """The wait at this call is bounded: a timeout= argument other than the literal None, or
        the call sits in the body of a try whose handlers catch (pykka.)Timeout."""
        t = _kw(node, "timeout") if isinstance(node, ast.Call) else None
        if t is not None and not (isinstance(t, ast.Constant) and t.value is None):
            return True
        return self.timeout_try > 0

    def visit_Try(self, node):
        catches = any(
            h.type is not None and any((_dotted(n) or "").split(".")[-1] == "Timeout"
                                        for n in ([h.type] if not isinstance(h.type, ast.Tuple) else h.type.elts))
            for h in node.handlers)
        self.timeout_try += int(catches)
        for st in node.body:
            self.visit(st)
        self.timeout_try -= int(catches)
        for part in (node.handlers, node.orelse, node.finalbody):
            for st in part:
                self.visit(st)

    visit_TryStar = visit_Try

    def emit(self, kind, awaited, node, construct):
        if kind == "Blocking" and self.bounded(node):
            kind, construct = "BlockingTimeout", construct + " timeout"
        self.last_emit = kind if "Listeners" not in self.waiters() else "expanded"
        for w in self.waiters():
            if w == "Listeners":
                # code of listener.send: executed by every sender; expanded by the caller
                self.out.listener_send_constructs.append((kind, construct, node.lineno))
                continue
            for a in awaited:
                self.out.sites.append((w, a, kind, self.rel, node.lineno, construct))

    def record_examined(self, node, why_exempt):
        """Book-keeping for the coverage obligation: what became of a candidate blocking call."""
        f = node.func
        name = f.attr if isinstance(f, ast.Attribute) else (f.id if isinstance(f, ast.Name) else None)
        if name not in CANDIDATE_NAMES:
            return
        if self.last_emit in ("Blocking", "BlockingTimeout"):
            disp = ("site", node.lineno)
        elif self.last_emit == "Tell":
            disp = ("tell", node.lineno)
        elif self.last_emit == "expanded":
            disp = ("expanded", node.lineno)
        else:
            disp = ("exempt", why_exempt or "not a blocking construct")
        self.out.examined[(self.rel, f.end_lineno, name)] = disp

    def visit_Call(self, node):
        self.last_emit = None
        why = self._visit_call(node)
        self.record_examined(node, why)
        self.generic_visit(node)

    def _visit_call(self, node):
        """Apply the rules to one call; returns the reason when it is exempted."""
        f = node.func
        handled = False
        why = None
        if isinstance(f, ast.Attribute):
            meth, recv = f.attr, f.value
            recv_d = _dotted(recv)
            timeout_only = all(k.arg == "timeout" for k in node.keywords)
            if meth in BLOCKING_ZERO_ARG and not node.args and timeout_only:
                if recv_d in NON_BLOCKING_RECEIVERS:
                    handled, why = True, "receiver is not a future: " + recv_d
                elif meth != "get" and self.is_local_method(recv, meth):
                    handled, why = True, "method of the enclosing object / same-file non-actor class"
                else:
                    self.emit("Blocking", self.awaited_of(recv), node, f".{meth}()")
                    self.mark_consumed(recv)
                    handled = True
            elif meth == "get_all" and recv_d is not None and recv_d.endswith("ActorRegistry"):
                handled, why = True, "ActorRegistry.get_all: registry listing"
            elif meth == "get_all":
                arg = node.args[0] if node.args else None
                self.emit("Blocking", self.awaited_of(arg) if arg is not None else ["Unknown"], node, "get_all")
                handled = True
            elif meth == "ask":
                if _is_false(_kw(node, "block")):
                    self.emit("Tell", self.awaited_of(recv), node, "ask(block=False)")
                else:
                    self.emit("Blocking", self.awaited_of(recv), node, ".ask()")
                handled = True
            elif meth == "tell":
                self.emit("Tell", self.awaited_of(recv), node, ".tell()")
                handled = True
            elif meth == "stop" and not self.is_local_method(recv, "stop") and not self.is_proxy_expr(recv):
                # ActorRef.stop (receiver is an actor ref, `actor` in process.py, or unknown);
                # `proxy.stop()` / `backend.playback.stop()` are ordinary proxied calls (below)
                blk = _kw(node, "block")
                if recv_d is not None and recv_d.endswith("io_loop"):
                    handled = True  # tornado IOLoop.stop: not an actor
                elif _is_false(blk):
                    self.emit("Tell", self.awaited_of(recv), node, "stop(block=False)")
                    handled = True
                else:
                    self.emit("Blocking", self.awaited_of(recv), node, ".stop()")
                    handled = True
            elif meth == "stop_all" and recv_d is not None and recv_d.endswith("ActorRegistry"):
                kind = "Tell" if _is_false(_kw(node, "block")) else "Blocking"
                self.emit(kind, ACTOR_COMPONENTS, node, "stop_all")
                handled = True
            elif meth == "send" and recv_d is not None and recv_d.split(".")[-1] in LISTENER_TARGET:
                self.out.listener_send_sites.append(
                    (self.waiters(), LISTENER_TARGET[recv_d.split(".")[-1]], self.rel, node.lineno))
                handled = True
            elif meth == "send" and recv_d == "listener" and node.args and _dotted(node.args[0]) in LISTENER_TARGET:
                # the static XListener.send wrappers: listener.send(XListener, ...)
                handled = True
        elif isinstance(f, ast.Name) and f.id == "get_all":
            arg = node.args[0] if node.args else None
            self.emit("Blocking", self.awaited_of(arg) if arg is not None else ["Unknown"], node, "get_all")
            handled = True
        if not handled and id(node) not in self.consumed and isinstance(f, ast.Attribute) \
                and f.attr not in CONTAINER_METHODS:
            # a proxy call whose future is not awaited on the spot: fire-and-forget or collected
            comps = {c for c in (self.classify_root(_chain_root(f.value)),) if c}
            for c in sorted(comps):
                targets = ACTOR_COMPONENTS if c == "AnyActor" else [c]
                for w in self.waiters():
                    for t in targets:
                        if w != t and c != "Listeners":
                            self.out.sites.append((w, t, "Tell", self.rel, node.lineno, f".{f.attr}(..)"))
        if why is None and isinstance(f, ast.Attribute) and f.attr in BLOCKING_ZERO_ARG and (
                node.args or not all(k.arg == "timeout" for k in node.keywords)):
            why = "has arguments (dict/str method)"
        return why

    def mark_consumed(self, expr):
        while isinstance(expr, (ast.Call, ast.Attribute, ast.Subscript)):
            if isinstance(expr, ast.Call):
                self.consumed.add(id(expr))
                expr = expr.func
            else:
                expr = expr.value


class Translation:
    def __init__(self, repo):
        self.repo = Path(repo)
        self.root = self.repo / "src" / "mopidy"
        self.sites = []
        self.listener_send_sites = []
        self.listener_send_constructs = []
        self.callback_contexts = {}
        self.audio_signal_contexts = {}
        self.notes = []
        self.files = []
        self.examined = {}     # (file, line of the method name, name) -> disposition
        self.candidates = []   # independent token scan: (file, line, name, disposition)

    # -- callbacks: which thread runs them ---------------------------------------------------
    def _audio_analysis(self, trees):
        """Decide on which threads the about-to-finish callback may run (audio/actor.py) and
        check that it is registered only through the audio setter (everywhere)."""
        tree = trees.get("audio/actor.py")
        for key, (attr, setter) in CALLBACKS.items():
            ctx = set()
            problems = []
            audio_cls = None
            if tree is not None:
                audio_cls = next((n for n in ast.walk(tree) if isinstance(n, ast.ClassDef) and n.name == "Audio"), None)
            if audio_cls is None:
                problems.append("class Audio not found")
            else:
                thread_ok = _assigns_thread_in_on_start(audio_cls)
                for fn in [n for n in audio_cls.body if isinstance(n, ast.FunctionDef)]:
                    calls = [c for c in ast.walk(fn) if isinstance(c, ast.Call) and _dotted(c.func) == f"self.{attr}"]
                    if not calls:
                        continue
                    guarded = thread_ok and _has_thread_guard(fn)
                    if fn.name in AUDIO_SIGNAL_METHODS:
                        ctx.add("GstThread")
                        if not guarded:
                            ctx.add("Audio")
                            problems.append(f"Audio.{fn.name} invokes {attr} without the actor-thread guard")
                    else:
                        ctx.add("Audio")
                        problems.append(f"Audio.{fn.name} (an actor method) invokes {attr}")
                self.audio_signal_contexts["_on_about_to_finish"] = sorted(ctx) or ["GstThread"]
                self.audio_signal_contexts["_on_source_setup"] = ["GstThread"]
            # registration discipline: the callback is only ever passed to the audio setter
            rel, fname = key
            for r, t in trees.items():
                parents = {}
                for p in ast.walk(t):
                    for ch in ast.iter_child_nodes(p):
                        parents[id(ch)] = p
                for n in ast.walk(t):
                    is_ref = (isinstance(n, ast.Attribute) and n.attr == fname) or (
                        isinstance(n, ast.Name) and n.id == fname)
                    if not is_ref:
                        continue
                    p = parents.get(id(n))
                    ok = (isinstance(p, ast.Call) and n in p.args and isinstance(p.func, ast.Attribute)
                          and p.func.attr == setter
                          and RECEIVER_COMPONENT.get(_chain_root(p.func.value)) == "Audio")
                    if not ok:
                        problems.append(f"{r}:{n.lineno}: {fname} used outside {setter}(..)")
                        ctx.add("Unknown")
            if not ctx:
                ctx.add("GstThread")
            self.callback_contexts[key] = sorted(ctx)
            self.notes.extend(problems)

    def run(self):
        trees = {}
        for p in sorted(self.root.rglob("*.py")):
            rel = p.relative_to(self.root).as_posix()
            try:
                trees[rel] = ast.parse(p.read_text(encoding="utf-8"), filename=str(p))
            except SyntaxError as e:
                self.notes.append(f"{rel}: syntax error {e}")
                self.sites.append(("Unknown", "Unknown", "Blocking", rel, 0, "unparsable file"))
        self.files = sorted(trees)
        self._audio_analysis(trees)
        for rel, tree in trees.items():
            _FileScan(rel, tree, self).visit(tree)
        # expand listener.send: each XListener.send(..) site inherits the constructs of send()
        blocking_in_send = [c for c in self.listener_send_constructs if c[0] in ("Blocking", "BlockingTimeout")]
        tells_in_send = [c for c in self.listener_send_constructs if c[0] == "Tell"]
        kind = "Blocking" if blocking_in_send or not tells_in_send else "Tell"
        if not self.listener_send_constructs and self.listener_send_sites:
            self.notes.append("listener.send contains neither tell nor ask: treated as Blocking (fail-closed)")
        for waiters, target, rel, line in self.listener_send_sites:
            for w in waiters:
                self.sites.append((w, target, kind, rel, line, "listener.send"))
        self.sites = sorted(set(self.sites), key=lambda s: (s[3], s[4], s[0], s[1], s[2], s[5]))
        # coverage: an independent token-level scan of the raw sources lists every textual
        # candidate (.get()/.get(timeout=)/.ask(/get_all(/.join()/.wait()/.result()/.acquire());
        # each must have been examined by the AST pass above, else it is Missing (fail-closed)
        for rel in self.files:
            for line, name in _token_candidates((self.root / rel).read_text(encoding="utf-8")):
                disp = self.examined.get((rel, line, name), ("missing", 0))
                self.candidates.append((rel, line, name, disp))
        return self

    # -- views -------------------------------------------------------------------------------
    def edges(self):
        """Wait-for edges: unbounded and bounded waits alike (a timed wait still blocks)."""
        return [s for s in self.sites if s[2] in ("Blocking", "BlockingTimeout")]

    def callback_sites(self):
        return [s for s in self.edges() if s[0] == "GstThread" and s[1] == "Core"]

    def edge_pairs(self):
        return sorted({(s[0], s[1]) for s in self.edges()})

    def to_coq(self):
        lines = [
            "(* GENERATED by harness/c18_edges.py from the Python sources under src/mopidy.",
            "   Do not edit: regenerate with  /venv/bin/python harness/c18_edges.py --write",
            f"   {len(self.files)} files scanned, {len(self.sites)} sites, {len(self.edges())} blocking. *)",
            "From Coq Require Import ZArith List String.",
            "From Actors Require Import WaitFor.",
            "Import ListNotations.",
            "Local Open Scope string_scope.",
            "Local Open Scope Z_scope.",
            "",
            "Definition sites : list site := [",
        ]
        rows = [
            f'  mkSite {w} {a} {k} "{rel}" {line} "{_coq_str(c)}"'
            for (w, a, k, rel, line, c) in self.sites
        ]
        lines.append(";\n".join(rows))
        lines.append("].")
        lines.append("")
        lines.append("(* every textual candidate for a blocking call (independent token scan) and what the")
        lines.append("   translator made of it *)")
        lines.append("Definition candidates : list cand := [")
        crow = []
        for rel, line, name, disp in self.candidates:
            d = {"site": f"(DSite {disp[1]})", "tell": "DTell", "expanded": "DExpanded",
                 "missing": "DMissing"}.get(disp[0]) or f'(DExempt "{_coq_str(str(disp[1]))}")'
            crow.append(f'  mkCand "{rel}" {line} "{name}" {d}')
        lines.append(";\n".join(crow))
        lines.append("].")
        lines.append("")
        lines.append("Definition edges : list site := filter site_blocking sites.")
        lines.append(f"Definition files_scanned : Z := {len(self.files)}.")
        return "\n".join(lines) + "\n"


def _token_candidates(text):
    """(line, name) of every `.get()`, `.get(timeout=`, `.join()`, `.wait()`, `.result()`,
    `.acquire()` (zero positional arguments), `.ask(` and `get_all(` in the token stream
    (comments and string literals cannot match)."""
    skip = {tokenize.NL, tokenize.NEWLINE, tokenize.COMMENT, tokenize.INDENT, tokenize.DEDENT}
    toks = [t for t in tokenize.generate_tokens(io.StringIO(text).readline) if t.type not in skip]
    out = []
    for i, t in enumerate(toks):
        if t.type != tokenize.NAME or i + 1 >= len(toks) or toks[i + 1].string != "(":
            continue
        dotted = i > 0 and toks[i - 1].string == "."
        nxt = toks[i + 2] if i + 2 < len(toks) else None
        if t.string in BLOCKING_ZERO_ARG and dotted and nxt is not None:
            if nxt.string == ")" or (nxt.string == "timeout" and i + 3 < len(toks) and toks[i + 3].string == "="):
                out.append((t.start[0], t.string))
        elif t.string == "ask" and dotted:
            out.append((t.start[0], "ask"))
        elif t.string == "get_all" and not (i > 0 and toks[i - 1].string == "def"):
            out.append((t.start[0], "get_all"))
    return out


def _coq_str(s):
    return s.replace('"', '""')


def _assigns_thread_in_on_start(cls):
    for fn in cls.body:
        if isinstance(fn, ast.FunctionDef) and fn.name == "on_start":
            for n in ast.walk(fn):
                if isinstance(n, ast.Assign) and any(_dotted(t) == "self._thread" for t in n.targets) \
                        and isinstance(n.value, ast.Call) and _dotted(n.value.func) == "threading.current_thread":
                    return True
    return False


def _has_thread_guard(fn):
    """First statement is ``if self._thread == threading.current_thread(): ...; return``."""
    body = list(fn.body)
    if body and isinstance(body[0], ast.Expr) and isinstance(body[0].value, ast.Constant):
        body = body[1:]
    if not body or not isinstance(body[0], ast.If):
        return False
    test = body[0].test
    if not (isinstance(test, ast.Compare) and len(test.ops) == 1 and isinstance(test.ops[0], (ast.Eq, ast.Is))):
        return False
    sides = [test.left, test.comparators[0]]
    names = set()
    for s in sides:
        if isinstance(s, ast.Call):
            names.add((_dotted(s.func) or "") + "()")
        else:
            names.add(_dotted(s) or "")
    if names != {"self._thread", "threading.current_thread()"}:
        return False
    return bool(body[0].body) and isinstance(body[0].body[-1], ast.Return) and not body[0].orelse


def translate(repo=None):
    repo = repo or os.environ.get("VERIF_REPO", "/repo")
    return Translation(repo).run()


if __name__ == "__main__":
    t = translate()
    text = t.to_coq()
    if "--write" in sys.argv:
        dst = Path(__file__).resolve().parents[1] / "coq" / "Actors" / "Edges_gen.v"
        dst.write_text(text)
        print(f"wrote {dst}: {len(t.sites)} sites, {len(t.edges())} blocking; pairs {t.edge_pairs()}")
    else:
        sys.stdout.write(text)
    for n in t.notes:
        print("note:", n, file=sys.stderr)
