"""C06 stage: closed loop (coq/Audio/Pipeline.v).

The real Audio object is driven by a Python twin of the ENVIRONMENT specification
`Pipeline.post` (a well-behaved playbin: one state at a time towards the last set_state,
pending = VOID_PENDING on arrival, READY->NULL never posted).  The twin obeys the set_state
commands the real code issues.  Compared with `cl_events` inside Coq: the events of every
closed-loop step and the final (Audio.state, pipeline state, commanded state).  Monitors:
the conclusions of the wb_ theorems on the real object.  GStreamer itself is absent: this
checks the twin = the Coq environment spec and the real audio layer = the model in closed
loop, not that a real playbin follows the spec.
"""

from __future__ import annotations

import c06
import c06_driver as drv
from common import vlib
from common.vlib import g_list

AREA = "Audio"
ORDER = ["NULL", "READY", "PAUSED", "PLAYING"]
HEADER = (vlib.COQ_HEADER + "From Common Require Import Res Str Cases.\n"
          "From Audio Require Import Model Obs Pipeline PipelineObs.\n")


class Pipe:
    def __init__(self):
        self.cur, self.want = "NULL", "NULL"

    def post(self):
        if self.cur == self.want:
            return None
        i, j = ORDER.index(self.cur), ORDER.index(self.want)
        new = ORDER[i + (1 if j > i else -1)]
        old, self.cur = self.cur, new
        if new == "NULL":
            return None
        return ("sc", True, old, new, "VOID_PENDING" if new == self.want else self.want)

    def obey(self, cmds):
        for c in cmds:
            if c[0] == "playbin" and c[1] == "state":
                self.want = c[2]


def run_closed(cs):
    rig = drv.Rig()
    pipe = Pipe()
    evs = []
    try:
        for c in cs:
            if c == "adv":
                m = pipe.post()
                if m is None:
                    evs.append([])
                    continue
                o = rig.apply(m)
            else:
                o = rig.apply(tuple(c))
                pipe.obey(o["cmds"])
            evs.append([e for e in o["events"] if e["cls"] == "AudioListener"])
        return evs, (str(getattr(rig.audio.state, "value", rig.audio.state)), pipe.cur, pipe.want)
    finally:
        rig.close()


def gen(rng):
    cs = []
    for _ in range(rng.randint(1, 40)):
        if rng.random() < 0.45:
            cs.append("adv")
        else:
            k = rng.weighted([("call", 6), ("buf", 2), ("tag", 1), ("ss", 0.7), ("err", 0.3), ("atf", 0.5)])
            if k == "call":
                cs.append(rng.choice([("start", True), ("pause", True), ("stop", True), ("prep", True),
                                      ("uri", rng.randrange(c06.N_URIS), False, False)]))
            elif k == "buf":
                cs.append(("buf", rng.choice([0, 5, 9, 50, 100, 100]), rng.choice([None, "STREAM", "LIVE"])))
            elif k == "tag":
                cs.append(c06.gen_tag(rng))
            elif k == "ss":
                cs.append(("ss",))
            elif k == "err":
                cs.append(("err",))
            else:
                cs += [("atfcb", True), ("atf", False, [rng.randrange(c06.N_URIS), False, False])]
    return cs


def monitor(chk):
    """wb_ theorems on the real object: from every (pipeline state, prior request), a request
    followed by three transitions is reported as the theorems say."""
    setups = {"NULL": [], "READY": [("prep", True)], "PAUSED": [("pause", True)], "PLAYING": [("start", True)]}
    for frm, setup in setups.items():
        for call, tgt in (("start", "PLAYING"), ("pause", "PAUSED"), ("stop", "NULL"), ("prep", "READY")):
            cs = setup + ["adv"] * 3 + [(call, True)] + ["adv"] * 3
            evs, (state, cur, want) = run_closed(cs)
            tail = [(e["name"], e["sent"]) for step in evs[len(setup) + 4:] for e in step]
            chk.count(1, nontrivial_key=f"wb:{frm}->{tgt}")
            key = {"from": frm, "request": tgt}
            if cur != tgt:
                chk.monitor_failure("wb_drain", key, f"pipeline twin at {cur}, commanded {tgt}", {"closed_loop": cs})
            if tgt in ("PLAYING", "PAUSED") and frm != tgt:
                exp = c06.IMAGE[tgt]
                if state != exp or not tail or tail[-1][0] != "state_changed" or tail[-1][1].get("new_state") != exp \
                        or tail[-1][1].get("target_state") is not None:
                    chk.monitor_failure("wb_settles_on_requested", key, f"state {state}, last events {tail[-2:]}", {"closed_loop": cs})
            if tgt == "NULL" and frm in ("PAUSED", "PLAYING"):
                if state != "stopped" or [t[0] for t in tail] != ["state_changed", "stream_changed"] \
                        or tail[0][1].get("new_state") != "stopped" or tail[1][1].get("uri") is not None:
                    chk.monitor_failure("wb_stop_is_reported", key, f"state {state}, events {tail}", {"closed_loop": cs})
            if tgt == "READY" and tail:
                chk.monitor_failure("wb_prepare_change_is_silent", key, f"events {tail}", {"closed_loop": cs})


def e_cin(c):
    return "CAdv" if c == "adv" else f"CIn ({c06.e_input(tuple(c))})"


def run(chk):
    quick = chk.tier == "quick"
    monitor(chk)
    seqs = [[("prep", True), ("uri", 1, False, False), ("start", True), "adv", "adv", ("ss",), "adv", ("buf", 5, None), "adv",
             ("buf", 100, None), "adv", ("stop", True), "adv", "adv", "adv", ("prep", True), "adv", ("stop", True), "adv"]]
    seqs += [gen(chk.rng) for _ in range(300 if quick else 5000)]
    cases = []
    for cs in seqs:
        evs, fin = run_closed(cs)
        try:
            term = (f"({g_list([e_cin(c) for c in cs])},\n  {g_list([g_list([c06.e_event(e) for e in step]) for step in evs])},\n"
                    f"  ({c06.e_pstate(fin[0])}, {c06.GST[fin[1]]}, {c06.GST[fin[2]]}))")
            cases.append((cs, term, evs, fin))
        except c06.Unrepresentable as ex:
            chk.corr_failure("closed_loop", {"closed_loop": cs}, str(ex))
        names = [e["name"] for step in evs for e in step]
        chk.count(1, nontrivial_key="cl:" + repr(cs) if names.count("state_changed") >= 2 else None)
        chk.dist("closed-loop:adv", sum(1 for c in cs if c == "adv"))
    shards = [cases[i: i + 300] for i in range(0, len(cases), 300)]
    texts = [HEADER + "Definition cases : list (list cin * list (list oevent) * (pstate * gst * gst)) :=\n "
             + g_list([t for _, t, _, _ in shard]) + ".\nEval vm_compute in mismatches cl_case_ok cases.\n" for shard in shards]
    ok = not any(c["name"] == "closed_loop" for c in chk.corr_failures)
    for shard, (rc, out) in zip(shards, vlib.coq_eval_many(AREA, texts)):
        bad = vlib.parse_nat_list(out)
        if rc != 0 or bad is None:
            ok = False
            chk.corr_failure("closed_loop", {"shard": "coq evaluation failed"}, out[-1500:])
            continue
        for i in bad:
            ok = False
            cs, _, evs, fin = shard[i]
            chk.corr_failure("closed_loop", {"closed_loop": cs},
                             {"impl_events": [[(e["name"], e["sent"]) for e in step] for step in evs], "final": fin})
    chk.obligation("corr:closed_loop", "correspondence", ok)
