"""Entry point: ./check Cxx ... -> harness/cxx.py:run(chk)."""
import argparse
import importlib
import os
import sys
import traceback

from common import vlib


def main():
    ap = argparse.ArgumentParser()
    ap.add_argument("prop")
    ap.add_argument("--tier", default=os.environ.get("VERIF_TIER", "quick"), choices=["quick", "thorough"])
    ap.add_argument("--seed", type=int, default=int(os.environ.get("VERIF_SEED", "0") or 0))
    ap.add_argument("--replay", default=None)
    args = ap.parse_args()
    prop = args.prop.upper()
    mod = importlib.import_module(prop.lower())
    chk = vlib.Check(prop, mod.AREA, tier=args.tier, seed=args.seed, replay=args.replay)
    try:
        mod.run(chk)
    except BaseException as e:  # noqa: BLE001 - a crashing harness must not look like a pass
        traceback.print_exc()
        chk.obligation("harness-completed", "audit", False, f"harness crashed: {e!r}")
    sys.exit(chk.finish())


if __name__ == "__main__":
    main()
